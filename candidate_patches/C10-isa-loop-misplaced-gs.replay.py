import sys, io
sys.path.insert(0, '/repo')
import pyx12.x12context, pyx12.params, pyx12.error_handler

isa = 'ISA*00*          *00*          *ZZ*SENDER         *ZZ*RECEIVER       *200101*1200*U*00401*000000001*0*P*:~'
text = isa + 'GS*FA*S*R*20200101*1200*1*X*004010~ST*997*0001~AK1*HC*1~AK9*A*1*1*1~' \
           + 'GS*FA*S*R*20200101*1200*2*X*004010~GE*1*2~IEA*1*000000001~'

def dump(n, ind=0):
    mn = n.x12_map_node
    if n.type == 'loop':
        print(' ' * ind + 'L %s pos=%s' % (mn.id, mn.pos))
        for k in n.children:
            dump(k, ind + 2)
    elif n.type == 'seg':
        print(' ' * ind + 'S %s pos=%s  %s' % (mn.id, mn.pos, n.seg_data.format()))
    else:
        print(' ' * ind + 'dead')

def unsorted(n, path=''):
    out = []
    if n.type == 'loop':
        ks = [k for k in n.children if k.type is not None]
        ps = [k.x12_map_node.pos for k in ks]
        if ps != sorted(ps):
            out.append((path + '/' + n.id, ps))
        for k in ks:
            out += unsorted(k, path + '/' + n.id)
    return out

param = pyx12.params.params()
errh = pyx12.error_handler.errh_null()
rd = pyx12.x12context.X12ContextReader(param, errh, io.StringIO(text))
trees = []
for n in rd.iter_segments('ISA_LOOP'):
    print('YIELD', n.type, n.id)
    if n.type == 'loop':
        trees.append(n)
        dump(n)
        print('UNSORTED:', unsorted(n))
t = trees[0]
hdr = t.first('GS_LOOP/ST_LOOP/HEADER')
print('header node:', hdr, [ (k.x12_map_node.id, k.x12_map_node.pos) for k in hdr.children])
new = hdr.add_loop('AK2*837*0001~')
print('after add_loop AK2:', [ (k.x12_map_node.id, k.x12_map_node.pos) for k in hdr.children])
print('serialised:')
for s in t.iterate_segments():
    print('  ', s['segment'].format() if isinstance(s, dict) else s)
