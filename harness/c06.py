"""
C06 - every acknowledgement written is itself a complete, well-formed interchange.

Theorems (lean/Pyx12Verif/Props/C06.lean): the complete 997 of the model passes an independent envelope recount
(`ack997_envelope_clean`: SE count = segments in the set, GE / IEA counts, trailer control numbers), ST control
numbers are pairwise different, rendering and re-reading the text gives back the written lines field by field when no
field contains a delimiter (`echo_cannot_split`), the repaired visitor does not raise (`ack_complete`), GS01/GS08 select
the 997 map; kernel-checked witnesses for the unchanged code (D9, D23, D29).

Tie / oracle (this file).  Documents: the C05 generator (all non-FA maps, multi-set / group / interchange, faults) plus
"exotic" renderings: other delimiters, and data / identifiers / control numbers containing `~ * : ^`.  For every
acknowledgement the real x12n_document writes:
  (b1) complete: the visitor did not raise;
  (b2) re-read with the real pyx12.x12file.X12Reader: no reader error at all (envelope or segment level);
  (b3) own recount of the text: SE01 = segments in the set, GE01 = sets, IEA01 = groups, trailer control numbers =
       headers', ST02 unique, as many segments as were written;
  (b4) every offending value that was reported with a standard code comes back as exactly one element;
  (b5) re-validated with the real validator: a map is selected (no EngineError) and the result is True unless every
       complaint is about an echoed value that does not fit the AK/IK element definition;
  (c)  correspondence with the Lean model (op E5, GS08 included).
impl = real run, model = Lean driver, want = the statement evaluated on the written text.
"""
import io
import os
import random

from . import common
from . import c05

DELIMS = [('~', '*', ':', '^'), ('~', '*', ':', '^'), ('\n', '|', '>', '^'), ('!', '+', '\\', '^'), ('~', '|', ':', '^'),
          ('\x1c', '\x1d', '\x1f', '^'), ('~', '*', '>', '^'), ('|', '*', ':', '^'), ('~', '^', ':', '!')]
SPECIAL = ['~', '*', ':', '^']
ECHOED_AK = {'AK1': (1,), 'AK2': (0, 1, 2), 'AK3': (0, 2), 'IK3': (0, 2), 'AK4': (3,), 'IK4': (3,)}


def exotic_case(seed, c):
    """a C05 document re-rendered with other delimiters, with special characters planted where they get echoed"""
    rnd = random.Random(seed * 7000003 + c)
    text, doc, meta = c05.gen_case(seed, 100000 + c)
    delims = rnd.choice(DELIMS)
    usable = [ch for ch in SPECIAL if ch not in delims[:3]]
    planted = []
    if usable and rnd.random() < 0.85:
        for _ in range(rnd.choice([1, 1, 2])):
            ch = rnd.choice(usable)
            how = rnd.choice(['value', 'value', 'value', 'segid', 'sender', 'gsid', 'stctl', 'extra'])
            if how == 'value':
                d = c05.inject(rnd, doc, 'too_long', special='A' + ch + 'B')
            elif how == 'extra':
                d = c05.inject(rnd, doc, 'too_many', special='X' + ch + 'Y')
            elif how == 'segid':
                d = c05.inject(rnd, doc, 'unknown_seg', special='Z' + ch)
            elif how == 'sender':
                for s in doc:
                    if s['id'] == 'ISA':
                        c05.setv(s, 5, ('SE' + ch + 'ND').ljust(15))
                d = 'sender'
            elif how == 'gsid':
                for s in doc:
                    if s['id'] == 'GS':
                        c05.setv(s, 1, 'AP' + ch + 'P')
                d = 'gsid'
            else:
                ids = [s['id'] for s in doc]
                sets, _, _ = c05.spans(doc)
                d = None
                if sets:
                    a, b = rnd.choice(sets)
                    if ids[a] == 'ST' and ids[b] == 'SE':
                        v = '00' + ch + '1'
                        c05.setv(doc[a], 1, v)
                        c05.setv(doc[b], 1, v)
                        d = 'stctl'
            if d:
                planted.append('%s[%s]' % (d.split('@')[0], {'~': 'tilde', '*': 'star', ':': 'colon', '^': 'caret'}[ch]))
    meta = dict(meta)
    meta['delims'] = delims
    meta['planted'] = planted
    meta['faults'] = list(meta['faults']) + planted
    return c05.render(doc, *delims), doc, meta


def split_ack(text):
    out = []
    for piece in text.split('~'):
        piece = piece.lstrip('\r\n')
        if piece == '':
            continue
        parts = piece.split('*')
        out.append((parts[0], parts[1:]))
    return out


def recount(segs):
    """own envelope recount of [(id, [fields])]: list of complaints"""
    bad = []
    isa = gs = st = None
    n_gs = n_st = n_seg = 0
    st_ctls = []
    for sid, f in segs:
        def g(i):
            return f[i] if i < len(f) else None
        if sid == 'ISA':
            if isa is not None:
                bad.append('nested-ISA')
            isa, n_gs = g(12), 0
        elif sid == 'GS':
            if isa is None or gs is not None:
                bad.append('misplaced-GS')
            gs, n_st = g(5), 0
            n_gs += 1
        elif sid == 'ST':
            if gs is None or st is not None:
                bad.append('misplaced-ST')
            st, n_seg = g(1), 1
            n_st += 1
            st_ctls.append(g(1))
        elif sid == 'SE':
            if st is None:
                bad.append('SE-without-ST')
            else:
                if g(1) != st:
                    bad.append('SE02-differs')
                if g(0) != str(n_seg + 1):
                    bad.append('SE01-count')
            st = None
        elif sid == 'GE':
            if gs is None or st is not None:
                bad.append('misplaced-GE')
            else:
                if g(1) != gs:
                    bad.append('GE02-differs')
                if g(0) != str(n_st):
                    bad.append('GE01-count')
            gs = None
        elif sid == 'IEA':
            if isa is None or gs is not None:
                bad.append('misplaced-IEA')
            else:
                if g(1) != isa:
                    bad.append('IEA02-differs')
                if g(0) != str(n_gs):
                    bad.append('IEA01-count')
            isa = None
        else:
            n_seg += 1
    if isa is not None or gs is not None or st is not None:
        bad.append('unterminated')
    if len(set(st_ctls)) != len(st_ctls):
        bad.append('ST02-repeated')
    return bad


def reread(text):
    """the real reader over the acknowledgement text: [(type, code)] of everything it complains about"""
    p = c05.pyx()
    try:
        import pyx12.x12file
        rd = pyx12.x12file.X12Reader(io.StringIO(text))
    except (ImportError, AttributeError) as e:
        raise common.Infra('pyx12.x12file.X12Reader missing: %r' % (e,))
    except Exception as e:
        return [('raise', type(e).__name__)], 0
    errs = []
    n = 0
    try:
        for seg in rd:
            n += 1
            errs.extend((e[0], e[1]) for e in rd.pop_errors())
        rd.cleanup()
        errs.extend((e[0], e[1]) for e in rd.pop_errors())
    except Exception as e:
        errs.append(('raise', type(e).__name__))
    return errs, n


def echoed_values(src_text, real):
    """source values that the visitor copies into the acknowledgement"""
    se, el_t, su, src = c05.own_split(src_text)
    vals = []
    for sid, els in src:
        if sid == 'ISA':
            vals.extend(els[4:8])
        elif sid == 'GS':
            vals.extend(els[:8])
        elif sid == 'ST':
            vals.extend(els[:3])
    for level, code, value, refdes, k, lost in real['reports']:
        if value:
            vals.append(value)
        if k < len(src):
            vals.append(src[k][0])
    return vals


def judge_ack(src_text, real):
    """-> [(key, what)] for C06 on what was written"""
    viol = []
    if real['exc'] is not None or not real.get('kind'):
        return viol
    kind = real['kind']
    if real['ack_exc'] is not None:
        viol.append(('crash:%s:%s:%s' % real['ack_exc'],
                     'acknowledgement visitor raised; the %s stops after %d segment(s), no trailers' % (kind, len(real['writes']))))
        return viol
    text = ''.join(real['writes'])
    unsafe = any(ch in v for v in echoed_values(src_text, real) for ch in '~*:')

    def flag(key, what):
        if unsafe:
            viol.append(('pred:ack-echo-contains-delimiter',
                         'a value copied from the input contains one of ~ * : and %s' % what))
        else:
            viol.append((key, what))
    segs = split_ack(text)
    # (b3) own recount
    if len(segs) != len(real['writes']):
        flag('pred:ack-segment-count-differs-from-writes', '%d segments are read back from %d written' % (len(segs), len(real['writes'])))
    for b in sorted(set(recount(segs))):
        flag('pred:ack-recount:' + b, 'own envelope recount of the %s: %s' % (kind, b))
    # (b2) the real reader
    errs, n = reread(text)
    for t, c in sorted(set(errs)):
        flag('pred:ack-reader-error:%s:%s' % (t, c), 'X12Reader reports %s error %s on the %s' % (t, c, kind))
    # (b4) echoed offending values come back whole
    four = 'AK4' if kind == '997' else 'IK4'
    std = c05.STD_ELE_997 if kind == '997' else c05.STD_ELE_999
    got = [f[3] for sid, f in segs if sid == four and len(f) >= 4]
    over = [sid for sid, f in segs if sid in (four, 'AK3', 'IK3') and len(f) > 4]
    if over:
        flag('pred:ack-line-has-extra-elements', '%s line(s) with more than four elements' % over[0])
    se_, el_, su_, src = c05.own_split(src_text)
    ids = [s[0] for s in src]
    sets, _ = c05.id_spans(ids)
    for level, code, value, refdes, k, lost in real['reports']:
        if level == 'ele' and value and code in std and k < len(ids) and ids[k] not in c05.ENV and \
                any(a < k <= b for a, b, _ in sets) and value not in got and any(ch in value for ch in '~*:'):
            flag('pred:ack-offending-value-not-echoed-whole', 'value %r reported with code %s is not an element of any %s' % (value, code, four))
            break
    # (b5) the real validator
    rv = c05.run_real(text, with_ack=False)
    if rv['exc'] is not None:
        if 'Map not found' in (rv.get('exc_text') or ''):
            flag('pred:ack-revalidation-map-not-found', 're-validating the %s: %s' % (kind, rv['exc_text']))
        else:
            flag('pred:ack-revalidation-raises:%s:%s:%s' % rv['exc'], 're-validating the %s: %s' % (kind, rv.get('exc_text')))
    elif rv['verdict'] is not True:
        rsegs = segs
        other = []
        for level, code, value, refdes, k, lost in rv['reports']:
            sid = rsegs[k][0] if k < len(rsegs) else '?'
            rp = c05.refdes_pos(refdes)
            echoed = False
            if level == 'ele' and rp is not None:
                if sid in ECHOED_AK and (rp[0] - 1) in ECHOED_AK[sid]:
                    echoed = True
                if sid == 'AK1' and rp[0] in (1, 2, 3):
                    echoed = True
                if sid == 'ISA' and rp[0] in (5, 6, 7, 8, 11, 12, 15):
                    echoed = True
                if sid == 'GS' and rp[0] in (2, 3, 6, 7):
                    echoed = True
                if sid == 'TA1' and rp[0] in (1, 2, 3):
                    echoed = True
                if sid == 'GE' and rp[0] == 2:          # the 997 reuses the source GS06 as its own group control number
                    echoed = True
            if not echoed:
                other.append((sid, level, code, str(refdes)))
        for sid, level, code, refdes in sorted(set(other))[:4]:
            flag('pred:ack-rejected-by-validator:%s:%s:%s' % (sid, level, code),
                 're-validating the %s: %s error %s at %s (%s)' % (kind, level, code, sid, refdes))
    return viol


DATA = os.path.join(os.path.dirname(os.path.abspath(__file__)), 'data')
# directed inputs (name, file under harness/data): evaluated on every run, whatever the seed
#   ak4-max99: 106 element errors on one segment -> 106 AK4 behind one AK3, the 997 map allows 99 (`max_use`): re-validation
#              reports segment error 5 at the 100th AK4 (known finding, not repaired)
DIRECTED = [('ak4-max99', 'c06_ak4_max99.txt')]


def work_directed(args):
    name, fn = args
    path = os.path.join(DATA, fn)
    try:
        with open(path) as fd:
            text = fd.read()
    except OSError as e:
        raise common.Infra('directed input missing: %s (%r)' % (path, e))
    real = c05.run_real(text)
    viol = judge_ack(text, real)
    se, el_t, su, src = c05.own_split(text)
    return {'c': name, 'exotic': False, 'directed': name, 'text': text,
            'meta': {'maps': ['directed:' + fn], 'icvn': None, 'shape': None, 'faults': ['directed-' + name],
                     'delims': (se, el_t, su, '^'), 'planted': []},
            'viol': viol, 'mline': c05.model_line(real), 'nrep': len(real['reports']), 'exc': real['exc'],
            'nsets': sum(1 for sid, _ in src if sid == 'ST'),
            'real': {k: real[k] for k in ('exc', 'snapshot', 'count', 'kind', 'ack_exc', 'writes', 'verdict')},
            'lost': sum(1 for r in real['reports'] if r[5])}


def work(args):
    seed, c, exotic = args
    if exotic:
        text, doc, meta = exotic_case(seed, c)
    else:
        text, doc, meta = c05.gen_case(seed, 50000 + c)
    real = c05.run_real(text)
    viol = judge_ack(text, real)
    return {'c': c, 'exotic': exotic, 'text': text,
            'meta': {k: meta.get(k) for k in ('maps', 'icvn', 'shape', 'faults', 'delims', 'planted')},
            'viol': viol, 'mline': c05.model_line(real), 'nrep': len(real['reports']), 'exc': real['exc'],
            'nsets': sum(sum(g) for g in meta['shape']),
            'real': {k: real[k] for k in ('exc', 'snapshot', 'count', 'kind', 'ack_exc', 'writes', 'verdict')},
            'lost': sum(1 for r in real['reports'] if r[5])}


def run(tier):
    import logging
    logging.disable(logging.CRITICAL)
    res = common.Result('C06', tier)
    res.cov['rule'] = ('acknowledgements written for generated documents (C05 generator, composite-level element errors included) '
                       'and for exotic renderings (other delimiters; ~ * : ^ planted in offending values, unknown segment ids, sender '
                       'ids, control numbers), plus the directed inputs of harness/data (DIRECTED); a case '
                       'is the source text; non-trivial = at least one error reported or at least two sets')
    built = common.proof_stage(res, 'C06')
    # map-side hypotheses of ack997_revalidates (shape997, ackDefsOk, ackKeysOk, isaDefOk): regenerated from the shipped 997 and
    # control maps on every run (tools/xack.py) and discharged by decide +kernel
    import json
    import subprocess
    import sys
    px = subprocess.run([sys.executable, os.path.join(common.VERIF, 'tools', 'xlate.py')], stdout=subprocess.PIPE, stderr=subprocess.STDOUT, text=True)
    if px.returncode != 0:
        raise common.Infra('xlate: ' + px.stdout[-800:])
    side = json.load(open(os.path.join(common.WORK, 'gen', 'tables.json')))
    okg, logg = common.lean_build(('Gen',))
    gax = {}
    if okg:
        gax, gmissing, _ = common.lean_audit('C06', os.path.join('Gen', 'AuditC06.lean'))
    for thm in side.get('ack_theorems', []):
        res.obligations.append(thm)
        if thm in gax and set(gax[thm]) <= common.STD_AXIOMS:
            res.discharged.append(thm)
        else:
            res.broke('theorem:' + thm, 'decide +kernel no longer proves it for the shipped 997 / control maps (or non-standard axioms: %r)' % (gax.get(thm),))
    if not side.get('ack_theorems'):
        res.broke('theorem:Gen.M997_4010_shape997', '997.4010.xml or a control map is not among the translated maps')
    c05.pyx()
    n = 300 if tier == 'quick' else 10000
    jobs = [(common.seed(), c, False) for c in range(n)] + [(common.seed(), c, True) for c in range(n)]
    results = list(c05.pool_map(work, jobs, tier))
    results.sort(key=lambda w: (w['exotic'], w['c']))
    results.extend(work_directed(d) for d in DIRECTED)
    mouts = common.run_model([w['mline'] for w in results]) if built else None
    dist = {'kinds': {}, 'delims': {}, 'planted': {}, 'faults': {}, 'acks': 0, 'out_of_scope_crashes': {}}

    def bump(d, k):
        d[k] = d.get(k, 0) + 1
    ndis = 0
    for i, w in enumerate(results):
        res.count()
        res.distinct(w['text'], nontrivial=(w['nrep'] > 0 or w['nsets'] >= 2))
        bump(dist['kinds'], str(w['real']['kind']))
        bump(dist['delims'], repr(w['meta']['delims']))
        for pl in w['meta'].get('planted') or []:
            bump(dist['planted'], pl)
        for f in w['meta']['faults'] or ['none']:
            bump(dist['faults'], f.split('@')[0].split(':')[0].split('[')[0])
        if w['real']['writes']:
            dist['acks'] += 1
        if w['exc'] is not None:
            bump(dist['out_of_scope_crashes'], '%s:%s:%s' % tuple(w['exc']))
        if i % 97 == 11:
            res.sample({'maps': w['meta']['maps'], 'delims': w['meta']['delims'], 'faults': w['meta']['faults'],
                        'ack_segments': len(w['real']['writes']), 'kind': w['real']['kind']})
        for key, what in w['viol']:
            res.violation(key, what, {'call': 'x12n_document(params(), StringIO(text), sink, None); re-read / re-validate what was written',
                                      'text': w['text'], 'key': key, 'faults': w['meta']['faults'], 'maps': w['meta']['maps']})
        if mouts is not None:
            bad = c05.compare_summary(w, mouts[i], mask=False)
            if bad:
                ndis += 1
                if not w['viol']:
                    for name, detail in bad[:2]:
                        res.broke('correspondence:' + name, 'case %s%s faults %r: %s' % ('x' if w['exotic'] else '', w['c'], w['meta']['faults'], detail[:500]))
    res.notes['input_distribution'] = dist
    res.notes['disagreements_checked'] = ndis
    res.assumptions = ['an acknowledgement is written (x12n_document returns and the last group is not FA)',
                       '"echoed values fit the element definitions": complaints of the validator about AK1/AK2/AK3/AK4(04)/IK3/IK4(04), '
                       'ISA05-08,11,12,15, GS02,03,06,07, GE02 and TA101-03 of the acknowledgement are allowed',
                       'TA105 of a 999 and the order of the AK3/IK3 lines of one segment are sorted since the repair and compared exactly',
                       'a case in which a copied value contains ~ * or : is reported under the single key pred:ack-echo-contains-delimiter']
    return res.finish(trusted=common.TRUSTED_COMMON + [
        'modelled: error_997_visitor, error_999_visitor + X12Writer, Segment/Composite operations (Model/Ack.lean)',
        'oracle: own splitter / recount of the written text, the real X12Reader and the real validator'])


def replay(d):
    import logging
    logging.disable(logging.CRITICAL)
    r = d['replay']
    real = c05.run_real(r['text'])
    viol = judge_ack(r['text'], real)
    print('verdict=%r exc=%r ack_exc=%r' % (real['verdict'], real['exc'], real['ack_exc']))
    print(''.join(real['writes']))
    for k, w in viol:
        print('%s: %s' % (k, w))
    hit = [w for k, w in viol if k == r['key']]
    print('%s: %s' % (r['key'], 'still violated' if hit else 'not violated'))
    return 1 if hit else 0
