"""
C15 - element/composite validation enforces exactly what the map declares.

Theorems (lean/Pyx12Verif/Props/C15.lean): for the Lean model of element_if.is_valid /
composite_if.is_valid the set of reported codes equals the set-valued `Spec` written from the
property statement, the boolean is false exactly when a code was reported, and an admissible value
draws no code - for every definition and every value.

Tie: every simple element, sub-element and composite node of every loadable map file (quick: a seeded
~10 % node sample) x a per-node value catalogue x charset B/E x external-code exclusion off/on.
   impl  = element_if.is_valid / composite_if.is_valid with errh_list (real code, repo working tree)
   model = compiled Lean model (ops E15 / K15), fed with the node's attributes
   want  = an independent Python transcription of `Spec` (own parse of dataele.xml / codes.xml,
           own character classes and calendar through harness.c13.spec)
"""
import os
import random
import re
import traceback
import xml.etree.ElementTree as ET

from . import common
from . import c13

TERM = ''        # sub-element separator used to build Composite inputs (never part of a value)
KNOWN_TL = ('RD8', 'D8', 'D6', 'DT', 'TM')
CONTROL = set(chr(c) for c in (0x07, 0x09, 0x0A, 0x0B, 0x0C, 0x0D, 0x1C, 0x1D, 0x1E, 0x1F,
                               0x01, 0x02, 0x03, 0x04, 0x05, 0x06, 0x11, 0x12, 0x13, 0x14, 0x15, 0x16, 0x17))
WS_CODES = [0x09, 0x0A, 0x0B, 0x0C, 0x0D, 0x1C, 0x1D, 0x1E, 0x1F, 0x20, 0x85, 0xA0, 0x1680] + \
    list(range(0x2000, 0x200B)) + [0x2028, 0x2029, 0x202F, 0x205F, 0x3000]


# ------------------------------------------------------------------------------------ own parses

def map_dir():
    import pyx12
    return os.path.join(os.path.dirname(os.path.abspath(pyx12.__file__)), 'map')


def own_dataele():
    out = {}
    for e in ET.parse(os.path.join(map_dir(), 'dataele.xml')).getroot().iter('data_ele'):
        out[e.get('ele_num')] = (e.get('data_type'), int(e.get('min_len')), int(e.get('max_len')))
    return out


def own_codes():
    out = {}
    for cs in ET.parse(os.path.join(map_dir(), 'codes.xml')).getroot().iter('codeset'):
        out[cs.findtext('id')] = [c.text for c in cs.findall('version/code')]
    return out


# ------------------------------------------------------------------------------------ definitions

class Def(object):
    """what the map declares for one element node (plain attribute reads + own dataele parse)"""
    __slots__ = ('usage', 'ty', 'mn', 'mx', 'codes', 'ext', 'regex', 'seq', 'par_comp', 'par_req',
                 'path', 'mapfile', 'node', 'refdes', 'data_ele', 'tl_variants', 'dangling', 'codeset')


def make_def(node, mapfile, path, par_comp, dataele):
    d = Def()
    d.node, d.mapfile, d.path = node, mapfile, path
    d.usage = node.usage
    d.data_ele = node.data_ele
    row = dataele.get(node.data_ele)
    d.dangling = row is None
    d.ty, d.mn, d.mx = row if row else (None, 0, 0)
    d.codes = list(node.valid_codes)
    d.codeset = set(d.codes)
    d.ext = node.external_codes
    d.regex = node.res if (node.res is not None and node.res != '') else None
    d.seq = node.seq
    d.par_comp = par_comp
    d.par_req = node.parent.usage == 'R'
    d.refdes = node.refdes
    d.tl_variants = [()]
    return d


class CompDefn(object):
    __slots__ = ('usage', 'kids', 'node', 'path', 'mapfile', 'refdes', 'segnode', 'idx')


def walk_map(m, mapfile, dataele):
    """yield ('e', Def) / ('c', CompDefn) for every element, sub-element and composite node"""
    def rec(n, loop_path):
        pos_map = getattr(n, 'pos_map', None)
        if pos_map is None:
            return
        for k in sorted(pos_map):
            for ch in pos_map[k]:
                if ch.base_name == 'segment':
                    yield from seg(ch, loop_path)
                else:
                    yield from rec(ch, loop_path + '/' + ch.id)

    def seg(s, loop_path):
        tl = []
        kids = list(s.children)
        for i, c in enumerate(kids):
            if c.base_name == 'composite':
                cd = CompDefn()
                cd.node, cd.usage, cd.mapfile = c, c.usage, mapfile
                cd.path = loop_path + '/' + (c.id or c.refdes or '%s%02d' % (s.id, i + 1))
                cd.refdes, cd.segnode, cd.idx = c.refdes, s, i
                cd.kids = []
                for sc in c.children:
                    d = make_def(sc, mapfile, loop_path + '/' + (sc.id or '%s%02d-%02d' % (s.id, i + 1, sc.seq)), True, dataele)
                    cd.kids.append(d)
                    yield ('e', d)
                yield ('c', cd)
            else:
                d = make_def(c, mapfile, loop_path + '/' + (c.id or '%s%02d' % (s.id, i + 1)), False, dataele)
                # the type list segment_if.is_valid would pass
                if c.data_ele == '1250':
                    tl.extend(c.valid_codes)
                if i == 2 and s.id == 'DTP':
                    quals = [q for q in (kids[1].valid_codes if kids[1].base_name == 'element' else []) if q in KNOWN_TL]
                    d.tl_variants = [()] + [(q,) for q in dict.fromkeys(quals)]
                elif c.data_ele == '1251' and len(tl) > 0:
                    d.tl_variants = [tuple(tl)]
                yield ('e', d)

    yield from rec(m, '')


# ------------------------------------------------------------------------------------ Spec (Python)

def is_num_type(ty):
    return ty == 'R' or ty[:1] == 'N'


def ext_member(ext, v, excluded, codesets):
    return ext in excluded or v in codesets[ext]


def spec_elem(d, tl, charset, icvn, extm, rfound, kind, v):
    """the set of codes the property statement implies (independent transcription of DESIGN C15 Spec)"""
    if kind == 'c':
        return {6}
    if kind == 'a' or v == '':
        first_of_optional_composite = d.seq == 1 and d.par_comp and not d.par_req
        return {1} if (d.usage == 'R' and not first_of_optional_composite) else set()
    if d.usage == 'N':
        return {10}
    out = set()
    n = len(v) - v.count('-') - v.count('.') if is_num_type(d.ty) else len(v)
    if n < d.mn:
        out.add(4)
    if n > d.mx:
        out.add(5)
    if any(c in CONTROL for c in v):
        out.add(6)
        return out
    if d.ty in ('AN', 'ID') and v.endswith(' ') and len(v.rstrip(' ')) >= d.mn:
        out.add(6)
    if (d.codes or d.ext is not None) and v not in d.codeset and not (d.ext is not None and extm):
        out.add(7)
    if not c13.spec(v, d.ty, charset, icvn):
        out.add(8 if d.ty in ('RD8', 'DT', 'D8', 'D6') else 9 if d.ty == 'TM' else 6)
    if tl and not any(c13.spec(v, t, charset, '00401') for t in tl):
        out.add(9 if 'TM' in tl else 8)
    if d.regex is not None and not rfound:
        out.add(7)
    return out


def spec_comp(cd, charset, icvn, excluded, codesets, vals):
    if vals is None or all(x == '' for x in vals):
        return {2} if cd.usage == 'R' else set()
    if cd.usage == 'N':
        return {5}
    out = set()
    if len(vals) > len(cd.kids):
        out.add(3)
    for i, d in enumerate(cd.kids):
        if i < len(vals):
            v = vals[i]
            out |= spec_elem(d, (), charset, icvn, kid_extm(d, v, excluded, codesets), kid_rfound(d, v), 's', v)
        else:
            out |= spec_elem(d, (), charset, icvn, False, False, 'a', None)
    return out


def kid_extm(d, v, excluded, codesets):
    return d.ext is not None and ext_member(d.ext, v, excluded, codesets)


def kid_rfound(d, v):
    return d.regex is not None and re.search(d.regex, v, re.S) is not None


# ------------------------------------------------------------------------------------ value catalogue

def filler(ty, n):
    if n <= 0:
        return ''
    src = 'AB1C2D3E' if ty in ('AN', 'ID', 'B') else '1234567890'
    return (src * (n // len(src) + 1))[:n]


DATE_SHAPES = ['20240229', '20230229', '17991231', '240229', '230229', '202402291230', '202402292460',
               '20240101-20240131', '20240131-2024010', '20240101-20240102-20240103', '1230', '2460', '123',
               '123045', '12304599', '123099', '12345', '99999999']


def good_value(d, codesets):
    """a value that meets the definition as far as the harness can tell (used to fill composites)"""
    for c in d.codes:
        if c == c.strip() and d.mn <= len(c) <= d.mx:
            return c
    if d.ext is not None:
        for c in codesets.get(d.ext, []):
            if c == c.strip() and d.mn <= len(c) <= d.mx:
                return c
    if d.regex is not None:
        return '123456789'
    ty = d.ty
    if ty in ('DT', 'D8'):
        return '20240229' if d.mn <= 8 <= d.mx else '240229'
    if ty == 'D6':
        return '240229'
    if ty == 'RD8':
        return '20240101-20240131'
    if ty == 'TM':
        return '1230' if d.mn <= 4 <= d.mx else '123045'
    return filler(ty, max(d.mn, 1))


def catalogue(d, tier, rnd, codesets):
    """[(kind, value)] : kind 'a' absent, 's' simple value, 'c' composite where simple"""
    ty, mn, mx = d.ty, d.mn, d.mx
    vals = []
    add = vals.append
    add(('a', None))
    add(('s', ''))
    add(('c', 'A' + TERM + 'B'))
    if d.usage == 'N':
        # a not-used element: anything present draws code 10 whatever it is; a short catalogue is enough
        for v in (filler(ty, max(mn, 1)), filler(ty, mx + 1), 'A\nB', 'A ', ' ', (d.codes + ['ZQ'])[0], '20240229'):
            add(('s', v))
        return list(dict.fromkeys(vals))
    for n in sorted({mn - 1, mn, mn + 1, mx - 1, mx, mx + 1}):
        if n >= 1:
            add(('s', filler(ty, n)))
    if is_num_type(ty):
        for v in ('-' + filler(ty, mx), filler(ty, max(mx - 1, 1)) + '.5', '-' + filler(ty, mx + 1), '-.' + filler(ty, mx),
                  '.5', '-', '.', '1.', '1.2.3', '1-', '+1', '1e5', '-0', '٣', '--', '-' * (mx + 1), '1' * max(mn - 1, 1) + '-.'):
            add(('s', v))
    base = filler(ty, max(mn - 1, 0))
    for ch in ('a', '%', '^', '`', 'é', '~', '*', ':', ' ', '9', 'Z', '中'):
        add(('s', base + ch))
    add(('s', 'A B'[:max(mx, 1)] if mx >= 3 else ' A'))
    # control characters (with and without a length error)
    for v in ('A\nB', '\x07', base + '\x01', filler(ty, mx + 1) + '\t', '\x1f' + base, base + '\r '):
        add(('s', v))
    # trailing blanks
    for v in (filler(ty, mn) + ' ', filler(ty, mn) + '  ', filler(ty, max(mn - 1, 0)) + ' ', filler(ty, mx) + ' ',
              filler(ty, max(mx - 1, 1)) + ' ', ' ', '  ', ' ' * max(mn, 1), 'A  ', 'A  ', filler(ty, mn) + ' '):
        add(('s', v))
    # blanks at BOTH ends: the minimum length reached only thanks to leading blanks (rstrip vs strip), one short of it, at it
    for v in (' ' * max(mn - 1, 1) + 'A ', ' ' + filler(ty, max(mn - 1, 1)) + ' ', ' ' + filler(ty, max(mn - 2, 1)) + '  ',
              '  ' + filler(ty, max(mn - 2, 1)) + ' ', ' A ', ' ' + filler(ty, mn) + ' '):
        add(('s', v))
    # inline codes
    if d.codes:
        codes = d.codes
        if tier != 'thorough' and len(codes) > 8:
            k = rnd.randrange(len(codes))
            codes = [codes[(k + j * 7) % len(codes)] for j in range(8)]
        for c in codes:
            add(('s', c))
        c0 = codes[0]
        add(('s', c0 + ' '))
        add(('s', c0.lower() if c0.lower() != c0 else c0 + 'x'))
        add(('s', c0.rstrip() if c0.rstrip() != c0 else c0[:-1] + '#'))
    if d.codes or d.ext is not None:
        for v in ('ZQ' * 40, 'QZ' * 40):
            v = v[:max(mn, min(mx, 3))]
            if v not in d.codeset:
                add(('s', v))
    # external set: members and non-members by the harness's own parse
    if d.ext is not None and d.ext in codesets:
        mem = codesets[d.ext]
        fit = [c for c in mem if mn <= len(c) <= mx]
        if fit:
            add(('s', fit[rnd.randrange(len(fit))]))
            add(('s', fit[0]))
        if mem:
            m = mem[rnd.randrange(len(mem))]
            add(('s', m))
            add(('s', m + ' '))
            add(('s', m.lower()))
            add(('s', m[:-1] + ('0' if m[-1:] != '0' else '1')))
    # date / time shapes
    if ty in ('DT', 'D8', 'D6', 'RD8', 'TM') or len(d.tl_variants) > 1 or d.tl_variants[0]:
        for v in DATE_SHAPES:
            add(('s', v))
    else:
        add(('s', '20240229'))
        add(('s', '1230'))
    if d.regex is not None:
        for v in ('123456789', '12345678', 'A123456789B', '12345678\n9', 'ABCDEFGHI'):
            add(('s', v))
    seen = set()
    out = []
    for kv in vals:
        if kv not in seen:
            seen.add(kv)
            out.append(kv)
    return out


def comp_patterns(cd, rnd, codesets):
    """component lists (or None) to feed one composite node"""
    n = len(cd.kids)
    good = [good_value(d, codesets) for d in cd.kids]
    pats = [None, [''], [''] * max(n, 1), ['X'], ['', 'X']]
    if n:
        pats.append(list(good))
        pats.append([good[0]])
        pats.append([g if cd.kids[i].usage == 'R' else '' for i, g in enumerate(good)])
        pats.append([g if cd.kids[i].usage != 'N' else '' for i, g in enumerate(good)])
        pats.append(list(good) + ['X'])
        pats.append(list(good) + ['', ''])
        pats.append(list(good) + ['', 'X'])
        pats.append([''] + list(good[1:]))
        k = rnd.randrange(n)
        p = list(good); p[k] = ''
        pats.append(p)
        p = list(good); p[k] = good[k] + 'ZZZZZZZZZZZZZZZZZZZZZZZZZZZZZZZZZZZZZZZZZZZZZZZZZZZZZZZZZZZZZZZZZZZZZZZZZZZZZZZZ'
        pats.append(p)
        p = list(good); p[k] = 'A\nB'
        pats.append(p)
        p = list(good); p[k] = good[k] + ' '
        pats.append(p)
        pats.append(good[:k + 1])
        pats.append([''] * k + [good[k]])
    out = []
    for p in pats:
        if p not in out:
            out.append(p)
    return out


# ------------------------------------------------------------------------------------ real side

def crash_key(e):
    tb = traceback.extract_tb(e.__traceback__)
    inner = None
    for fr in tb:
        if os.sep + 'pyx12' + os.sep in fr.filename:
            inner = fr
    if inner is None:
        inner = tb[-1]
    return 'crash:%s:%s:%s' % (type(e).__name__, os.path.basename(inner.filename), inner.name)


class Real(object):
    """pyx12 entry points, resolved once; a missing one is an infrastructure error"""

    def __init__(self):
        try:
            import pyx12.map_if
            import pyx12.params
            import pyx12.segment
            import pyx12.error_handler
            self.load_map_file = pyx12.map_if.load_map_file
            self.params = pyx12.params.params
            self.Composite = pyx12.segment.Composite
            self.Element = pyx12.segment.Element
            self.Segment = pyx12.segment.Segment
            self.errh_list = pyx12.error_handler.errh_list
            pyx12.map_if.element_if.is_valid
            pyx12.map_if.composite_if.is_valid
        except (ImportError, AttributeError) as e:
            raise common.Infra('pyx12 entry point missing: %r' % (e,))
        self.errh = self.errh_list()

    def elem(self, d, kind, v, tl):
        """-> ('ok', bool, [codes], refdes_ok) | ('crash', key, msg)"""
        if kind == 'a':
            obj = None
        elif kind == 'c':
            obj = self.Composite(v, TERM)
        elif d.par_comp:
            obj = self.Element(v)
        else:
            obj = self.Composite(v, TERM)
        errh = self.errh
        errh.reset()
        try:
            if tl:
                r = d.node.is_valid(obj, errh, list(tl))
            else:
                r = d.node.is_valid(obj, errh)
        except Exception as e:
            return ('crash', crash_key(e), '%s: %s' % (type(e).__name__, e))
        errs = errh.err_ele
        return ('ok', r, [int(t[0]) for t in errs], all(t[3] == d.refdes for t in errs))

    def comp(self, cd, vals):
        obj = None if vals is None else self.Composite(TERM.join(vals), TERM)
        errh = self.errh
        errh.reset()
        try:
            r = cd.node.is_valid(obj, errh)
        except Exception as e:
            return ('crash', crash_key(e), '%s: %s' % (type(e).__name__, e))
        return ('ok', r, [int(t[0]) for t in errh.err_ele], True)


def load_maps(real, exclude):
    """{file: map} for every loadable map file with at least one segment; also the files that fail"""
    param = real.params()
    param.set('exclude_external_codes', exclude)
    maps, failed = {}, {}
    for f in sorted(os.listdir(map_dir())):
        if not f.endswith('.xml'):
            continue
        try:
            m = real.load_map_file(f, param)
        except Exception as e:
            failed[f] = '%s: %s' % (type(e).__name__, str(e)[:100])
            continue
        if m is None or not getattr(m, 'pos_map', None):
            continue
        maps[f] = (m, param)
    return maps, failed


# ------------------------------------------------------------------------------------ model lines

def u_(b):
    return '1' if b else '0'


def kid_fields(d, extended, v5010, extm, rfound, tl):
    ty = d.ty if d.ty is not None else ''
    return [d.usage, ty, d.mn, d.mx, u_(d.ext is not None), u_(d.regex is not None), d.seq, u_(d.par_comp),
            u_(d.par_req), u_(extended), u_(v5010), u_(extm), u_(rfound), len(d.codes)] + d.codes + [len(tl)] + list(tl)


def parse_model_elem(s):
    b, _, cs = s.partition(' ')
    return (b == '1', [int(x) for x in cs.split(',') if x])


# ------------------------------------------------------------------------------------ run

def check_tables(res):
    """the two code-point tables the model and the spec rely on, against Python itself"""
    ws = [c for c in range(0x110000) if chr(c).isspace()]
    res.count()
    if ws != sorted(WS_CODES):
        res.broke('correspondence:ElemValid.wsCodes', 'str.isspace table differs: %r' % (sorted(set(ws) ^ set(WS_CODES))[:10],))
    from pyx12.validation import contains_control_character
    cc = [c for c in range(0x3000) if contains_control_character(chr(c))[0]]
    res.count()
    if set(cc) != set(ord(c) for c in CONTROL):
        res.broke('correspondence:Validation.controlCodes', 'control character table differs: %r' %
                  (sorted(set(cc) ^ set(ord(c) for c in CONTROL))[:10],))


def run(tier):
    res = common.Result('C15', tier)
    res.cov['rule'] = ('every element / sub-element / composite node of every loadable map (quick: seeded 10 % sample + all '
                       'regex nodes) x value catalogue (absent, empty, composite-for-simple, lengths min-1..max+1, sign/point '
                       'forms, one representative per character class, control characters, trailing blanks, inline codes and '
                       'non-members, external-set members and non-members, date/time shapes x qualifier-selected type lists, '
                       'regex) x charset B/E x exclusion off/on. case = (definition, setting, type list, value); '
                       'non-trivial = value present and non-empty')
    built = common.proof_stage(res, 'C15')
    real = Real()
    seed = common.seed()
    rnd = random.Random(seed * 104729 + 15)
    dataele = own_dataele()
    codesets = own_codes()
    check_tables(res)

    # exclusion "on": a seeded non-empty subset of the set names (so that both arms are seen under "on")
    names = sorted(codesets)
    excl_on = sorted(n for n in names if rnd.random() < 0.5) or names[:1]
    settings = [('off', None, frozenset()), ('on', ','.join(excl_on), frozenset(excl_on))]
    notes = {'maps': 0, 'element_nodes': 0, 'composite_nodes': 0, 'sampled_elements': 0, 'sampled_composites': 0,
             'excluded_sets_when_on': excl_on, 'kinds': {}, 'codes_seen': {}, 'impl_false': 0, 'not_loadable': {}, 'disagreements_checked': 0, 'ncase': 0}
    lines = []      # model ops
    cases = []      # (tag, impl, want_set, info)
    dangling_seen = set()
    wf_seen = set()
    admissible_checked = 0

    for (exname, exparam, excluded) in settings:
        seen_defs = set()       # quick tier: besides the 10 % sample, the first node of every distinct (type, min, max) definition
        maps, failed = load_maps(real, exparam)
        notes['not_loadable'] = failed
        if not maps:
            raise common.Infra('no map file could be loaded')
        notes['maps'] = len(maps)
        for mapfile, (m, param) in maps.items():
            icvn = m.icvn
            v5010 = icvn == '00501'
            nodes = list(walk_map(m, mapfile, dataele))
            if exname == 'off':
                notes['element_nodes'] += sum(1 for k, _ in nodes if k == 'e')
                notes['composite_nodes'] += sum(1 for k, _ in nodes if k == 'c')
            nrnd = random.Random('%d/%s' % (seed, mapfile))   # same node sample under both settings
            skip = random.Random('%d/%s/skip' % (seed, mapfile))
            for kind_, nd in nodes:
                take = tier == 'thorough' or nrnd.random() < 0.10
                if kind_ == 'e':
                    d = nd
                    sig = (d.ty, d.mn, d.mx, d.usage == 'N')
                    if sig not in seen_defs and not d.dangling:
                        seen_defs.add(sig)
                        take = True
                    key = 'map:%s:%s' % (mapfile, d.path)
                    # ---- definition sanity (domain of the model) and map-data findings: every node, every tier
                    if exname == 'off':
                        if d.dangling:
                            if key not in dangling_seen:
                                dangling_seen.add(key)
                                got = real.elem(d, 's', 'A', ())
                                res.count()
                                res.violation(key, 'element %s refers to data element %r which dataele.xml does not define; '
                                              'is_valid("A") -> %s' % (d.refdes, d.data_ele, got[1:]),
                                              {'map': mapfile, 'path': d.path, 'kind': 's', 'value': 'A', 'exclude': None,
                                               'charset': 'E', 'type_list': [], 'required': 'a defined data element'})
                        else:
                            bad = wf_problem(d)
                            if bad and key not in wf_seen:
                                wf_seen.add(key)
                                res.violation(key, bad, {'map': mapfile, 'path': d.path, 'required': 'well-formed definition'})
                            # every code the definition itself lists must be admissible (D31)
                            if d.usage != 'N' and d.codes:
                                param.set('charset', 'E')
                                for c in d.codes:
                                    got = real.elem(d, 's', c, ())
                                    rfound = d.regex is not None and re.search(d.regex, c, re.S) is not None
                                    want = spec_elem(d, (), 'E', icvn, False, rfound, 's', c)
                                    res.count()
                                    admissible_checked += 1
                                    rp = {'map': mapfile, 'path': d.path, 'kind': 's', 'value': c, 'exclude': None,
                                          'charset': 'E', 'type_list': [], 'required': [True, []]}
                                    if want:
                                        # the definition contradicts itself: a listed code breaks the node's own type/length rules
                                        res.violation(key, 'inline code %r listed for %s (%s %d..%d) is itself not admissible: is_valid -> %s, '
                                                      'the definition implies %s' % (c, d.refdes, d.ty, d.mn, d.mx, got[1:3], sorted(want)), rp)
                                    elif got[0] != 'ok' or got[2] or got[1] is not True:
                                        res.violation('pred:declared-code-rejected', '%s %s: inline code %r (%s %d..%d) meets the definition but '
                                                      'is_valid -> %s' % (mapfile, d.path, c, d.ty, d.mn, d.mx, got[1:3]), rp)
                    if d.dangling:
                        continue
                    if not (take or d.regex is not None):
                        continue
                    if exname == 'on' and d.ext is None and skip.random() < 0.8:
                        continue      # exclusion cannot matter without an external set: keep a fifth as a control
                    if exname == 'off':
                        notes['sampled_elements'] += 1
                    cat = catalogue(d, tier, rnd, codesets)
                    for tl in d.tl_variants:
                        for charset in ('B', 'E'):
                            param.set('charset', charset)
                            ext = charset == 'E'
                            for (kind, v) in cat:
                                sv = v if kind == 's' else ''
                                extm = d.ext is not None and kind == 's' and ext_member_safe(d.ext, sv, excluded, codesets)
                                rfound = d.regex is not None and kind == 's' and re.search(d.regex, sv, re.S) is not None
                                got = real.elem(d, kind, v, tl)
                                want = spec_elem(d, tl, charset, icvn, extm, rfound, kind, v)
                                lines.append(common.line('E15', kind, sv, *kid_fields(d, ext, v5010, extm, rfound, tl)))
                                cases.append(('e', got, want, (mapfile, d.path, exname, charset, tl, kind, v, exparam)))
                else:
                    cd = nd
                    if not take or any(k.dangling for k in cd.kids):
                        continue
                    if exname == 'on' and all(k.ext is None for k in cd.kids) and skip.random() < 0.8:
                        continue
                    if exname == 'off':
                        notes['sampled_composites'] += 1
                    for charset in ('B', 'E'):
                        param.set('charset', charset)
                        ext = charset == 'E'
                        for vals in comp_patterns(cd, rnd, codesets):
                            got = real.comp(cd, vals)
                            want = spec_comp(cd, charset, icvn, excluded, codesets, vals)
                            f = ['K15', 'P', cd.usage, u_(vals is not None), len(vals or [])] + list(vals or []) + [len(cd.kids)]
                            for i, k in enumerate(cd.kids):
                                v = vals[i] if (vals is not None and i < len(vals)) else None
                                f += kid_fields(k, ext, v5010, v is not None and kid_extm(k, v, excluded, codesets),
                                                v is not None and kid_rfound(k, v), ())
                            lines.append(f)
                            cases.append(('c', got, want, (mapfile, cd.path, exname, charset, (), 'comp', vals, exparam)))
                    # segment level: a composite carrying more components than declared must not crash (D19)
                    if exname == 'off' and cd.usage != 'N':
                        seg_probe(res, real, cd, codesets)
            flush(res, notes, lines, cases, built)

    notes['declared_codes_checked'] = admissible_checked
    notes['exhaustive'] = False
    res.notes['input_distribution'] = notes
    res.assumptions = ['usage in {R,S,N}; data element defined with a non-empty type (violations of this are reported as map findings)',
                       'external-set membership and the regex verdict enter model and spec as Booleans computed by the harness '
                       '(own parse of codes.xml, Python re)',
                       'values are Python str without lone surrogates; icvn as read from the map (00401 / 00501)']
    return res.finish(trusted=common.TRUSTED_COMMON + [
        'modelled: element_if.is_valid, _is_valid_code, composite_if.is_valid; validation.IsValidDataType via the C13 model',
        'parameters (not modelled): ExternalCodes.isValid, DataElements.get_by_elem_num, re.search for the map regexes',
        'Python oracle: harness.c13.spec for the value languages, own xml.etree parse of dataele.xml and codes.xml'])


def flush(res, notes, lines, cases, built):
    """run the model on one batch and compare impl / model / want case by case"""
    # composite ops are evaluated for the code as shipped and with the guard: two lines per case
    flat = []
    idx = []
    for ln in lines:
        if isinstance(ln, list):
            idx.append((len(flat), True))
            flat.append(common.line(*[x if x != 'P' else '0' for x in ln[:2]] + ln[2:]))
            flat.append(common.line(*[x if x != 'P' else '1' for x in ln[:2]] + ln[2:]))
        else:
            idx.append((len(flat), False))
            flat.append(ln)
    model = common.run_model(flat) if built else None

    nbroke = 0
    for ci, (tag, got, want, info) in enumerate(cases):
        (mapfile, path, exname, charset, tl, kind, v, exparam) = info
        res.count()
        res.distinct((tag, mapfile, path, exname, charset, tl, kind, v if not isinstance(v, list) else tuple(v)),
                     nontrivial=(v is not None and v != '' and v != ['']))
        notes['kinds'][kind] = notes['kinds'].get(kind, 0) + 1
        replay = {'map': mapfile, 'path': path, 'exclude': exparam, 'charset': charset, 'type_list': list(tl),
                  'kind': kind, 'value': v, 'required': [len(want) == 0, sorted(want)]}
        if got[0] == 'crash':
            res.violation(got[1], '%s %s value=%r (%s): %s; the definition implies codes %s' %
                          (mapfile, path, v, kind, got[2], sorted(want)), replay)
            agree = False
        else:
            _, r, codes, refdes_ok = got
            for c in codes:
                notes['codes_seen'][c] = notes['codes_seen'].get(c, 0) + 1
            if r is False:
                notes['impl_false'] += 1
            agree = set(codes) == want and isinstance(r, bool) and r == (len(want) == 0)
            if set(codes) != want:
                extra, missing = sorted(set(codes) - want), sorted(want - set(codes))
                res.violation('pred:codes:%s' % ('+'.join(['extra%d' % c for c in extra] + ['missing%d' % c for c in missing])),
                              '%s %s charset=%s exclusion=%s type_list=%r value=%r: reported %s, the definition implies %s' %
                              (mapfile, path, charset, exname, list(tl), v, codes, sorted(want)), replay)
            elif r is not (len(codes) == 0):
                res.violation('pred:result-vs-errors', '%s %s value=%r: result %r with codes %s' % (mapfile, path, v, r, codes), replay)
            elif not refdes_ok:
                res.violation('pred:refdes', '%s %s value=%r: an error carries a foreign reference designator' % (mapfile, path, v), replay)
        if model is not None:
            pos, two = idx[ci]
            if two:
                ms = [model[pos], model[pos + 1]]
                gs = 'crash' if got[0] == 'crash' else 'ok %s %s' % (u_(got[1]), ','.join(str(c) for c in got[2]))
                if gs not in ms:
                    nbroke += 1
                    if agree:
                        res.broke('correspondence:ElemValid.compValid', '%s %s vals=%r impl=%s model=%s' % (mapfile, path, v, gs, ms))
            else:
                gs = 'crash' if got[0] == 'crash' else '%s %s' % (u_(got[1]), ','.join(str(c) for c in got[2]))
                if gs != model[pos]:
                    nbroke += 1
                    if agree:
                        res.broke('correspondence:ElemValid.elemValid', '%s %s charset=%s tl=%r kind=%s value=%r impl=%s model=%s' %
                                  (mapfile, path, charset, list(tl), kind, v, gs, model[pos]))
        notes['ncase'] += 1
        if notes['ncase'] % 20011 == 11:
            res.sample({'map': mapfile, 'path': path, 'charset': charset, 'exclusion': exname, 'type_list': list(tl), 'kind': kind,
                        'value': v, 'impl': got[1:3], 'model': model[idx[ci][0]] if model else None, 'spec': sorted(want)})
    notes['disagreements_checked'] += nbroke
    del lines[:]
    del cases[:]


def ext_member_safe(ext, v, excluded, codesets):
    if ext in excluded:
        return True
    if ext not in codesets:
        return False      # the real side raises EngineError: reported as a crash finding
    return v in codesets[ext]


def wf_problem(d):
    if d.usage not in ('R', 'S', 'N'):
        return 'usage %r is none of R/S/N' % (d.usage,)
    if not isinstance(d.ty, str) or d.ty == '':
        return 'data element %s has no data type' % d.data_ele
    if d.mn < 0 or d.mx < d.mn:
        return 'data element %s: min_len %d max_len %d' % (d.data_ele, d.mn, d.mx)
    if any(not isinstance(c, str) for c in d.codes):
        return 'empty <code/> in the inline list'
    for tl in d.tl_variants:
        if tl and not any(t in KNOWN_TL for t in tl):
            return 'qualifier-selected format list %r contains no supported date/time format' % (list(tl),)
    return None


def seg_probe(res, real, cd, codesets):
    """segment_if.is_valid on a segment whose composite has one component too many"""
    s = cd.segnode
    n = len(cd.kids)
    vals = [good_value(d, codesets) for d in cd.kids] + ['X']
    text = s.id + '*' * (cd.idx + 1) + ':'.join(vals)
    try:
        seg = real.Segment(text, '~', '*', ':')
    except Exception as e:
        raise common.Infra('cannot build a Segment: %r' % (e,))
    errh = real.errh
    errh.reset()
    res.count()
    replay = {'map': cd.mapfile, 'path': cd.path, 'kind': 'segment', 'value': text, 'exclude': None, 'charset': 'E',
              'type_list': [], 'required': 'no exception; code 3 reported'}
    try:
        s.is_valid(seg, errh)
    except Exception as e:
        res.violation(crash_key(e), '%s %s: segment_if.is_valid(%r) with %d components for a %d-component composite: %s: %s' %
                      (cd.mapfile, cd.path, text, n + 1, n, type(e).__name__, e), replay)
        return
    if not any(t[0] == '3' for t in errh.err_ele):
        res.violation('pred:too-many-components-unreported', '%s %s: %r draws no code 3' % (cd.mapfile, cd.path, text), replay)


# ------------------------------------------------------------------------------------ replay

def replay(dct):
    r = dct['replay']
    real = Real()
    dataele = own_dataele()
    codesets = own_codes()
    param = real.params()
    param.set('exclude_external_codes', r.get('exclude'))
    m = real.load_map_file(r['map'], param)
    param.set('charset', r.get('charset', 'E'))
    hit = None
    for kind_, nd in walk_map(m, r['map'], dataele):
        if nd.path == r['path'] and ((kind_ == 'c') == (r.get('kind') in ('comp', 'segment'))):
            hit = (kind_, nd)
            break
    if hit is None:
        print('node %s not found in %s' % (r['path'], r['map']))
        return 2
    kind_, nd = hit
    if r.get('kind') == 'segment':
        res = common.Result('C15', 'replay')
        seg_probe(res, real, nd, codesets)
        print('segment probe: %s' % (res.violations[0][:2] if res.violations else 'no crash, code 3 reported',))
        return 1 if res.violations else 0
    if kind_ == 'c':
        got = real.comp(nd, r['value'])
    else:
        got = real.elem(nd, r.get('kind', 's'), r.get('value'), tuple(r.get('type_list') or ()))
    print('%s %s value=%r -> %r ; required %r' % (r['map'], r['path'], r.get('value'), got[:3], r.get('required')))
    req = r.get('required')
    if got[0] == 'ok' and isinstance(req, list) and len(req) == 2:
        return 0 if (got[1] == req[0] and sorted(set(got[2])) == req[1]) else 1
    return 1
