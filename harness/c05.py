"""
C05 - verdict, reported errors and acknowledgement always agree.

Theorems (lean/Pyx12Verif/Props/C05.lean) are about the Lean model of pyx12/error_handler.py (attach state machine,
counts, ack codes; Model/ErrTree.lean) and of the 997 / 999 visitors (Model/Ack.lean) *after* the proposed repairs
(`cfg.legacy = false`).

Tie / oracle (this file).  Documents: gendoc.Gen sets of every non-FA map, composed into 1-3 sets x 1-2 groups x
1-2 interchanges, 0-3 injected faults  ->  real pyx12.x12n_document.x12n_document(fd_997=recording sink) with a
recording subclass substituted for pyx12.error_handler.err_handler  ->
  (a) oracle on the real outputs, stated on the *source text* and the *sequence of error reports*:
      verdict <=> no error reported; the acknowledgement is addressed to the sender; it names every GS / ST of the
      source in order with their control numbers; AK5/IK5 accepted <=> no error reported while a segment of that set
      (ST..SE) was processed; AK9 code and totals = recount over the source; every reported segment / element error
      with a standard code is itemised under its set at the segment position / element position / value of the report;
  (c) correspondence: the captured call sequence is fed to the Lean model (op E5); tree summary (taken just before
      the visitor runs), swallowed-error count, error count and the acknowledgement segments are compared.
impl = real run, model = Lean driver, want = the statement evaluated on the source text and the reports.
Runs in which x12n_document raises are outside C05 (C07) except the classes listed for this property (D7).
"""
import io
import os
import random
import re
import traceback

from . import common

STD_SEG = ('1', '2', '3', '4', '5', '6', '7', '8')
STD_ELE_997 = ('1', '2', '3', '4', '5', '6', '7', '8', '9', '10')
STD_ELE_999 = STD_ELE_997 + ('12', '13', 'I10', 'I11', 'I12', 'I13', 'I6', 'I9')
STD_SEG_999 = STD_SEG + ('I4', 'I6', 'I7', 'I8', 'I9')
ENV = ('ISA', 'IEA', 'GS', 'GE', 'ST', 'SE')
FIX_DATE6, FIX_TIME4, FIX_DATE8, FIX_TIME6, FIX_GSCTL = '260926', '1234', '20260926', '123456', '123456789'

FAULTS = ['bad_code', 'too_long', 'missing_elem', 'missing_seg', 'unknown_seg', 'unknown_outside', 'dup_st', 'se_count',
          'ge_count', 'env_elem', 'too_many', 'trailing_sep', 'st03_bad', 'missing_se', 'sub_elem', 'ge_nonnum',
          'too_many_st', 'missing_ge', 'hl_num', 'lx_num', 'composite']


# ------------------------------------------------------------------------------------ documents

def pyx():
    try:
        import pyx12.error_handler
        import pyx12.params
        import pyx12.x12n_document
        import pyx12.error_997
        import pyx12.error_999
        return pyx12
    except (ImportError, AttributeError) as e:
        raise common.Infra('pyx12 entry point missing: %r' % (e,))


_entries = None


def entries():
    global _entries
    if _entries is None:
        from . import gendoc
        _entries = [m for m in gendoc.index_entries() if m['fic'] != 'FA']
    return _entries


def conv(seg, node):
    return {'id': seg.get_seg_id(), 'els': [[e.get_value() for e in c.elements] for c in seg.elements], 'node': node}


def gen_parts(entry, seed, p_opt, max_rep):
    """-> (isa, gs, [ST..SE], ge, iea) as segment dicts"""
    from . import gendoc
    g = gendoc.Gen(entry['map_file'], entry['icvn'], entry['vriic'], entry['fic'], seed=seed, p_opt=p_opt,
                   max_rep=max_rep, tspc=entry['tspc'])
    g.doc()
    segs = [conv(s, n) for s, n in g.segs]
    ids = [s['id'] for s in segs]
    a, b = ids.index('ST'), len(ids) - 1 - ids[::-1].index('SE')
    ge = next(x for x in segs[b + 1:] if x['id'] == 'GE')
    iea = next(x for x in segs[b + 1:] if x['id'] == 'IEA')
    return segs[0], segs[1], segs[a:b + 1], ge, iea


def to_int(v):
    try:
        return int(v)
    except (TypeError, ValueError):
        return 0


def clone(s):
    return {'id': s['id'], 'els': [list(c) for c in s['els']], 'node': s['node']}


def setv(seg, idx, val):
    while len(seg['els']) <= idx:
        seg['els'].append([''])
    seg['els'][idx] = [val]


def compose(rnd, entry_pool, shape, p_opt, max_rep, senders_differ=False):
    """shape = [[nsets, ...] per interchange]; all interchanges share the ISA version of entry_pool[0]"""
    doc = []
    isa_no = 0
    first_isa = None
    for groups in shape:
        isa_no += 1
        first = True
        gs_no = 0
        for nsets in groups:
            entry = rnd.choice(entry_pool)
            gs_no += 1
            for k in range(nsets):
                isa, gs, body, ge, iea = gen_parts(entry, rnd.randrange(1 << 30), p_opt, max_rep)
                if first:
                    isa = clone(isa if isa_no == 1 else first_isa)
                    if isa_no == 1:
                        first_isa = isa
                    setv(isa, 12, '%09d' % isa_no)
                    if senders_differ and isa_no > 1:
                        setv(isa, 5, ('SENDER%d' % isa_no).ljust(15))
                    doc.append(isa)
                    cur_iea = clone(iea)
                    setv(cur_iea, 0, str(len(groups)))
                    setv(cur_iea, 1, '%09d' % isa_no)
                    first = False
                if k == 0:
                    gs = clone(gs)
                    setv(gs, 5, str(gs_no))
                    doc.append(gs)
                    cur_ge = clone(ge)
                    setv(cur_ge, 0, str(nsets))
                    setv(cur_ge, 1, str(gs_no))
                body = [clone(s) for s in body]
                setv(body[0], 1, '%04d' % (k + 1))
                setv(body[-1], 1, '%04d' % (k + 1))
                doc.extend(body)
            doc.append(cur_ge)
        doc.append(cur_iea)
    return doc


def spans(doc):
    """own structural reading of the flat segment list: sets, groups, interchanges as index ranges (end inclusive;
    an unterminated range ends before the next opener / closer of an enclosing level, or at the end)"""
    sets, groups, isas = [], [], []
    cur_s = cur_g = cur_i = None
    for k, s in enumerate(doc):
        sid = s['id']
        if sid == 'ST':
            if cur_s is not None:
                sets.append((cur_s, k - 1))
            cur_s = k
        elif sid == 'SE':
            if cur_s is not None:
                sets.append((cur_s, k))
                cur_s = None
        elif sid in ('GS', 'GE', 'ISA', 'IEA'):
            if cur_s is not None:
                sets.append((cur_s, k - 1))
                cur_s = None
            if sid == 'GS':
                if cur_g is not None:
                    groups.append((cur_g, k - 1))
                cur_g = k
            elif sid == 'GE':
                if cur_g is not None:
                    groups.append((cur_g, k))
                    cur_g = None
            else:
                if cur_g is not None:
                    groups.append((cur_g, k - 1))
                    cur_g = None
                if sid == 'ISA':
                    if cur_i is not None:
                        isas.append((cur_i, k - 1))
                    cur_i = k
                elif cur_i is not None:
                    isas.append((cur_i, k))
                    cur_i = None
    n = len(doc) - 1
    if cur_s is not None:
        sets.append((cur_s, n))
    if cur_g is not None:
        groups.append((cur_g, n))
    if cur_i is not None:
        isas.append((cur_i, n))
    return sets, groups, isas


def simple_children(node):
    """[(element index, sub index or None, element node)] of a segment node"""
    out = []
    for i, c in enumerate(node.children):
        if c.is_composite():
            for j, sc in enumerate(c.children):
                out.append((i, j, sc))
        else:
            out.append((i, None, c))
    return out


def getv(seg, i, j):
    if i >= len(seg['els']):
        return ''
    c = seg['els'][i]
    if j is None:
        return c[0] if len(c) == 1 else None
    return c[j] if j < len(c) else ''


def putv(seg, i, j, val):
    while len(seg['els']) <= i:
        seg['els'].append([''])
    if j is None:
        seg['els'][i] = [val]
    else:
        while len(seg['els'][i]) <= j:
            seg['els'][i].append('')
        seg['els'][i][j] = val


def body_positions(doc):
    sets, _, _ = spans(doc)
    out = []
    for a, b in sets:
        out.extend(k for k in range(a + 1, b + 1) if doc[k]['id'] not in ENV and doc[k]['node'] is not None)
    return out


def dtype_of(node):
    try:
        return node.get_data_type(), node.get_min_length(), node.get_max_length()
    except Exception:
        try:
            de = node.root.data_elements.get_by_elem_num(node.data_ele)
            return de['data_type'], de['min_len'], de['max_len']
        except Exception:
            return None, None, None


def inject(rnd, doc, kind, special=None):
    """apply one fault in place; returns a short description or None when it does not apply"""
    pos = body_positions(doc)
    sets, groups, isas = spans(doc)
    ids = [s['id'] for s in doc]
    if kind in ('bad_code', 'too_long', 'missing_elem', 'sub_elem'):
        rnd.shuffle(pos)
        for k in pos[:40]:
            seg = doc[k]
            cands = []
            for i, j, el in simple_children(seg['node']):
                v = getv(seg, i, j)
                if not v:
                    continue
                dt, mn, mx = dtype_of(el)
                if kind == 'bad_code' and j is None and el.valid_codes:
                    cands.append((i, j, 'Z' * max(mn or 1, 1)))
                elif kind == 'sub_elem' and j is not None and (el.valid_codes or dt == 'AN'):
                    cands.append((i, j, 'Z' * ((mx or 3) + 2) if not el.valid_codes else 'Z' * max(mn or 1, 1)))
                elif kind == 'too_long' and dt in ('AN', 'ID') and mx and not el.valid_codes:
                    base = (special or 'A')
                    cands.append((i, j, (base + 'A' * (mx + 3))[:mx + 3] if special is None else base + 'A' * (mx + 3)))
                elif kind == 'missing_elem' and el.usage == 'R' and (j is None):
                    cands.append((i, j, ''))
            if cands:
                i, j, val = rnd.choice(cands)
                putv(seg, i, j, val)
                return '%s@%s%02d' % (kind, seg['id'], i + 1)
        return None
    if kind == 'composite':
        # element errors reported on a COMPOSITE node (err_ele.ele_ref_num is then the composite's id, e.g. C022, not a data
        # element number): more components than the composite has children (code 3), a required composite left empty
        # (code 2), a not-used composite filled (code 5)
        rnd.shuffle(pos)
        for k in pos[:80]:
            seg = doc[k]
            cands = []
            for i, cn in enumerate(seg['node'].children):
                if not cn.is_composite():
                    continue
                present = i < len(seg['els']) and any(seg['els'][i])
                if present:
                    cands.append((i, 'many'))
                    cands.append((i, 'many'))
                    if cn.usage == 'R' and i > 0:
                        cands.append((i, 'empty'))
                elif cn.usage == 'N':
                    cands.append((i, 'fill'))
            if cands:
                i, how = rnd.choice(cands)
                cn = seg['node'].children[i]
                if how == 'many':
                    putv(seg, i, len(cn.children), special or 'X')
                elif how == 'empty':
                    seg['els'][i] = ['']
                else:
                    putv(seg, i, 0, special or 'X')
                return 'composite:%s@%s%02d' % (how, seg['id'], i + 1)
        return None
    if kind == 'missing_seg':
        cands = [k for k in pos if doc[k]['node'].usage == 'R' and not doc[k]['node'].is_first_seg_in_loop()]
        if not cands:
            cands = [k for k in pos if doc[k]['node'].usage == 'R']
        if not cands:
            return None
        k = rnd.choice(cands)
        sid = doc[k]['id']
        del doc[k]
        return 'missing_seg@' + sid
    if kind == 'unknown_seg':
        if not sets:
            return None
        a, b = rnd.choice(sets)
        k = rnd.randint(a + 1, max(a + 1, b))
        doc.insert(k, {'id': special or 'ZZZ', 'els': [['1']], 'node': None})
        return 'unknown_seg'
    if kind == 'unknown_outside':
        where = rnd.choice(['gs-st', 'se-ge', 'ge-iea', 'se-st'])
        cand = []
        for k in range(1, len(doc)):
            p, q = ids[k - 1], ids[k]
            if (where == 'gs-st' and p == 'GS' and q == 'ST') or (where == 'se-ge' and p == 'SE' and q == 'GE') or \
               (where == 'ge-iea' and p == 'GE' and q == 'IEA') or (where == 'se-st' and p == 'SE' and q == 'ST'):
                cand.append(k)
        if not cand:
            return None
        doc.insert(rnd.choice(cand), {'id': 'ZZZ', 'els': [['1']], 'node': None})
        return 'unknown_outside:' + where
    if kind in ('hl_num', 'lx_num'):
        # a well-typed but wrong HL01 / HL02 / LX01: the reader's numbering reports (HL1, HL2, LX) have no AK304 code of their own
        sid = 'HL' if kind == 'hl_num' else 'LX'
        cands = [k for k in range(len(doc)) if ids[k] == sid]
        if not cands:
            return None
        k = rnd.choice(cands)
        i = 1 if (sid == 'HL' and rnd.random() < 0.4 and getv(doc[k], 1, None)) else 0
        v = getv(doc[k], i, None)
        putv(doc[k], i, None, str(to_int(v) + rnd.choice((1, 2, 7))) if v else '9')
        return '%s@%s%02d' % (kind, sid, i + 1)
    if kind == 'set_overload':
        # one set collecting as many DISTINCT set-level codes as the reader and the maps allow: repeated control number (23),
        # SE02 differing from ST02 (3) and too short (7), SE01 not numeric (6) and not the count (4), a body error (5)
        for (a, b), (c, d) in zip(sets, sets[1:]):
            if ids[a] == 'ST' and ids[c] == 'ST' and ids[d] == 'SE' and not any(x in ids[b:c] for x in ('GS', 'GE')):
                v = getv(doc[a], 1, None)
                putv(doc[c], 1, None, v)
                putv(doc[d], 1, None, '02')
                putv(doc[d], 0, None, 'X')
                doc.insert(d, {'id': 'ZZZ', 'els': [['1']], 'node': None})
                return 'set_overload'
        return None
    if kind == 'dup_st':
        for (a, b), (c, d) in zip(sets, sets[1:]):
            if ids[a] == 'ST' and ids[c] == 'ST' and not any(x in ids[b:c] for x in ('GS', 'GE')):
                v = getv(doc[a], 1, None)
                putv(doc[c], 1, None, v)
                if ids[d] == 'SE':
                    putv(doc[d], 1, None, v)
                return 'dup_st'
        return None
    if kind == 'se_count':
        c = [k for k in range(len(doc)) if ids[k] == 'SE']
        if not c:
            return None
        k = rnd.choice(c)
        putv(doc[k], 0, None, str(to_int(getv(doc[k], 0, None)) + rnd.choice([1, 2, -1])))
        return 'se_count'
    if kind in ('ge_count', 'ge_nonnum'):
        c = [k for k in range(len(doc)) if ids[k] == 'GE']
        if not c:
            return None
        k = rnd.choice(c)
        putv(doc[k], 0, None, 'X' if kind == 'ge_nonnum' else str(to_int(getv(doc[k], 0, None)) + rnd.choice([1, 3])))
        return kind
    if kind == 'env_elem':
        which = rnd.choice(['st02', 'gs04', 'gs05', 'gs06', 'se02only', 'st01'])
        if which == 'st02' and sets:
            a, b = rnd.choice(sets)
            if ids[a] == 'ST' and ids[b] == 'SE':
                putv(doc[a], 1, None, '12')
                putv(doc[b], 1, None, '12')
                return 'env_elem:st02-short'
        if which == 'st01' and sets:
            a, b = rnd.choice(sets)
            if ids[a] == 'ST':
                putv(doc[a], 0, None, '000')
                return 'env_elem:st01-code'
        if which == 'se02only' and sets:
            a, b = rnd.choice(sets)
            if ids[b] == 'SE':
                putv(doc[b], 1, None, '1234567890')
                return 'env_elem:se02-long'
        c = [k for k in range(len(doc)) if ids[k] == 'GS']
        if not c:
            return None
        k = rnd.choice(c)
        if which == 'gs05':
            putv(doc[k], 4, None, '2561')
            return 'env_elem:gs05-time'
        if which == 'gs06':
            v = '1234567890'
            putv(doc[k], 5, None, v)
            for m in range(k + 1, len(doc)):
                if ids[m] == 'GE':
                    putv(doc[m], 1, None, v)
                    break
            return 'env_elem:gs06-long'
        putv(doc[k], 3, None, '20201301')
        return 'env_elem:gs04-date'
    if kind == 'too_many':
        if not pos:
            return None
        k = rnd.choice(pos)
        seg = doc[k]
        n = len(seg['node'].children)
        while len(seg['els']) < n:
            seg['els'].append([''])
        seg['els'].append([special or 'EXTRA'])
        return 'too_many@' + seg['id']
    if kind == 'too_many_st':
        c = [k for k in range(len(doc)) if ids[k] in ('ST', 'SE', 'GE', 'GS')]
        if not c:
            return None
        k = rnd.choice(c)
        n = {'ST': 3 if (doc[k]['node'] is not None and len(doc[k]['node'].children) >= 3) else 2, 'SE': 2, 'GE': 2, 'GS': 8}[ids[k]]
        while len(doc[k]['els']) < n:
            doc[k]['els'].append([''])
        doc[k]['els'].append(['EXTRA'])
        return 'too_many@' + ids[k]
    if kind == 'trailing_sep':
        c = pos + [k for k in range(len(doc)) if ids[k] in ('ST', 'SE', 'GE')]
        if not c:
            return None
        k = rnd.choice(c)
        doc[k]['els'].append([''])
        doc[k]['keep_trailing'] = True
        return 'trailing_sep@' + ids[k]
    if kind == 'st03_bad':
        c = [k for k in range(len(doc)) if ids[k] == 'ST' and len(doc[k]['els']) >= 3 and getv(doc[k], 2, None)]
        if not c:
            return None
        putv(doc[rnd.choice(c)], 2, None, 'ZZZZZZ')
        return 'st03_bad'
    if kind in ('missing_se', 'missing_ge'):
        c = [k for k in range(len(doc)) if ids[k] == ('SE' if kind == 'missing_se' else 'GE')]
        if not c:
            return None
        del doc[rnd.choice(c)]
        return kind
    return None


def render(doc, seg_term='~', ele_term='*', sub_term=':', rep='^', eol='\n'):
    out = []
    for s in doc:
        els = [list(c) for c in s['els']]
        if s['id'] == 'ISA':
            els = [[c[0]] for c in els]
            while len(els) < 16:
                els.append([''])
            els[15] = [sub_term]
            if els[11][0] == '00501':
                els[10] = [rep]
            out.append('ISA' + ele_term + ele_term.join(c[0] for c in els) + seg_term + eol)
            continue
        strs = []
        for c in els:
            c2 = list(c)
            while len(c2) > 1 and c2[-1] == '':
                c2.pop()
            strs.append(sub_term.join(c2))
        if not s.get('keep_trailing'):
            while len(strs) > 1 and strs[-1] == '':
                strs.pop()
        out.append(s['id'] + ele_term + ele_term.join(strs) + seg_term + eol)
    return ''.join(out)


def gen_case(seed, c, special_mode=False):
    """-> (text, meta).  meta: map files, shape, faults"""
    rnd = random.Random(seed * 1000003 + c)
    ents = entries()
    icvn = rnd.choice(['00401', '00401', '00501', '00501'])
    pool = [e for e in ents if e['icvn'] == icvn]
    if c % 19 == 0:
        pool = [e for e in pool if e['map_file'].startswith('835')] or pool
    r = rnd.random()
    if r < 0.45:
        shape = [[1]]
    elif r < 0.65:
        shape = [[rnd.randint(2, 3)]]
    elif r < 0.80:
        shape = [[rnd.randint(1, 2), rnd.randint(1, 2)]]
    elif r < 0.92:
        shape = [[rnd.randint(1, 2)], [rnd.randint(1, 2)]]
    else:
        shape = [[1, 2], [2]]
    one_map = rnd.random() < 0.7
    epool = [rnd.choice(pool)] if one_map else pool
    senders_differ = len(shape) > 1 and rnd.random() < 0.25
    overload = (c % 17 == 3)
    if overload:
        shape = [[rnd.randint(2, 3)]] if len(shape) == 1 else [[2], [rnd.randint(1, 2)]]
    doc = compose(rnd, epool, shape, rnd.choice([0.0, 0.2, 0.5]), rnd.choice([1, 2]), senders_differ)
    nf = rnd.choice([0, 0, 1, 1, 1, 2, 2, 3])
    faults = []
    if overload:
        d = inject(rnd, doc, 'set_overload')
        if d:
            faults.append(d)
    for _ in range(nf):
        kind = rnd.choice(FAULTS)
        d = inject(rnd, doc, kind)
        if d:
            faults.append(d)
    if c % 13 == 4 or rnd.random() < 0.05:
        # the same fault at the same place in consecutive sets: the first ST..SE block (with whatever was injected into it) is
        # repeated right behind itself under fresh control numbers; the acknowledgement must itemise it under each set
        ids = [x['id'] for x in doc]
        if 'ST' in ids and 'SE' in ids[ids.index('ST'):]:
            a_ = ids.index('ST')
            b_ = a_ + ids[a_:].index('SE')
            if not any(x in ('ST', 'GS', 'GE', 'ISA', 'IEA') for x in ids[a_ + 1:b_]):
                head = doc[:b_ + 1]
                d = inject(rnd, head, rnd.choice(('bad_code', 'too_long', 'composite', 'bad_code')))
                if d and len(head) == b_ + 1:
                    faults.append(d)
                ncopy = rnd.choice((1, 1, 2))
                blocks = []
                for j in range(ncopy):
                    blk = [clone(x) for x in doc[a_:b_ + 1]]
                    setv(blk[0], 1, '%04d' % (9001 + j))
                    setv(blk[-1], 1, '%04d' % (9001 + j))
                    blocks.extend(blk)
                doc[b_ + 1:b_ + 1] = blocks
                for x in doc[b_ + 1 + len(blocks):]:
                    if x['id'] == 'GE':
                        n0 = to_int(getv(x, 0, None))
                        if n0 is not None:
                            setv(x, 0, str(n0 + ncopy))
                        break
                faults.append('same-fault-in-%d-consecutive-sets' % (ncopy + 1))
    if rnd.random() < 0.08:
        for s in doc:
            if s['id'] == 'ISA':
                setv(s, 13, '1')
        faults.append('ta1')
    if rnd.random() < 0.08:
        # group control numbers padded with a blank (header and trailer alike: the envelope stays consistent)
        pad = rnd.choice((' ', '  '))
        cur = None
        for s in doc:
            if s['id'] == 'GS':
                cur = (getv(s, 5, None) or '') + pad
                setv(s, 5, cur)
            elif s['id'] == 'GE' and cur is not None:
                setv(s, 1, cur)
                cur = None
        faults.append('padded-gs06')
    if rnd.random() < 0.08 or c % 23 == 5:
        # set control numbers of unusual length or content (header and trailer alike: the envelope stays consistent); the
        # acknowledgement has to name each set by exactly this value.  Over-length ones share their first nine characters.
        style = rnd.choice(('long', 'long', 'blank', 'short'))
        k = 0
        cur = None
        for s in doc:
            if s['id'] == 'ST':
                k += 1
                if style == 'long':
                    cur = '00000000%d%d' % (1 + k // 10, k % 10) + rnd.choice(('', '7', '42'))
                elif style == 'blank':
                    cur = '%04d ' % k
                else:
                    cur = '%d' % k
                setv(s, 1, cur)
            elif s['id'] == 'SE' and cur is not None:
                setv(s, 1, cur)
                cur = None
        faults.append('st02-' + style)
    delims = ('~', '*', ':', '^')
    text = render(doc, *delims)
    meta = {'maps': sorted(set(e['map_file'] for e in epool))[:3], 'icvn': icvn, 'shape': shape, 'faults': faults,
            'senders_differ': senders_differ, 'delims': delims}
    return text, doc, meta


# ------------------------------------------------------------------------------------ real run

def own_split(text):
    """own tokenizer: (seg_term, ele_term, sub_term, [(id, [element strings])])"""
    se, el, su = text[105], text[3], text[104]
    out = []
    for piece in text.split(se)[:-1]:
        piece = piece.lstrip('\r\n')
        if piece == '':
            continue
        parts = piece.split(el)
        out.append((parts[0], parts[1:]))
    return se, el, su, out


def q(s):
    return '%d:%s' % (len(s), common.esc(s))


def qo(s):
    return '-' if s is None else q(s)


def lst(items):
    return '[' + ','.join(items) + ']'


def ele_s(e):
    return 'E(%d;%s;%s;%s)' % (e.ele_pos, '-' if e.subele_pos is None else str(e.subele_pos), qo(e.ele_ref_num),
                               lst(q(x[0]) + '/' + qo(x[2]) for x in e.errors))


def seg_s(s):
    return 'S(%s;%d;%s;%s;%s)' % (q(s.seg_id), s.seg_count, qo(s.ls_id), lst(q(x[0]) + '/' + qo(x[2]) for x in s.errors),
                                  lst(ele_s(e) for e in s.elements))


def st_s(s):
    return 'T(%s;%s;%s;%s;%s;%s;%s;%s)' % (qo(s.trn_set_id), qo(s.trn_set_control_num), qo(s.vriic), q(s.ack_code),
                                           '1' if s.is_closed() else '0', lst(q(x[0]) for x in s.errors),
                                           lst(ele_s(e) for e in s.elements), lst(seg_s(c) for c in s.children))


def gs_s(g):
    d = g.seg_data
    return 'G(%s;%s;%s;%s;%s;%s;%s;%s;%d;%d;%s;%s;%s;%s)' % (
        qo(g.fic), qo(d.get_value('GS02')), qo(d.get_value('GS03')), qo(d.get_value('GS06')), qo(d.get_value('GS07')),
        qo(g.vriic), qo(g.gs_control_num), qo(g.ack_code), g.st_count_orig, g.st_count_recv,
        '1' if g.is_closed() else '0', lst(q(x[0]) for x in g.errors), lst(ele_s(e) for e in g.elements),
        lst(st_s(c) for c in g.children))


def isa_s(a):
    d = a.seg_data
    return 'I(%s;%s;%s;%s;%s;%s;%s;%s;%s;%s;%s;%s;%s;%s;%s)' % (
        qo(d.get_value('ISA05')), qo(d.get_value('ISA06')), qo(d.get_value('ISA07')), qo(d.get_value('ISA08')),
        qo(a.orig_date), qo(a.orig_time), qo(d.get_value('ISA11')), qo(d.get_value('ISA12')), qo(a.isa_trn_set_id),
        qo(a.ta1_req), qo(d.get_value('ISA15')), '1' if a.is_closed() else '0', lst(q(x[0]) for x in a.errors),
        lst(ele_s(e) for e in a.elements), lst(gs_s(c) for c in a.children))


def tree_s(errh):
    return lst(isa_s(a) for a in errh.children)


def opt(v):
    return '-' if v is None else '+' + v


class FakeTime(object):
    @staticmethod
    def strftime(fmt, *a):
        return {'%y%m%d': FIX_DATE6, '%H%M': FIX_TIME4, '%Y%m%d': FIX_DATE8, '%H%M%S': FIX_TIME6}.get(fmt, 'X')


class FakeRandom(object):
    @staticmethod
    def randint(a, b):
        return int(FIX_GSCTL)


class Sink(object):
    def __init__(self):
        self.writes = []

    def write(self, s):
        self.writes.append(s)


def site_of(exc):
    """(exception name, innermost pyx12 file, function)"""
    tb = traceback.extract_tb(exc.__traceback__)
    fr = None
    for f in tb:
        if os.sep + 'pyx12' + os.sep in f.filename:
            fr = f
    if fr is None:
        fr = tb[-1]
    fn = fr.name
    if fn.startswith('_error_9'):
        fn = fn.split('__', 1)[-1]
        fn = '__' + fn
    return type(exc).__name__, os.path.basename(fr.filename), fn


def py_int(s):
    if s is None:
        return 'absent'
    try:
        return 'n%d' % int(s)
    except ValueError:
        return 'bad'


def run_real(text, with_ack=True):
    """-> dict: verdict | exc, events (model fields), reports [(level, code, value, refdes, k, lost)], snapshot,
    writes, ack_exc, kind"""
    p = pyx()
    try:
        base = p.error_handler.err_handler
        entry = p.x12n_document.x12n_document
    except AttributeError as e:
        raise common.Infra('pyx12 entry point missing: %r' % (e,))
    fields = []
    reports = []
    rec = {'snapshot': None, 'ack_exc': None, 'errh': None, 'nerr_at_accept': None}
    counter = [0]

    def sv(seg, r):
        return seg.get_value(r)

    class Rec(base):
        def __init__(self):
            base.__init__(self)
            rec['errh'] = self

        def add_isa_loop(self, seg, src):
            fields.append('ai')
            fields.extend(opt(sv(seg, 'ISA%02d' % i)) for i in range(5, 16))
            return base.add_isa_loop(self, seg, src)

        def add_gs_loop(self, seg, src):
            fields.append('ag')
            fields.extend(opt(sv(seg, 'GS%02d' % i)) for i in (1, 2, 3, 6, 7, 8))
            fields.append(opt(src.get_gs_id()))
            return base.add_gs_loop(self, seg, src)

        def add_st_loop(self, seg, src):
            fields.extend(['as', opt(sv(seg, 'ST01')), opt(sv(seg, 'ST03')), opt(src.get_st_id())])
            return base.add_st_loop(self, seg, src)

        def add_seg(self, map_node, seg, seg_count, cur_line, ls_id):
            fields.extend(['sg', seg.get_seg_id(), str(seg_count), opt(ls_id)])
            return base.add_seg(self, map_node, seg, seg_count, cur_line, ls_id)

        def add_ele(self, map_node):
            r = base.add_ele(self, map_node)
            e = self.cur_ele_node
            fields.extend(['el', str(e.ele_pos), '-' if e.subele_pos is None else '+%d' % e.subele_pos, opt(e.ele_ref_num)])
            return r

        def isa_error(self, c, s):
            fields.extend(['ie', c])
            reports.append(('isa', c, None, None, counter[0], False))
            return base.isa_error(self, c, s)

        def gs_error(self, c, s):
            fields.extend(['ge', c])
            reports.append(('gs', c, None, None, counter[0], False))
            return base.gs_error(self, c, s)

        def st_error(self, c, s):
            fields.extend(['se', c])
            reports.append(('st', c, None, None, counter[0], False))
            return base.st_error(self, c, s)

        def seg_error(self, c, s, v=None, src_line=None):
            fields.extend(['sr', c, opt(v)])
            node = self.cur_seg_node
            before = len(node.errors) if node is not None and getattr(node, 'id', None) == 'SEG' else None
            r = base.seg_error(self, c, s, v, src_line)
            ok = before is not None and self.cur_seg_node is node and len(node.errors) == before + 1 and self.seg_node_added
            reports.append(('seg', c, v, None, counter[0], not ok))
            return r

        def ele_error(self, c, s, v, refdes=None):
            fields.extend(['er', c, s, opt(v)])
            reports.append(('ele', c, v, refdes, counter[0], False))
            return base.ele_error(self, c, s, v, refdes)

        def close_isa_loop(self, node, seg, src):
            fields.append('ci')
            return base.close_isa_loop(self, node, seg, src)

        def close_gs_loop(self, node, seg, src):
            fields.extend(['cg', py_int(seg.get_value('GE01')) if seg is not None else 'absent', str(src.st_count)])
            return base.close_gs_loop(self, node, seg, src)

        def close_st_loop(self, node, seg, src):
            fields.append('cs')
            return base.close_st_loop(self, node, seg, src)

        def accept(self, visitor):
            rec['snapshot'] = tree_s(self)
            rec['count'] = self.get_error_count()
            rec['kind'] = '997' if type(visitor).__name__ == 'error_997_visitor' else '999'
            try:
                return base.accept(self, visitor)
            except Exception as e:
                rec['ack_exc'] = site_of(e)
                raise

    def callback(seg, src, node, valid):
        counter[0] += 1

    sink = Sink() if with_ack else None
    saved = []
    for mod, name, fake in ((p.error_997, 'time', FakeTime), (p.error_999, 'time', FakeTime), (p.error_999, 'random', FakeRandom)):
        if hasattr(mod, name):
            saved.append((mod, name, getattr(mod, name)))
            setattr(mod, name, fake)
    p.error_handler.err_handler = Rec
    out = {'exc': None, 'verdict': None}
    try:
        try:
            out['verdict'] = entry(p.params.params(), io.StringIO(text), sink, None, None, None, None, callback)
        except Exception as e:
            out['exc'] = site_of(e)
            out['exc_text'] = '%s: %s' % (type(e).__name__, e)
    finally:
        p.error_handler.err_handler = base
        for mod, name, val in saved:
            setattr(mod, name, val)
    errh = rec['errh']
    if rec['snapshot'] is None and errh is not None and out['exc'] is None:
        rec['snapshot'] = tree_s(errh)
        rec['count'] = errh.get_error_count()
    out.update(fields=fields, reports=reports, snapshot=rec['snapshot'], count=rec.get('count'), kind=rec.get('kind'),
               ack_exc=rec['ack_exc'], writes=(sink.writes if sink else []), nsegs=counter[0])
    return out


def model_line(real, legacy=False):
    kind = real.get('kind') or 'none'
    return common.line('E5', 1 if legacy else 0, kind, FIX_DATE6, FIX_TIME4, FIX_DATE8, FIX_TIME6, FIX_GSCTL, *real['fields'])


def canon_lines(lines):
    """sort maximal runs of AK3/IK3 lines that differ only in their fourth element (`list(set(...))` order) and mask
    the TA1 code when several are possible"""
    out = []
    i = 0
    while i < len(lines):
        l = lines[i]
        if l[:4] in ('AK3*', 'IK3*'):
            key = l.split('*')[:4]
            j = i
            while j < len(lines) and lines[j][:4] == l[:4] and lines[j].split('*')[:4] == key:
                j += 1
            out.extend(sorted(lines[i:j]))
            i = j
        else:
            out.append(l)
            i += 1
    return out


def real_lines(real):
    return [w[:-1] if w.endswith('\n') else w for w in real['writes']]


def mask_ta105(l):
    f = l.split('*')
    return '*'.join(f[:5] + ['#~']) if f[0] == 'TA1' and len(f) == 6 and f[4] == 'R' else l


def mask_gs08(lines):
    return ['*'.join(l.split('*')[:8] + ['#~']) if l.startswith('GS*') else l for l in lines]


def compare_model(real, mout, mask=True):
    """-> list of (name, detail) disagreements between the real run and the model's answer line"""
    f = mout.split('\t')
    bad = []
    if real['exc'] is not None and real['exc'][1] != 'error_handler.py':
        return bad
    if real['exc'] is not None:
        if not f[0].startswith('crash:'):
            bad.append(('ErrTree.run', 'real raised %r, model: %s' % (real['exc'], f[0])))
        else:
            exp = '%s:%s' % (real['exc'][0], real['exc'][2])
            if exp != f[0][6:]:
                bad.append(('ErrTree.run', 'real raised %r, model: %s' % (real['exc'], f[0])))
        return bad
    if f[0] != 'ok':
        return [('ErrTree.run', 'model crashed (%s), real completed' % f[0])]
    if f[1] != real['snapshot']:
        a, b = f[1], real['snapshot']
        k = next((i for i in range(min(len(a), len(b))) if a[i] != b[i]), min(len(a), len(b)))
        bad.append(('ErrTree.tree', 'first difference at %d: model …%s… real …%s…' % (k, a[max(0, k - 60):k + 60], b[max(0, k - 60):k + 60])))
    lost = sum(1 for r in real['reports'] if r[5])
    if int(f[2]) != lost:
        bad.append(('ErrTree.lost', 'model %s swallowed, real %d' % (f[2], lost)))
    if int(f[3]) != real['count']:
        bad.append(('ErrTree.errorCount', 'model %s real %s' % (f[3], real['count'])))
    if real.get('kind'):
        mcrash = f[4]
        rcrash = '-' if real['ack_exc'] is None else '%s:%s' % (real['ack_exc'][0], real['ack_exc'][2])
        if (mcrash == '-') != (rcrash == '-') or (mcrash != '-' and rcrash.split(':')[0] not in mcrash.split(':')[0].split('|')):
            bad.append(('Ack.crash', 'model %s real %s' % (mcrash, rcrash)))
        # exact comparison: since the repair the AK3/IK3 lines of one segment and TA105 of the 999 are written in sorted order,
        # which is what the model writes
        mlines = [common.unesc(x) for x in f[5:]]
        rlines = list(real_lines(real))
        if mask:
            mlines, rlines = mask_gs08(mlines), mask_gs08(rlines)
        if mlines != rlines:
            k = next((i for i in range(min(len(mlines), len(rlines))) if mlines[i] != rlines[i]), min(len(mlines), len(rlines)))
            bad.append(('Ack.ack%s' % real['kind'], 'line %d: model %r real %r (model %d lines, real %d)' % (
                k, mlines[k] if k < len(mlines) else None, rlines[k] if k < len(rlines) else None, len(mlines), len(rlines))))
    elif f[4] != 'none':
        bad.append(('Ack.kind', 'model produced an ack, real none'))
    return bad


# ------------------------------------------------------------------------------------ oracle on the real outputs

def id_spans(ids):
    """like spans() but an unterminated set / group extends to the segment that ended it"""
    sets, groups = [], []
    cur_s = cur_g = None
    for k, sid in enumerate(ids):
        if sid == 'ST':
            if cur_s is not None:
                sets.append((cur_s, k, False))
            cur_s = k
        elif sid == 'SE':
            if cur_s is not None:
                sets.append((cur_s, k, True))
                cur_s = None
        elif sid in ('GS', 'GE', 'ISA', 'IEA'):
            if cur_s is not None:
                sets.append((cur_s, k, False))
                cur_s = None
            if sid == 'GE':
                if cur_g is not None:
                    groups.append((cur_g, k, True))
                    cur_g = None
            else:
                if cur_g is not None:
                    groups.append((cur_g, k, False))
                    cur_g = None
                if sid == 'GS':
                    cur_g = k
    n = len(ids)
    if cur_s is not None:
        sets.append((cur_s, n, False))
    if cur_g is not None:
        groups.append((cur_g, n, False))
    return sets, groups


def parse_ack(real):
    """[(id, [element strings])] of what was written (own split on the ack's fixed delimiters)"""
    text = ''.join(real['writes'])
    out = []
    for piece in text.split('~'):
        piece = piece.lstrip('\r\n')
        if piece == '':
            continue
        parts = piece.split('*')
        out.append((parts[0], parts[1:]))
    return out


def el(els, i):
    return els[i] if i < len(els) else ''


def refdes_pos(refdes):
    if refdes is None:
        return None
    if isinstance(refdes, int):
        return (refdes, None)
    m = re.search(r'(\d{2})(?:-(\d+))?$', str(refdes))
    if not m:
        return None
    return (int(m.group(1)), int(m.group(2)) if m.group(2) else None)


def seg_level(r):
    """an element error raised by the segment-level checks (too many elements, syntax notes): refdes without segment id"""
    return r[0] == 'ele' and (isinstance(r[3], int) or re.fullmatch(r'\d{2}', str(r[3])) is not None)


def judge(text, real):
    """-> [(key, what)] violations of the C05 statement on the real outputs"""
    viol = []
    if real['exc'] is not None:
        return viol
    se, el_t, su, src = own_split(text)
    ids = [s[0] for s in src]
    reports = real['reports']
    nseg = len(src)
    # ---- verdict
    if real['verdict'] is True and reports:
        if all(r[5] for r in reports):
            viol.append(('pred:verdict-true-with-swallowed-segment-error',
                         'verdict True although %d segment error(s) were reported and dropped (no set open)' % len(reports)))
        else:
            viol.append(('pred:verdict-true-with-error-reported', 'verdict True, reports %r' % (reports[:3],)))
    if real['verdict'] is False and not reports:
        viol.append(('pred:verdict-false-without-error-report', 'verdict False and no error was reported'))
    kind = real.get('kind')
    if not kind:
        return viol
    if real['ack_exc'] is not None:
        viol.append(('crash:%s:%s:%s' % real['ack_exc'], 'acknowledgement visitor raised; output stops after %d segment(s)' % len(real['writes'])))
        return viol
    ack = parse_ack(real)
    three, four, five = ('AK3', 'AK4', 'AK5') if kind == '997' else ('IK3', 'IK4', 'IK5')
    std_seg = STD_SEG if kind == '997' else STD_SEG_999
    std_ele = STD_ELE_997 if kind == '997' else STD_ELE_999
    # ---- addressed to the sender
    aisa = next((s for s in ack if s[0] == 'ISA'), None)
    ags = next((s for s in ack if s[0] == 'GS'), None)
    src_isas = [s for s in src if s[0] == 'ISA']
    src_gss = [s for s in src if s[0] == 'GS' and len(s[1]) >= 8]
    if aisa is None or ags is None:
        viol.append(('pred:ack-without-envelope', 'no ISA/GS in the acknowledgement'))
    else:
        want = [(el(s[1], 6), el(s[1], 7), el(s[1], 4), el(s[1], 5)) for s in src_isas]
        got = (el(aisa[1], 4), el(aisa[1], 5), el(aisa[1], 6), el(aisa[1], 7))
        if any(w != got for w in want):
            if len(set(want)) > 1:
                viol.append(('pred:ack-one-interchange-for-several-senders',
                             'source has %d interchanges with different sender/receiver; one acknowledgement interchange addressed %r' % (len(want), got)))
            else:
                viol.append(('pred:ack-not-addressed-to-sender', 'ISA05-08 of the ack %r, source ISA07,08,05,06 %r' % (got, want[0])))
        wantg = [(el(s[1], 2).rstrip(), el(s[1], 1).rstrip()) for s in src_gss]
        gotg = (el(ags[1], 1), el(ags[1], 2))
        if any(w != gotg for w in wantg):
            if len(set(wantg)) > 1:
                viol.append(('pred:ack-one-group-for-several-senders', 'GS02/03 of the ack %r, source groups %r' % (gotg, sorted(set(wantg)))))
            else:
                viol.append(('pred:ack-group-not-addressed-to-sender', 'GS02/03 of the ack %r, source GS03/02 %r' % (gotg, wantg[:1])))
    # ---- names every group and set in order
    want_names = []
    for s in src:
        if s[0] == 'GS':
            want_names.append(('G', el(s[1], 0), el(s[1], 5)))
        elif s[0] == 'ST':
            want_names.append(('S', el(s[1], 0), el(s[1], 1).strip()))
    got_names = []
    for s in ack:
        if s[0] == 'AK1':
            got_names.append(('G', el(s[1], 0), el(s[1], 1)))
        elif s[0] == 'AK2':
            got_names.append(('S', el(s[1], 0), el(s[1], 1)))
    names_ok = want_names == got_names
    sets0, groups0 = id_spans(ids)
    if not names_ok and (any(not c for _, _, c in sets0) or any(not c for _, _, c in groups0)):
        viol.append(('pred:ack-names-differ-after-missing-trailer',
                     'a set or group of the source has no trailer; source GS/ST sequence %r, acknowledged %r' % (want_names[:8], got_names[:8])))
        return viol
    if not names_ok:
        it = iter(want_names)
        if all(any(w == g for w in it) for g in got_names) and all(w[0] == 'S' for w in want_names if w not in got_names):
            viol.append(('pred:ack-omits-a-set', 'source GS/ST sequence %r, acknowledged %r (a set whose ST is not recognised is not acknowledged)' % (want_names[:8], got_names[:8])))
            return viol
        viol.append(('pred:ack-names-differ-from-source', 'source GS/ST sequence %r, acknowledged %r' % (want_names[:8], got_names[:8])))
        return viol
    # ---- blocks of the acknowledgement
    gblocks, sblocks = [], []
    cur_g = cur_s = None
    for i, s in enumerate(ack):
        if s[0] == 'AK1':
            cur_g = {'ak1': s, 'sets': [], 'ak9': None}
            gblocks.append(cur_g)
        elif s[0] == 'AK2' and cur_g is not None:
            cur_s = {'ak2': s, 'lines': [], 'ak5': None}
            cur_g['sets'].append(cur_s)
            sblocks.append(cur_s)
        elif s[0] in (three, four) and cur_s is not None:
            cur_s['lines'].append(s)
        elif s[0] == five and cur_s is not None:
            cur_s['ak5'] = s
            cur_s = None
        elif s[0] == 'AK9' and cur_g is not None:
            cur_g['ak9'] = s
            cur_g = None
    sets, groups = id_spans(ids)

    def inside(a, b, closed, levels_at_end):
        out = [r for r in reports if a <= r[4] <= b]
        if not closed and b >= nseg:
            out += [r for r in reports if r[4] >= nseg and r[0] in levels_at_end]
        return out
    # ---- AK5 / IK5
    set_want = []
    set_flagged = set()
    for i, (a, b, closed) in enumerate(sets):
        blk = sblocks[i] if i < len(sblocks) else None
        ins = inside(a, b, closed, ('st',))
        want_acc = not ins
        set_want.append(want_acc)
        if blk is None or blk['ak5'] is None:
            viol.append(('pred:set-without-ak5', 'set %d has no %s' % (i + 1, five)))
            continue
        code = el(blk['ak5'][1], 0)
        acc = code in ('A', 'E')
        if acc and not want_acc:
            set_flagged.add(i)
            cls = set('env' if (r[0] == 'ele' and r[4] in (a, b)) else ('lost' if r[5] else ('stale' if seg_level(r) else 'other')) for r in ins)
            if 'other' in cls:
                viol.append(('pred:ak5-accepted-with-error-in-set', 'set %d: %s*%s, reported inside: %r' % (i + 1, five, code, ins[:3])))
            elif 'stale' in cls:
                viol.append(('pred:ak5-accepted-with-stale-attached-element-error',
                             'set %d: %s*%s; a segment-level element error was attached to the ST node\'s last element: %r' % (i + 1, five, code, ins[:3])))
            elif 'env' in cls:
                viol.append(('pred:ak5-accepted-with-envelope-element-error',
                             'set %d: %s*%s although an element error was reported on its ST/SE: %r' % (i + 1, five, code, ins[:2])))
            else:
                viol.append(('pred:ak5-accepted-with-swallowed-segment-error',
                             'set %d: %s*%s although a segment error was reported on its header (dropped): %r' % (i + 1, five, code, ins[:2])))
        elif not acc and want_acc:
            set_flagged.add(i)
            viol.append(('pred:ak5-rejected-without-error-in-set', 'set %d: %s*%s, nothing reported inside' % (i + 1, five, code)))
        if acc and len(blk['ak5'][1]) > 1 and code == 'A':
            viol.append(('pred:ak5-accepted-with-error-code', 'set %d: %s' % (i + 1, '*'.join([five] + blk['ak5'][1]))))
    # ---- AK9
    for gi, (a, b, closed) in enumerate(groups):
        blk = gblocks[gi] if gi < len(gblocks) else None
        if blk is None or blk['ak9'] is None:
            viol.append(('pred:group-without-ak9', 'group %d has no AK9' % (gi + 1)))
            continue
        ak9 = blk['ak9'][1]
        ins = inside(a, b, closed, ('st', 'gs'))
        want_acc = not ins
        acc = el(ak9, 0) in ('A', 'E', 'P')
        members = [i for i, (sa, sb, _) in enumerate(sets) if a <= sa <= b]
        if acc and not want_acc:
            def cls_of(r):
                if r[0] == 'ele' and r[4] < nseg and ids[r[4]] in ('ST', 'SE', 'GS', 'GE'):
                    return 'env'
                if r[5]:
                    return 'lost'
                if r[0] == 'seg' and not any(sa <= r[4] <= sb for sa, sb, _ in sets):
                    return 'outside'
                if seg_level(r):
                    return 'stale'
                return 'other'
            cls = set(cls_of(r) for r in ins)
            if 'other' in cls:
                viol.append(('pred:ak9-accepted-with-error-in-group', 'group %d: AK9*%s, reported inside: %r' % (gi + 1, el(ak9, 0), ins[:3])))
            elif 'stale' in cls:
                viol.append(('pred:ak9-accepted-with-stale-attached-element-error',
                             'group %d: AK9*%s; a segment-level element error was attached to an envelope node\'s last element: %r' % (gi + 1, el(ak9, 0), ins[:3])))
            elif 'outside' in cls:
                viol.append(('pred:ak9-accepted-with-segment-error-outside-set',
                             'group %d: AK9*%s although a segment error was reported between its sets: %r' % (gi + 1, el(ak9, 0), ins[:2])))
            elif 'lost' in cls and 'env' not in cls:
                viol.append(('pred:ak9-accepted-with-swallowed-segment-error', 'group %d: AK9*%s, dropped reports %r' % (gi + 1, el(ak9, 0), ins[:2])))
            else:
                viol.append(('pred:ak9-accepted-with-envelope-element-error',
                             'group %d: AK9*%s although an element error was reported on its GS/GE or on the ST/SE of its sets: %r' % (gi + 1, el(ak9, 0), ins[:2])))
        elif not acc and want_acc:
            viol.append(('pred:ak9-rejected-without-error-in-group', 'group %d: AK9*%s, nothing reported inside' % (gi + 1, el(ak9, 0))))
        if closed:
            ge01 = el(src[b][1], 0)
            try:
                if int(el(ak9, 1)) != int(ge01):
                    viol.append(('pred:ak9-declared-count', 'group %d: AK902=%s, GE01=%s' % (gi + 1, el(ak9, 1), ge01)))
            except ValueError:
                pass
        if el(ak9, 2) != str(len(members)) and closed:
            viol.append(('pred:ak9-received-count', 'group %d: AK903=%s, the source group has %d ST' % (gi + 1, el(ak9, 2), len(members))))
        n_acc_lines = sum(1 for sb in blk['sets'] if sb['ak5'] is not None and el(sb['ak5'][1], 0) in ('A', 'E'))
        if closed and el(ak9, 3) != str(n_acc_lines):
            viol.append(('pred:ak9-accepted-count-differs-from-ak5-lines', 'group %d: AK904=%s, %d set(s) acknowledged A/E' % (gi + 1, el(ak9, 3), n_acc_lines)))
        if closed and not any(i in set_flagged for i in members):
            n_want = sum(1 for i in members if set_want[i])
            if el(ak9, 3) != str(n_want):
                viol.append(('pred:ak9-accepted-count-differs-from-recount', 'group %d: AK904=%s, %d set(s) without a reported error' % (gi + 1, el(ak9, 3), n_want)))
    # ---- itemisation
    for i, (a, b, closed) in enumerate(sets):
        blk = sblocks[i] if i < len(sblocks) else None
        if blk is None:
            continue
        lines = blk['lines']
        for r in reports:
            level, code, value, refdes, k, lost = r
            if not (a <= k <= b) or k >= nseg or (not closed and k == b):
                continue
            sid = ids[k]
            posn = str(k - a + 1)
            if level == 'seg' and code in std_seg:
                if k == a and not lost:
                    continue        # raised by the walker before the set was opened: belongs to what precedes
                if lost:
                    if k == a or (closed and k == b):
                        viol.append(('pred:segment-error-on-set-envelope-not-itemised', 'set %d: segment error %s reported on %s is dropped' % (i + 1, code, sid)))
                    else:
                        viol.append(('pred:segment-error-dropped-inside-set', 'set %d: segment error %s at %s (position %s) dropped' % (i + 1, code, sid, posn)))
                    continue
                hit = [l for l in lines if l[0] == three and el(l[1], 3) == code]
                if any((el(l[1], 0) == sid or code == '3') and el(l[1], 1) == posn for l in hit):
                    continue
                if sid in ('SE', 'GE', 'IEA', 'ST', 'GS') and any(el(l[1], 1) == str(k - a) for l in hit):
                    viol.append(('pred:ak3-position-at-trailer-is-previous-segment',
                                 'set %d: segment error %s reported while %s (position %s) was processed is itemised at %r' % (i + 1, code, sid, posn, hit[0][1][:2])))
                elif hit:
                    viol.append(('pred:ak3-at-other-segment-position', 'set %d: segment error %s at %s position %s; itemised %r' % (i + 1, code, sid, posn, [h[1][:2] for h in hit[:3]])))
                else:
                    viol.append(('pred:ak3-missing', 'set %d: segment error %s at %s position %s is not itemised' % (i + 1, code, sid, posn)))
            elif level == 'ele' and code in std_ele and sid not in ENV:
                want_pos = refdes_pos(refdes)
                want401 = None if want_pos is None else ('%d' % want_pos[0] if not want_pos[1] else '%d:%d' % want_pos)
                # AK4 lines under the AK3 of this segment
                under, cur = [], None
                for l in lines:
                    if l[0] == three:
                        cur = l
                    elif l[0] == four and cur is not None and el(cur[1], 0) == sid and el(cur[1], 1) == posn:
                        under.append(l)

                def val_ok(l):
                    return (not value) or el(l[1], 3) == value
                if any(el(l[1], 2) == code and val_ok(l) and (want401 is None or el(l[1], 0) == want401) for l in under):
                    continue
                if any(el(l[1], 2) == code and val_ok(l) for l in under):
                    viol.append(('pred:ak4-element-position-differs-from-report',
                                 'set %d %s position %s: element error %s reported for %r is itemised at element %r' % (
                                     i + 1, sid, posn, code, refdes, [el(l[1], 0) for l in under if el(l[1], 2) == code][:3])))
                elif seg_level(r):
                    viol.append(('pred:ak4-stale-host', 'set %d: segment-level element error %s (%r, value %r) reported at %s position %s is itemised under '
                                 'the previously validated segment or (ST node) not at all' % (i + 1, code, refdes, value, sid, posn)))
                elif any(l[0] == four and el(l[1], 2) == code and val_ok(l) for l in lines):
                    viol.append(('pred:ak4-under-other-segment', 'set %d: element error %s (%r) reported at %s position %s is itemised under another segment' % (i + 1, code, refdes, sid, posn)))
                elif any(el(l[1], 2) == code for l in under):
                    viol.append(('pred:ak4-value-differs', 'set %d %s position %s: element error %s value %r, itemised %r' % (
                        i + 1, sid, posn, code, value, [el(l[1], 3) for l in under if el(l[1], 2) == code][:3])))
                else:
                    viol.append(('pred:ak4-missing', 'set %d: element error %s (%r, value %r) at %s position %s is not itemised' % (i + 1, code, refdes, value, sid, posn)))
    return viol


# ------------------------------------------------------------------------------------ check entry

def work(args):
    """one case -> picklable summary"""
    seed, c = args
    text, doc, meta = gen_case(seed, c)
    real = run_real(text)
    viol = judge(text, real)
    if real['exc'] is not None and real['exc'][1] == 'error_handler.py' and real['exc'][2] == 'close':
        viol.append(('crash:%s:%s:%s' % real['exc'], 'x12n_document raised %s' % real.get('exc_text')))
    nrep = len(real['reports'])
    nsets = sum(len(g) and sum(g) for g in meta['shape'])
    return {'c': c, 'text': text, 'meta': {k: meta[k] for k in ('maps', 'icvn', 'shape', 'faults', 'senders_differ')},
            'viol': viol, 'mline': model_line(real), 'nrep': nrep, 'nsets': nsets, 'exc': real['exc'],
            'real': {k: real[k] for k in ('exc', 'snapshot', 'count', 'kind', 'ack_exc', 'writes', 'verdict')},
            'lost': sum(1 for r in real['reports'] if r[5]), 'codes': sorted(set((r[0], r[1]) for r in real['reports']))}


def pool_map(fn, jobs, tier):
    if tier == 'thorough':
        import multiprocessing
        with multiprocessing.Pool(min(16, os.cpu_count() or 4)) as pool:
            for r in pool.imap_unordered(fn, jobs, chunksize=8):
                yield r
    else:
        for j in jobs:
            yield fn(j)


def compare_summary(w, mout, mask=True):
    real = dict(w['real'])
    real['reports'] = [(None, None, None, None, None, True)] * w['lost']
    return compare_model(real, mout, mask)


def run(tier):
    import logging
    logging.disable(logging.CRITICAL)
    res = common.Result('C05', tier)
    res.cov['rule'] = ('generated documents of every non-FA map, 1-3 sets x 1-2 groups x 1-2 interchanges, 0-3 injected faults '
                       '(catalogue FAULTS); a case is the source text; non-trivial = at least one error reported or at least two sets')
    built = common.proof_stage(res, 'C05')
    pyx()
    n = 600 if tier == 'quick' else 20000
    jobs = [(common.seed(), c) for c in range(n)]
    results = []
    dist = {'faults': {}, 'maps': {}, 'shapes': {}, 'kinds': {}, 'error_codes': {}, 'out_of_scope_crashes': {}}

    def bump(d, k):
        d[k] = d.get(k, 0) + 1
    for w in pool_map(work, jobs, tier):
        results.append(w)
    results.sort(key=lambda w: w['c'])
    mouts = common.run_model([w['mline'] for w in results]) if built else None
    ndis = 0
    for i, w in enumerate(results):
        res.count()
        res.distinct(w['text'], nontrivial=(w['nrep'] > 0 or w['nsets'] >= 2))
        for f in w['meta']['faults'] or ['none']:
            bump(dist['faults'], f.split('@')[0].split(':')[0])
        for m in w['meta']['maps']:
            bump(dist['maps'], m)
        bump(dist['shapes'], str(w['meta']['shape']))
        bump(dist['kinds'], str(w['real']['kind']))
        for c in w['codes']:
            bump(dist['error_codes'], '%s:%s' % c)
        if w['exc'] is not None and not any(k.startswith('crash:') for k, _ in w['viol']):
            bump(dist['out_of_scope_crashes'], '%s:%s:%s' % tuple(w['exc']))
        if i % 97 == 5:
            res.sample({'maps': w['meta']['maps'], 'shape': w['meta']['shape'], 'faults': w['meta']['faults'],
                        'verdict': w['real']['verdict'], 'reports': w['nrep'], 'ack_segments': len(w['real']['writes'])})
        for key, what in w['viol']:
            res.violation(key, what, {'call': 'pyx12.x12n_document.x12n_document(params(), StringIO(text), sink, None)',
                                      'text': w['text'], 'key': key, 'faults': w['meta']['faults'], 'maps': w['meta']['maps']})
        if mouts is not None:
            bad = compare_summary(w, mouts[i])
            if bad:
                ndis += 1
                if not any(k.startswith('crash:') for k, _ in w['viol']):
                    for name, detail in bad[:2]:
                        res.broke('correspondence:' + name, 'case %d faults %r: %s' % (w['c'], w['meta']['faults'], detail[:500]))
    if built:
        # end-to-end tie: the events and the acknowledgement the MODEL derives from the text (Model/Document.lean),
        # not only from the captured call sequence, against the real run
        from . import doc as docmod
        sample = [w['text'] for w in results if w['exc'] is None and len(w['text']) < 30000]
        docmod.attach(res, sample, 'c05-cases', limit=(300 if tier != 'quick' else 40))
    res.notes['input_distribution'] = dist
    res.notes['disagreements_checked'] = ndis
    res.assumptions = ['validation completes (x12n_document returns); runs that raise elsewhere are counted under out_of_scope_crashes (C07)',
                       'error reports are attributed to the source segment being processed when err_handler was called (callback counter)',
                       'int(GE01) is evaluated by Python and passed to the model as number / bad / absent',
                       'AK3/IK3 lines of one segment and TA105 of a 999 are compared exactly (sorted order since the repair)',
                       'GS08 of the 997 is compared in C06 only']
    return res.finish(trusted=common.TRUSTED_COMMON + [
        'modelled: err_handler (add_*/…_error/close_*), err_isa/gs/st/seg/ele counts and ack codes, error_997_visitor, '
        'error_999_visitor with the X12Writer it uses, the Segment/Composite operations they call',
        'recording subclass of err_handler substituted in-process; time.strftime / random.randint of the visitors pinned'])


def replay(d):
    import logging
    logging.disable(logging.CRITICAL)
    r = d['replay']
    real = run_real(r['text'])
    viol = judge(r['text'], real)
    if real['exc'] is not None and real['exc'][1] == 'error_handler.py':
        viol.append(('crash:%s:%s:%s' % real['exc'], real.get('exc_text')))
    hit = [w for k, w in viol if k == r['key']]
    print('verdict=%r exc=%r ack_exc=%r' % (real['verdict'], real['exc'], real['ack_exc']))
    print(''.join(real['writes']))
    for k, w in viol:
        print('%s: %s' % (k, w))
    print('%s: %s' % (r['key'], 'still violated' if hit else 'not violated'))
    return 1 if hit else 0
