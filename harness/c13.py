"""
C13 - data-type recognisers accept exactly the X12 value languages.

Theorems (lean/Pyx12Verif/Props/C13.lean): the model of pyx12.validation accepts a string iff it is in
the X12 language, for all strings.  Tie: exhaustive / structured differential between
pyx12.validation.IsValidDataType (real code, /repo working tree) and the compiled Lean model, plus an
independent Python statement of the languages (datetime-based) as the property oracle.
"""
import datetime
import itertools
import random

from . import common

BASIC = set('ABCDEFGHIJKLMNOPQRSTUVWXYZ0123456789!"&\'()*+,-./:;?= ')
EXT = BASIC | set('abcdefghijklmnopqrstuvwxyz%~@[]_{}\\|<>#$')
EXT5 = EXT | set('^`')
DIG = set('0123456789')


def is_digits(s):
    return all(c in DIG for c in s)


def real_date(s):
    """s: 8 digits"""
    y, m, d = int(s[0:4]), int(s[4:6]), int(s[6:8])
    if y < 1800:
        return False
    try:
        datetime.date(y, m, d)
    except ValueError:
        return False
    return True


def spec_date8(s):
    return len(s) == 8 and is_digits(s) and real_date(s)


def spec_date6(s):
    if not (len(s) == 6 and is_digits(s)):
        return False
    return real_date(('20' if int(s[0:2]) < 50 else '19') + s)


def spec_hhmm(s):
    return int(s[0:2]) <= 23 and int(s[2:4]) <= 59


def spec_time(s):
    if not is_digits(s) or len(s) not in (4, 6, 7, 8):
        return False
    if not spec_hhmm(s):
        return False
    return len(s) == 4 or int(s[4:6]) <= 59


def spec(v, ty, charset, icvn):
    """the X12 value languages as the property states them (independent of the code and of the Lean text)"""
    if ty[:1] == 'N':
        body = v[1:] if v[:1] == '-' else v
        return len(body) > 0 and is_digits(body)
    if ty == 'R':
        body = v[1:] if v[:1] == '-' else v
        parts = body.split('.')
        if len(parts) > 2 or not all(is_digits(p) for p in parts):
            return False
        if len(parts) == 2 and parts[1] == '':
            return False
        return any(c in DIG for c in body)
    if ty in ('ID', 'AN'):
        cs = BASIC if charset == 'B' else (EXT5 if icvn == '00501' else EXT)
        return all(c in cs for c in v)
    if ty == 'D8':
        return spec_date8(v)
    if ty == 'D6':
        return spec_date6(v)
    if ty == 'DT':
        if len(v) == 12:
            return is_digits(v) and real_date(v[:8]) and spec_hhmm(v[8:])
        return spec_date8(v) or spec_date6(v)
    if ty == 'RD8':
        parts = v.split('-')
        return len(parts) == 2 and spec_date8(parts[0]) and spec_date8(parts[1])
    if ty == 'TM':
        return spec_time(v)
    if ty == 'B':
        return True
    return False


def impl(v, ty, charset, icvn):
    from pyx12.validation import IsValidDataType
    try:
        r = IsValidDataType(v, ty, charset, icvn)
    except Exception as e:  # the recognisers must never raise
        return 'raise:' + type(e).__name__
    return '1' if r else '0'


# ------------------------------------------------------------------------------------ case streams

def cases(tier, rnd):
    thorough = tier == 'thorough'
    # 1. sign / point / digit alphabet, all strings up to a length bound, N and R
    alpha = ['-', '.', '0', '5', '9', 'A', ' ', '\n']
    maxlen = 7 if thorough else 6
    for n in range(0, maxlen + 1):
        for tup in itertools.product(alpha, repeat=n):
            s = ''.join(tup)
            yield ('num', s, 'N0', 'B', '00401')
            yield ('num', s, 'R', 'B', '00401')
    for ty in ('N', 'N2', 'N9'):
        for s in ('', '-', '1', '-1', '1.0', '٣', '1_0', ' 1', '+1', '--1', '1-'):
            yield ('num', s, ty, 'B', '00401')
    # 2. calendar: all (y, m, d) of a year window, D8 and DT
    years = list(range(1700, 2201)) + [0, 9999] if thorough else \
        list(range(1795, 1806)) + list(range(1895, 1906)) + list(range(1996, 2030)) + [0, 1600, 1700, 2100, 2200, 2400, 9999]
    for y in years:
        for m in range(0, 14):
            for d in range(0, 33):
                s = '%04d%02d%02d' % (y, m, d)
                yield ('date', s, 'D8', 'B', '00401')
                yield ('date', s, 'DT', 'B', '00401')
    # 3. six-digit dates
    if thorough:
        for n in range(1000000):
            yield ('date', '%06d' % n, 'D6', 'B', '00401')
    for yy in range(100):
        for m in range(0, 14):
            for d in range(0, 33):
                s = '%02d%02d%02d' % (yy, m, d)
                yield ('date', s, 'D6', 'B', '00401')
                yield ('date', s, 'DT', 'B', '00401')
    # 4. date + HHMM
    for dte in ('20240229', '20230229', '18000101', '17991231', '20241301'):
        for hh in range(0, 26):
            for mm in range(0, 62):
                yield ('date', '%s%02d%02d' % (dte, hh, mm), 'DT', 'B', '00401')
    # 5. wrong lengths / non-digits for every date type
    for ty in ('D8', 'D6', 'DT', 'TM', 'RD8'):
        for n in range(0, 15):
            yield ('shape', '2' * n, ty, 'B', '00401')
            yield ('shape', '0' * n, ty, 'B', '00401')
            yield ('shape', ('20240101' * 2)[:n], ty, 'B', '00401')
        for s in ('2024010A', '2024-101', ' 0240101', '20240101 ', '２０２４０１０１', '20240101\n', '1200\n', 'abcd', '12:00', '١٢٠٠'):
            yield ('shape', s, ty, 'B', '00401')
    # 6. times
    for n in range(10000):
        yield ('time', '%04d' % n, 'TM', 'B', '00401')
    if thorough:
        for n in range(1000000):
            yield ('time', '%06d' % n, 'TM', 'B', '00401')
    for hh in range(0, 26):
        for mm in range(0, 62):
            for ss in range(0, 62):
                yield ('time', '%02d%02d%02d' % (hh, mm, ss), 'TM', 'B', '00401')
    for base in ('235959', '000000', '240000', '236000', '235960', '120000'):
        for extra in [''] + ['%d' % i for i in range(10)] + ['%02d' % i for i in range(0, 100, 7)] + ['000', '999', '9999']:
            yield ('time', base + extra, 'TM', 'B', '00401')
        for k in range(0, 6):
            yield ('time', base[:k], 'TM', 'B', '00401')
    # 7. ranges
    ds = ['20200101', '20200102', '20200230', '17991231', '20241231', '2020010', '202001011', '', 'abcdefgh']
    for a in ds:
        for b in ds:
            yield ('range', a + '-' + b, 'RD8', 'B', '00401')
            yield ('range', a + b, 'RD8', 'B', '00401')
            yield ('range', a + '--' + b, 'RD8', 'B', '00401')
            yield ('range', a + '-' + b + '-' + a, 'RD8', 'B', '00401')
            yield ('range', '-' + a + '-' + b, 'RD8', 'B', '00401')
    # 8. character sets: every code point up to 0x2FF, alone and embedded, all three settings, ID and AN
    for cp in range(0, 0x300):
        for (cs, icvn) in (('B', '00401'), ('E', '00401'), ('E', '00501'), ('B', '00501')):
            for ty in ('ID', 'AN'):
                yield ('char', chr(cp), ty, cs, icvn)
            yield ('char', 'A' + chr(cp) + '1', 'AN', cs, icvn)
    # 9. random strings over mixed alphabets, every type
    pools = ['0123456789', '0123456789-.', 'ABCxyz 09^`~|\\#$', ''.join(chr(c) for c in range(0x20, 0x7f)),
             ''.join(chr(c) for c in (0x7, 0x9, 0xa, 0xd, 0x1f, 0x7f, 0x85, 0xa0, 0xe9, 0x3a9, 0x4e2d, 0x1f600, 0x661))]
    types = ['N0', 'R', 'ID', 'AN', 'D8', 'D6', 'DT', 'RD8', 'TM', 'B', 'XX', 'N', 'Nx']
    nrand = 200000 if thorough else 30000
    for _ in range(nrand):
        pool = rnd.choice(pools) + (rnd.choice(pools) if rnd.random() < 0.3 else '')
        s = ''.join(rnd.choice(pool) for _ in range(rnd.choice((0, 1, 2, 3, 4, 5, 6, 7, 8, 9, 12, 13, 17, 30))))
        cs, icvn = rnd.choice((('B', '00401'), ('E', '00401'), ('E', '00501')))
        yield ('random', s, rnd.choice(types), cs, icvn)


def run(tier):
    res = common.Result('C13', tier)
    res.cov['rule'] = ('exhaustive strings over {-,.,0,5,9,A,space,LF} up to a length bound for N/R; every (y,m,d) of a '
                       'year window x D8/DT; every yymmdd; date+HHMM grids; every 4-digit and hh x mm x ss time; RD8 '
                       'pairs; every code point < 0x300 x 3 charset settings; seeded random strings. A case is '
                       '(value, type, charset, version); distinct by that tuple; non-trivial = value non-empty')
    built = common.proof_stage(res, 'C13')
    rnd = random.Random(common.seed() * 7919 + 13)
    todo = list(cases(tier, rnd))
    kinds = {}
    for c in todo:
        kinds[c[0]] = kinds.get(c[0], 0) + 1
    res.notes['input_distribution'] = kinds
    res.notes['exhaustive'] = False
    res.notes['exhaustive_subdomains'] = ['N/R over 8-letter alphabet up to length %d' % (7 if tier == 'thorough' else 6),
                                          'all 4-digit TM', 'all yymmdd grid 100x14x33', 'code points 0..0x2FF x settings']
    model = None
    if built:
        lines = [common.line('V', v, ty, cs == 'E', icvn == '00501') for (_, v, ty, cs, icvn) in todo]
        model = common.run_model(lines)
    accepted = 0
    ndis = 0
    for i, (kind, v, ty, cs, icvn) in enumerate(todo):
        got = impl(v, ty, cs, icvn)
        want = '1' if spec(v, ty, cs, icvn) else '0'
        res.count()
        res.distinct((v, ty, cs, icvn), nontrivial=(v != ''))
        if got == '1':
            accepted += 1
        if i % 50021 == 7:
            res.sample({'value': v, 'type': ty, 'charset': cs, 'icvn': icvn, 'impl': got, 'model': model[i] if model else None, 'spec': want})
        if got != want:
            what = 'accepts a non-member' if got == '1' else ('rejects a member' if got == '0' else got)
            key = 'pred:%s:%s' % (ty if ty[:1] != 'N' else 'N', what.replace(' ', '-'))
            res.violation(key, 'IsValidDataType(%r, %r, %r, %r) -> %s, the X12 language says %s' % (v, ty, cs, icvn, got, want),
                          {'call': 'pyx12.validation.IsValidDataType', 'args': [v, ty, cs, icvn], 'observed': got, 'required': want,
                           'model': model[i] if model else None})
        if model is not None and model[i] != got:
            ndis += 1
            if got == want:
                # model differs from code although the code is right: the theorem no longer transfers
                res.broke('correspondence:Validation.isValidDataType',
                          'value=%r type=%r charset=%r icvn=%r impl=%s model=%s' % (v, ty, cs, icvn, got, model[i]))
    # non-string values and the empty type (dispatcher prologue; Python side only)
    for v, ty, want in ((None, 'AN', '0'), (12, 'N0', '0'), (b'12', 'N0', '0'), ('x', '', '1'), ('x', None, '1'), (None, None, '1')):
        got = impl(v, ty, 'B', '00401')
        res.count()
        if got != want:
            res.violation('pred:prologue', 'IsValidDataType(%r, %r) -> %s, expected %s' % (v, ty, got, want),
                          {'call': 'pyx12.validation.IsValidDataType', 'args': [repr(v), repr(ty)], 'observed': got, 'required': want})
    res.notes['disagreements_checked'] = ndis
    res.notes['accepted_fraction'] = round(accepted / max(1, len(todo)), 4)
    res.assumptions = ['charset in {B, E}, icvn in {00401, 00501}; values are Python str without lone surrogates',
                       'the Lean spec and the Python oracle are two independent transcriptions of the statement']
    return res.finish(trusted=common.TRUSTED_COMMON + [
        'modelled: IsValidDataType, match_re, not_match_re, is_valid_date, is_valid_time (regexes written out as scans)',
        'Python oracle: datetime.date for calendar validity'])


def replay(d):
    r = d['replay']
    args = r['args']
    got = impl(*args)
    print('IsValidDataType%r -> %s (required %s)' % (tuple(args), got, r['required']))
    return 0 if got == r['required'] else 1
