"""
End-to-end differential: real pyx12.x12n_document vs the Lean model `Doc.validateDoc` (lean/Pyx12Verif/Model/Document.lean,
driver ops of Drv/Doc.lean) on whole documents.

    compare_documents(texts, charset=None, with_ack=True) -> (disagreements, stats)

real side  : harness/pipeline.py `validate` (verdict / escaped exception, `node` after every segment from the callback,
             flattened error tree) and harness/c05.py `run_real` (the exact sequence of err_handler calls, the tree
             snapshot, the acknowledgement with clock and random number pinned);
model side : one DDOC op per text over the maps loaded from the translator's extended serialisation
             (work/gen/doc.json, written by tools/xdoc.py through tools/xlate.py).  External code membership comes
             from this file's own parse of codes.xml (DEXT ops), regex verdicts from Python `re` (per document).
compared   : outcome class (verdict / refused / notX12 / mapNotFound / crash site), `node` after every segment,
             flattened errors (level, code, segment id, seg_count, element position, sub position, value),
             the err_handler call sequence field by field (codes, positions, values AND message texts), the error
             tree summary, error count, swallowed-error count, and (Stage B) the 997 / 999 segment lists
             (GS08 of the 997 and the hash-order dependent pieces masked as harness/c05.py does).

Self test:  cd /verif && /venv/bin/python -m harness.doc [quick|thorough] [seed]
"""
import json
import os
import random
import re
import subprocess
import sys
import time

from . import common

_loaded = None


def load_side():
    """(tables.json, doc.json); runs the translator when the extended serialisation is missing or stale"""
    tpath = os.path.join(common.WORK, 'gen', 'tables.json')
    dpath = os.path.join(common.WORK, 'gen', 'doc.json')

    def fresh():
        if not (os.path.exists(tpath) and os.path.exists(dpath)):
            return None
        try:
            side = json.load(open(tpath))
            doc = json.load(open(dpath))
        except ValueError:
            return None
        if 'doc' not in side or set(side['doc']['maps']) != set(doc['maps']):
            return None
        for f, m in doc['maps'].items():
            if f not in side['maps'] or len(m['segs']) != sum(1 for n in side['maps'][f]['nodes'] if n[2] == 'segment'):
                return None
            if m['intern'] and max(n for _, n in m['intern']) >= len(side['strings']):
                return None
        return side, doc
    r = fresh()
    if r is None:
        p = subprocess.run(['/venv/bin/python', os.path.join(common.VERIF, 'tools', 'xlate.py')], stdout=subprocess.PIPE,
                           stderr=subprocess.STDOUT, text=True, env=dict(os.environ, VERIF_REPO=common.REPO, VERIF_LEAN=common.LEAN))
        if p.returncode != 0:
            raise common.Infra('translator failed: ' + p.stdout[-2000:])
        r = fresh()
        if r is None:
            raise common.Infra('translator did not produce a consistent work/gen/doc.json')
    return r


def opt(v):
    return '-' if v is None else '+' + v


def elem_fields(e):
    return [e['usage'] or '', e['dtype'] or '', e['min'], e['max'], len(e['codes'])] + list(e['codes']) + \
        [e['ext'] or '', e['regex'] or '', e['seq'], e['name'], e['refdes'], opt(e['de']), int(e['pc']), int(e['pr']),
         int(e['defined'])]


def seg_fields(d):
    out = ['.'.join(str(i) for i in d['ip']), d['sid'] or '', d['name'], len(d['notes'])] + list(d['notes']) + [len(d['children'])]
    for c in d['children']:
        if c['k'] == 'e':
            out.append('e')
            out.extend(elem_fields(c))
        else:
            out.extend(['c', c['usage'] or '', c['seq'], c['name'], c['refdes'], opt(c['de']), len(c['subs'])])
            for s in c['subs']:
                out.extend(elem_fields(s))
    return out


class Loaded:
    """driver lines that load every translated map, the index and the code sets; path tables for the comparison"""

    def __init__(self):
        self.side, self.doc = load_side()
        ids = self.doc['ids']
        self.unk = len(self.side['strings']) + 1
        lines = [common.line('DINIT', ids['ENT'], ids['HL'], ids['CTX'], self.unk, ids['ISA_LOOP'], ids['ISA'], ids['GS_LOOP'],
                             ids['GS'], ids['ST_LOOP'], ids['HEADER'], ids['BHT'])]
        idx = self.side['index']
        f = ['DIDX', len(idx)]
        for (icvn, vriic, fic, tspc, mfile, abbr) in idx:
            f.extend([opt(icvn), opt(vriic), opt(fic), opt(tspc), opt(mfile)])
        lines.append(common.line(*f))
        for name, codes in self.doc['extsets'].items():
            lines.append(common.line('DEXT', name, *codes))
        self.paths = {}
        for fname, m in self.doc['maps'].items():
            sm = self.side['maps'][fname]
            f = ['DMAP', fname, int(m['is837']), int(m['icvn'] == '00501'), sm['xid_n'], sm['skel'], len(m['intern'])]
            for s, n in m['intern']:
                f.extend([s, n])
            f.append(len(m['segs']))
            for d in m['segs']:
                f.extend(seg_fields(d))
            lines.append(common.line(*f))
            self.paths[fname] = {'.'.join(str(i) for i in ip): sp for ip, sp, kind, nid in sm['nodes']}
        self.lines = lines
        self.regexes = [re.compile(p, re.S) for p in self.doc['regexes']]

    def hits(self, text):
        """(pattern, value) pairs with `re.search` found, over every element / component string of the text"""
        if not self.regexes or len(text) < 106:
            return []
        ele, sub, term = text[3], text[104], text[105]
        toks = set()
        for piece in text.split(term):
            for e in piece.split(ele):
                toks.add(e)
                toks.update(e.split(sub))
        out = []
        for rx in self.regexes:
            for t in toks:
                if rx.search(t):
                    out.append((rx.pattern, t))
        return out


def loaded():
    global _loaded
    if _loaded is None:
        _loaded = Loaded()
    return _loaded


# ------------------------------------------------------------------------------------------------ model side

class ModelRun:
    pass


def parse_model(line):
    f = line.split('\t')
    m = ModelRun()
    m.raw = line
    m.outcome = f[0]
    if m.outcome in ('bad-op', 'parse-error'):
        raise common.Infra('model driver: ' + line[:200])
    n = int(f[1])
    m.segs = []
    k = 2
    for _ in range(n):
        sid, matched, mfile, ip, popped, nev = f[k:k + 6]
        m.segs.append((common.unesc(sid), matched == '1', common.unesc(mfile[1:]) if mfile.startswith('+') else None, ip, popped, int(nev)))
        k += 6
    nf = int(f[k])
    m.fields = [common.unesc(x) for x in f[k + 1:k + 1 + nf]]
    k += 1 + nf
    m.tree, m.lost, m.count, m.kind, m.ack_crash = f[k], int(f[k + 1]), int(f[k + 2]), f[k + 3], f[k + 4]
    m.ack = f[k + 5:]
    return m


def e5_answer(m):
    """the model's answer in the format of driver op E5 (so that harness/c05.py `compare_model` can be reused)"""
    if m.outcome.startswith('crash:errTree:'):
        return 'crash:' + m.outcome[len('crash:errTree:'):]
    head = 'ok\t%s\t%d\t%d\t' % (m.tree, m.lost, m.count)
    if m.kind == 'none':
        return head + 'none'
    return head + '\t'.join([m.ack_crash] + m.ack)


def flat_of_tree(tree):
    """flatten the tree summary (format of Drv/C05.lean / c05.tree_s) like pipeline._collector, without the line"""
    pos = [0]
    s = tree

    def peek():
        return s[pos[0]]

    def eat(ch):
        assert s[pos[0]] == ch, (ch, s[pos[0]:pos[0] + 30])
        pos[0] += 1

    def qstr():
        j = s.index(':', pos[0])
        n = int(s[pos[0]:j])
        # the payload is escaped: read n decoded characters
        k = j + 1
        out = []
        while len(out) < n:
            if s[k] == '\\':
                if s[k + 1] == 'u':
                    e = s.index(';', k)
                    out.append(chr(int(s[k + 2:e], 16)))
                    k = e + 1
                else:
                    out.append({'t': '\t', 'n': '\n', 'r': '\r', '\\': '\\'}[s[k + 1]])
                    k += 2
            else:
                out.append(s[k])
                k += 1
        pos[0] = k
        return ''.join(out)

    def qopt():
        if peek() == '-':
            pos[0] += 1
            return None
        return qstr()

    def num():
        j = pos[0]
        while s[j] in '-0123456789':
            j += 1
        v = int(s[pos[0]:j])
        pos[0] = j
        return v

    def nopt():
        if peek() == '-':
            pos[0] += 1
            return None
        return num()

    def lst(item):
        eat('[')
        out = []
        while peek() != ']':
            out.append(item())
            if peek() == ',':
                pos[0] += 1
        eat(']')
        return out

    def err2():
        c = qstr()
        eat('/')
        return (c, qopt())

    def ele():
        eat('E'); eat('(')
        p = num(); eat(';')
        sp = nopt(); eat(';')
        qopt(); eat(';')
        errs = lst(err2)
        eat(')')
        return (p, sp, errs)

    def seg():
        eat('S'); eat('(')
        sid = qstr(); eat(';')
        cnt = num(); eat(';')
        qopt(); eat(';')
        errs = lst(err2); eat(';')
        eles = lst(ele)
        eat(')')
        return (sid, cnt, errs, eles)

    def st():
        eat('T'); eat('(')
        for _ in range(3):
            qopt(); eat(';')
        qstr(); eat(';')
        num(); eat(';')
        errs = lst(qstr); eat(';')
        eles = lst(ele); eat(';')
        ch = lst(seg)
        eat(')')
        return (errs, eles, ch)

    def gs():
        eat('G'); eat('(')
        for _ in range(8):
            qopt(); eat(';')
        num(); eat(';')
        num(); eat(';')
        num(); eat(';')
        errs = lst(qstr); eat(';')
        eles = lst(ele); eat(';')
        ch = lst(st)
        eat(')')
        return (errs, eles, ch)

    def isa():
        eat('I'); eat('(')
        for _ in range(11):
            qopt(); eat(';')
        num(); eat(';')
        errs = lst(qstr); eat(';')
        eles = lst(ele); eat(';')
        ch = lst(gs)
        eat(')')
        return (errs, eles, ch)

    out = []

    def eles_of(level, sid, cnt, eles):
        for (p, sp, errs) in eles:
            for (c, v) in errs:
                out.append((level, c, sid, cnt, p, sp, v))
    for (ierrs, ieles, gss) in lst(isa):
        for c in ierrs:
            out.append(('isa', c, 'ISA', None, None, None, None))
        eles_of('isa-ele', 'ISA', None, ieles)
        for (gerrs, geles, sts) in gss:
            for c in gerrs:
                out.append(('gs', c, 'GS', None, None, None, None))
            eles_of('gs-ele', 'GS', None, geles)
            for (serrs, seles, segs) in sts:
                for c in serrs:
                    out.append(('st', c, 'ST', None, None, None, None))
                eles_of('st-ele', 'ST', None, seles)
                for (sid, cnt, errs, eles) in segs:
                    for (c, v) in errs:
                        out.append(('seg', c, sid, cnt, None, None, v))
                    eles_of('ele', sid, cnt, eles)
    return out


def run_model(texts, charset=None, chunk=150):
    L = loaded()
    from . import c05
    ext = 0 if charset == 'B' else 1
    out = []
    for a in range(0, len(texts), chunk):
        ops = []
        for t in texts[a:a + chunk]:
            h = L.hits(t)
            f = ['DDOC', ext, c05.FIX_DATE6, c05.FIX_TIME4, c05.FIX_DATE8, c05.FIX_TIME6, c05.FIX_GSCTL, len(h)]
            for p, v in h:
                f.extend([p, v])
            f.append(t)
            ops.append(common.line(*f))
        res = common.run_model(L.lines + ops)
        out.extend(parse_model(x) for x in res[len(L.lines):])
    return out


# ------------------------------------------------------------------------------------------------ real side

def real_outcome(r):
    """outcome class of a pipeline.validate run, in the model's vocabulary"""
    if r.exc is None:
        return 'verdict:%d' % (1 if r.verdict else 0)
    name, f, fn, msg = r.exc
    if name == 'X12Error':
        return 'notX12'
    if name == 'EngineError' and msg.startswith('Map not found'):
        return 'mapNotFound'
    if name == 'EngineError' and 'is not defined' in msg and f == 'dataele.py':
        return 'crash:dataEle'
    if f == 'error_handler.py':
        return 'crash:errTree:%s:%s' % (name, fn)
    if f in ('map_if.py',) and fn in ('load_map_file', '__init__'):
        return 'mapLoadFailed'
    return 'crash:other:%s:%s:%s' % (name, f, fn)


def compare_one(L, text, m, charset=None, with_ack=True):
    """-> list of (class, detail)"""
    from . import c05, pipeline
    bad = []
    r = pipeline.validate(text, want_997=True, charset=charset)
    ro = real_outcome(r)
    mo = m.outcome
    if mo == 'refused':
        if not (r.exc is None and r.verdict is False and not r.nodes):
            bad.append(('outcome', 'model refused, real %s with %d segments' % (ro, len(r.nodes))))
        return bad
    if ro != mo:
        bad.append(('outcome', 'real %s model %s' % (ro, mo)))
        if not (ro.startswith('verdict') and mo.startswith('verdict')):
            return bad
    # `node` after every segment
    mnodes = [(sid, L.paths.get(mf, {}).get(ip) if mf is not None else None) for (sid, mt, mf, ip, pp, nev) in m.segs]
    rn = list(r.nodes)
    if r.exc is not None:
        # the callback is not reached in the round that raised; the model may or may not list that round
        mnodes = mnodes[:len(rn)]
    if rn != mnodes:
        k = next((i for i in range(min(len(rn), len(mnodes))) if rn[i] != mnodes[i]), min(len(rn), len(mnodes)))
        bad.append(('node', 'segment %d: real %r model %r (%d / %d segments)' % (
            k, rn[k] if k < len(rn) else None, mnodes[k] if k < len(mnodes) else None, len(rn), len(mnodes))))
        return bad
    if r.exc is None:
        rflat = [(e[0], e[1], e[2], e[3], e[5], e[6], e[7]) for e in r.errors if len(e) == 8]
        mflat = flat_of_tree(m.tree)
        if rflat != mflat:
            k = next((i for i in range(min(len(rflat), len(mflat))) if rflat[i] != mflat[i]), min(len(rflat), len(mflat)))
            bad.append(('errors', 'entry %d: real %r model %r (%d / %d)' % (
                k, rflat[k] if k < len(rflat) else None, mflat[k] if k < len(mflat) else None, len(rflat), len(mflat))))
    # the err_handler call sequence, the tree summary, the acknowledgement
    if charset is None:
        q = c05.run_real(text, with_ack=with_ack)
        if (q['exc'] is None) != (r.exc is None) or (q['exc'] is None and q['verdict'] != r.verdict):
            bad.append(('nondeterministic', 'two real runs gave %r %r / %r %r' % (r.verdict, r.exc, q['verdict'], q['exc'])))
        if q['exc'] is None or q['exc'][1] == 'error_handler.py':
            if q['fields'] != m.fields and q['exc'] is None:
                k = next((i for i in range(min(len(q['fields']), len(m.fields))) if q['fields'][i] != m.fields[i]),
                         min(len(q['fields']), len(m.fields)))
                bad.append(('events', 'field %d: real …%r model …%r (%d / %d fields)' % (
                    k, q['fields'][max(0, k - 4):k + 3], m.fields[max(0, k - 4):k + 3], len(q['fields']), len(m.fields))))
            for name, detail in c05.compare_model(q, e5_answer(m)):
                bad.append((name, detail))
    return bad


def compare_documents(texts, charset=None, with_ack=True, labels=None):
    """-> (list of (text index, class, detail), stats)"""
    L = loaded()
    models = run_model(texts, charset)
    dis = []
    stats = {'documents': len(texts), 'segments': 0, 'events': 0, 'outcomes': {}, 'with_errors': 0, 'acks': {}}
    for i, (t, m) in enumerate(zip(texts, models)):
        stats['segments'] += len(m.segs)
        stats['events'] += len(m.fields)
        o = m.outcome if not m.outcome.startswith('verdict') else m.outcome
        stats['outcomes'][o] = stats['outcomes'].get(o, 0) + 1
        stats['acks'][m.kind] = stats['acks'].get(m.kind, 0) + 1
        if m.count:
            stats['with_errors'] += 1
        for cls, detail in compare_one(L, t, m, charset, with_ack):
            dis.append((i, cls, detail))
    return dis, stats


# ------------------------------------------------------------------------------------------------ self test

def corpus(tier, seed):
    """-> list of (kind, label, text)"""
    from . import gendoc, c12, c02, c05, c07
    rnd = random.Random(seed * 7919 + 31)
    thorough = tier == 'thorough'
    entries = gendoc.index_entries()
    per_map = 24 if thorough else 14
    out = []
    gen = []
    for m in entries:
        for i in range(per_map):
            sd = rnd.randrange(1 << 30)
            p_opt = 0.0 if i == 0 else rnd.choice((0.2, 0.5, 0.8, 1.0))
            max_rep = 1 if i == 0 else rnd.choice((1, 2, 3))
            g = gendoc.Gen(m['map_file'], m['icvn'], m['vriic'], m['fic'], seed=sd, p_opt=p_opt, max_rep=max_rep,
                           tspc=m.get('tspc'), p_rich=(0.0 if i == 0 else 0.35))
            text = g.doc()
            gen.append((m, sd, text))
            out.append(('generated', (m['map_file'], sd), text))
    for (m, sd, text) in gen:
        for _ in range(2 if thorough else 1):
            t2, kinds = c12.inject(text, rnd)
            out.append(('inject', (m['map_file'], sd, tuple(kinds)), t2))
        for t2, op in c02.mutants(text, rnd, 3 if thorough else 1):
            out.append(('mutant', (m['map_file'], sd, op), t2))
    for c in range(400 if thorough else 150):
        text, doc, meta = c05.gen_case(seed, c)
        out.append(('multi', (tuple(meta['maps']), repr(meta['shape']), tuple(str(x) for x in meta['faults'])), text))
    kinds = [k for k, _ in c07.MUTATIONS if k not in ('long-segment-64k', 'long-segment-8k')]
    for j in range(600 if thorough else 200):
        m, sd, text = rnd.choice(gen)
        k = rnd.choice(kinds)
        if rnd.random() < 0.2:
            k = rnd.choice(c07.SEGMENT_LEVEL) + '+' + k
        try:
            t2 = c07.apply_mutation(k, text, rnd)
        except Exception:
            continue
        out.append(('c07:' + k.split('+')[-1], (m['map_file'], sd, k), t2))
    for j in range(100 if thorough else 40):
        k, t2 = c07.arbitrary(rnd)
        out.append(('arbitrary:' + k, (j,), t2))
    return out


def main(argv):
    tier = argv[1] if len(argv) > 1 else 'quick'
    seed = int(argv[2]) if len(argv) > 2 else common.seed()
    only = argv[3] if len(argv) > 3 else None
    t0 = time.time()
    ok, log = common.lean_build()
    if not ok:
        print(log[-3000:])
        return 2
    cases = corpus(tier, seed)
    if only:
        cases = [c for c in cases if c[0].startswith(only)]
    texts = [c[2] for c in cases]
    dis, stats = compare_documents(texts)
    by_kind = {}
    for kind, label, text in cases:
        k = kind.split(':')[0]
        by_kind[k] = by_kind.get(k, 0) + 1
    print('documents by source:', by_kind)
    print('model outcomes:', stats['outcomes'])
    print('segments %d, handler-call fields %d, documents with errors %d, acknowledgements %s' % (
        stats['segments'], stats['events'], stats['with_errors'], stats['acks']))
    classes = {}
    for i, cls, detail in dis:
        classes.setdefault((cases[i][0].split(':')[0], cls), []).append((i, detail))
    ndocs = len(set(i for i, _, _ in dis))
    print('disagreements: %d in %d documents' % (len(dis), ndocs))
    for (kind, cls), items in sorted(classes.items()):
        i, detail = items[0]
        print('  %-10s %-18s %4d   e.g. %r: %s' % (kind, cls, len(items), cases[i][1], detail[:400]))
    if dis:
        d = os.path.join(common.WORK, 'doc')
        os.makedirs(d, exist_ok=True)
        seen = set()
        for i, cls, detail in dis:
            key = (cases[i][0].split(':')[0], cls)
            if key in seen:
                continue
            seen.add(key)
            with open(os.path.join(d, 'dis_%s_%s.txt' % (key[0], re.sub(r'\W', '_', cls))), 'w') as f:
                f.write(cases[i][2])
    print('%.1fs' % (time.time() - t0))
    return 1 if dis else 0


if __name__ == '__main__':
    sys.exit(main(sys.argv))


# ------------------------------------------------------------------------------------------------ use by the checks

def attach(res, texts, label, audit=True, charset=None, with_ack=True, limit=None):
    """End-to-end tie used by C02 / C05 / C07 / C12: the real x12n_document and the composed Lean model
    (Model/Document.lean = tokenizer + envelope + walker + element/syntax validation + error tree + acknowledgement)
    on the same texts; a disagreement breaks the correspondence.  With audit=True the end-to-end theorems
    (Audit/Doc.lean) are added to the check's obligations."""
    if audit:
        ax, missing, _ = common.lean_audit('Doc')
        for thm, a in sorted(ax.items()):
            res.obligations.append(thm)
            if set(a) <= common.STD_AXIOMS:
                res.discharged.append(thm)
            else:
                res.broke('axioms:' + thm, 'depends on ' + ', '.join(a))
        for mth in missing:
            res.obligations.append(mth)
            res.broke('theorem:' + mth, 'not found by the audit')
    texts = list(texts)[:limit] if limit else list(texts)
    if not texts:
        return
    dis, stats = compare_documents(texts, charset=charset, with_ack=with_ack)
    res.count(stats['segments'])
    res.notes.setdefault('end_to_end', {})[label] = {k: stats[k] for k in ('documents', 'segments', 'events', 'outcomes', 'with_errors', 'acks')}
    for (i, cls, detail) in dis[:20]:
        res.broke('correspondence:Document.validateDoc:' + cls, '%s document %d: %s' % (label, i, str(detail)[:400]))
    res.notes['end_to_end'][label]['disagreements'] = len(dis)


def small_corpus(seed, n, faulty=0.4):
    """a quick, seeded sample of ASCII documents for the end-to-end ties inside the per-property checks:
    generated documents of random indexed maps, some with injected faults (c12.inject) or structural mutations (c02.mutants)"""
    from . import gendoc, c12, c02
    rnd = random.Random(seed * 2654435761 % (1 << 31) + 5)
    entries = gendoc.index_entries()
    out = []
    while len(out) < n:
        m = rnd.choice(entries)
        g = gendoc.Gen(m['map_file'], m['icvn'], m['vriic'], m['fic'], seed=rnd.randrange(1 << 30), p_opt=rnd.choice((0.0, 0.3, 0.6)),
                       max_rep=rnd.choice((1, 2)), tspc=m.get('tspc'))
        text = g.doc()
        if len(text) > 20000:
            continue
        r = rnd.random()
        if r < faulty / 2:
            text, _ = c12.inject(text, rnd)
        elif r < faulty:
            ms = c02.mutants(text, rnd, 1)
            if ms:
                text = ms[0][0]
        if all(ord(ch) < 128 for ch in text):
            out.append((m['map_file'], text))
    return out
