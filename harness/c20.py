"""
C20 - the command-line normaliser preserves content, is idempotent and repairs counts.

Theorems (lean/Pyx12Verif/Props/C20.lean) are about `Norm.normFile`, the model of `pyx12.scripts.x12norm.main()` on
one input file (reader = C01 model, counters and envelope errors = C04 model, get_value/set = C17 model).
Tie: documents generated from the shipped maps (harness/gendoc.py), re-assembled with 1-2 interchanges, 1-3 groups
and 1-3 sets, then
  group A  only count defects : wrong / non-numeric / empty SE01, GE01, IEA01, HL01 (plus benign spellings such as
                                "007" or "+7" of the right count, which must stay as they are),
  group B  other defects      : wrong SE02 / GE02 / IEA02, invalid HL02, duplicate ST02, trailing empty elements
                                and components, leading blanks, empty and blank segments, unterminated tail
                                (the control group: none of it may be touched), mixed with count defects,
  group C  structural mutants : a segment deleted, duplicated or swapped (any arrangement),
  fixed    directed cases     : the ledger recipes (D17 document, second ISA with empty ISA16, ...),
written under /verif/work with several delimiter triples and line-break styles, are normalised by calling
`pyx12.scripts.x12norm.main()` in-process (patched sys.argv, captured stdout) for eol x fix x {stdout, -o, -i}.

impl  = text written (or the exception class)
model = Lean `normFile` on the text the reader sees (the file after Python's universal-newline translation)
want  = independent Python statement: split the input at the terminator, drop line breaks / blanks / empty pieces,
        recount SE/GE/IEA/HL by position in the envelope, replace a count only where int(count) != recount, print
        every segment with trailing empty elements / components trimmed (the documented normalisation), one per
        line when asked.
Oracle clauses (each with its own rule key): same segments, values and delimiters without -f; output idempotent;
one segment per line with -e; after -f the real X12Reader reports no IEA/GE/SE count error and no HL sequence error
on the output (group A: no envelope error at all) and nothing but a wrong count is altered; -o, -i and stdout give
the same text.
"""
import io
import logging
import os
import random
import shutil
import sys
import traceback

from . import common

ISA_LEN = 106
TRIPLES = [('~', '*', ':'), ('!', '|', '>'), ('#', '+', '\\'), ("'", '*', '<'), ('~', '^', '>'), ('$', '*', '@'),
           ('\n', '|', ':')]
BREAKS = ['', '\n', '\r\n', '\r']
COUNT_CODES = {('isa', '021'), ('gs', '5'), ('st', '4'), ('seg', 'HL1')}
ENV_LEVELS = ('isa', 'gs', 'st')
OPTS = [(e, f) for e in (False, True) for f in (False, True)]


# ------------------------------------------------------------------------------------ independent statement (want)

def rstrip_empty(lst):
    lst = list(lst)
    while lst and lst[-1] == '':
        lst.pop()
    return lst


def header_of(text):
    """(term, ele, sub) from the fixed positions of the first 106 characters, None when the reader refuses them"""
    head = text[:ISA_LEN]
    if head[:3] != 'ISA' or len(head) != ISA_LEN or head[84:89] not in ('00401', '00501'):
        return None
    return head[105], head[3], head[104]


def split_doc(text, term, ele, sub):
    """the segments of a text: [(id, [element, ...])], each element a list of component values (ISA: one value)"""
    out = []
    for piece in text.split(term)[:-1]:
        piece = piece.lstrip('\n\r')
        if piece == '':
            continue
        if piece.startswith(' '):
            piece = piece.lstrip()
            if piece == '':
                continue
        fields = piece.split(ele)
        sid = fields[0]
        if sid == 'ISA':
            out.append((sid, [[f] for f in fields[1:]]))
        else:
            out.append((sid, [f.split(sub) for f in fields[1:]]))
    return out


def trimmed(seg):
    """documented normalisation of one segment: trailing empty components and trailing empty elements removed"""
    sid, elems = seg
    comps = [rstrip_empty(c) or [''] for c in elems]
    while comps and comps[-1] == ['']:
        comps.pop()
    return sid, comps


def print_seg(seg, term, ele, sub):
    sid, comps = trimmed(seg)
    return sid + ele + ele.join(sub.join(c) for c in comps) + term


def py_int(s):
    try:
        return int(s)
    except (ValueError, TypeError):
        return None


def first_value(seg, sub):
    """the text of element 01 as a reader of the document sees it (None = absent)"""
    sid, elems = seg
    if not elems:
        return None
    return sub.join(rstrip_empty(elems[0]) or [''])


def recount(segs):
    """per segment the count its element 01 should carry (None = the segment carries no count): position in the envelope"""
    out = []
    gs = st = seg = hl = 0
    for sid, _ in segs:
        exp = None
        if sid == 'ISA':
            gs = 0
        elif sid == 'GS':
            gs += 1
            st = 0
        elif sid == 'ST':
            st += 1
            seg = 1
            hl = 0
        elif sid == 'IEA':
            exp = gs
        elif sid == 'GE':
            exp = st
        elif sid == 'SE':
            exp = seg + 1
        else:
            seg += 1
            if sid == 'HL':
                hl += 1
                exp = hl
        out.append(exp)
    return out


def repaired(segs, sub):
    """the document -f has to produce: a count is replaced only where it is not the recount"""
    out = []
    changed = []
    for i, ((sid, elems), exp) in enumerate(zip(segs, recount(segs))):
        if exp is not None and py_int(first_value((sid, elems), sub)) != exp:
            new = [str(exp).split(sub)] + [list(c) for c in elems[1:]]
            out.append((sid, new))
            changed.append(i)
        else:
            out.append((sid, elems))
    return out, changed


def want_text(seen, eol, fix):
    """('K', text) | ('X',): what the normaliser has to write for the text the reader sees"""
    h = header_of(seen)
    if h is None:
        return ('X',)
    term, ele, sub = h
    segs = split_doc(seen, term, ele, sub)
    if any(sid == 'ISA' and len(elems) != 16 for sid, elems in segs):
        return ('X',)
    if fix:
        segs, _ = repaired(segs, sub)
    brk = '\n' if eol else ''
    return ('K', ''.join(print_seg(s, term, ele, sub) + brk for s in segs) + ('' if eol else '\n'))


# ------------------------------------------------------------------------------------ the real code

def run_main(argv):
    """pyx12.scripts.x12norm.main() with patched argv / stdout: ('K', stdout text) | ('X',) | ('C', exception name, where)"""
    try:
        import pyx12.errors
        import pyx12.scripts.x12norm as mod
        entry = mod.main
    except (ImportError, AttributeError) as e:
        raise common.Infra('entry point missing: %r' % e)
    root = logging.getLogger()
    handlers = list(root.handlers)
    level = root.level
    old_argv, old_out = sys.argv, sys.stdout
    buf = io.StringIO()
    sys.argv = ['x12norm'] + list(argv)
    sys.stdout = buf
    try:
        entry()
        res = ('K', buf.getvalue())
    except pyx12.errors.X12Error:
        res = ('X',)
    except SystemExit as e:
        res = ('C', 'SystemExit', str(e.code))
    except Exception as e:
        tb = traceback.extract_tb(sys.exc_info()[2])
        inner = [f for f in tb if '/pyx12/' in f.filename.replace('\\', '/')]
        f = inner[-1] if inner else tb[-1]
        res = ('C', type(e).__name__, '%s:%s' % (os.path.basename(f.filename), f.name))
    finally:
        sys.argv, sys.stdout = old_argv, old_out
        for hd in list(root.handlers):
            if hd not in handlers:
                root.removeHandler(hd)
        root.setLevel(level)
    return res


def flags(eol, fix):
    return (['-e'] if eol else []) + (['-f'] if fix else [])


def read_raw(path):
    with open(path, 'r', encoding='ascii', newline='') as f:
        return f.read()


def write_raw(path, text):
    with open(path, 'w', encoding='ascii', newline='') as f:
        f.write(text)


def reader_errors(path):
    """[(level, code)] popped by the real X12Reader over the file, per segment, plus the end-of-input list"""
    try:
        import pyx12.x12file
        src = pyx12.x12file.X12Reader(path)
    except (ImportError, AttributeError) as e:
        raise common.Infra('entry point missing: %r' % e)
    out = []
    for seg in src:
        out.append((seg.get_seg_id(), [(e[0], e[1]) for e in src.pop_errors()]))
    src.cleanup()
    out.append((None, [(e[0], e[1]) for e in src.pop_errors()]))
    return out


# ------------------------------------------------------------------------------------ generation

_entries = None
_bases = {}


def entries():
    global _entries
    if _entries is None:
        from . import gendoc
        _entries = gendoc.index_entries()
    return _entries


def base_fields(mi, sd, p_opt):
    """canonical segments (fields split at '*', components written with ':') of one generated document"""
    from . import gendoc
    key = (mi, sd, p_opt)
    if key not in _bases:
        m = entries()[mi]
        g = gendoc.Gen(m['map_file'], m['icvn'], m['vriic'], m['fic'], seed=sd, p_opt=p_opt, max_rep=2, tspc=m.get('tspc'))
        g.doc()
        if len(_bases) > 64:
            _bases.clear()
        _bases[key] = (m['map_file'], m['icvn'], [s.format('~', '*', ':')[:-1].split('*') for s, _ in g.segs])
    return _bases[key]


def add_hl(rnd, body):
    """append a chain of HL segments that continues the numbering (parents: blank or the previous HL)"""
    n = sum(1 for f in body if f[0] == 'HL')
    body = list(body)
    for _ in range(rnd.randint(1, 4)):
        n += 1
        parent = '' if n == 1 or rnd.random() < 0.2 else str(n - 1)
        body.append(['HL', str(n), parent, rnd.choice(('20', '22', '23')), rnd.choice(('0', '1'))])
        if rnd.random() < 0.5:
            body.append(['NM1', '85', '2', 'A' * rnd.randint(1, 6)])
    return body


ENVELOPE = ('ISA', 'IEA', 'GS', 'GE', 'ST', 'SE')


def assemble(rnd, base):
    """1-2 interchanges x 1-3 groups x 1-3 sets with consistent control numbers and counts"""
    ids = [f[0] for f in base]
    isa, gs, st = base[ids.index('ISA')], base[ids.index('GS')], base[ids.index('ST')]
    body = [f for f in base[ids.index('ST') + 1:ids.index('SE')] if f[0] not in ENVELOPE]
    out = []
    for i in range(rnd.choice((1, 1, 1, 2))):
        ictl = '%09d' % (i + 1)
        f = list(isa)
        f[13] = ictl
        out.append(f)
        ngs = rnd.choice((1, 1, 1, 2, 3))
        for j in range(ngs):
            f = list(gs)
            f[6] = str(j + 1)
            out.append(f)
            nst = rnd.choice((1, 1, 2, 3))
            for k in range(nst):
                sctl = '%04d' % (k + 1)
                f = list(st)
                f[2] = sctl
                out.append(f)
                cut = len(body) if rnd.random() < 0.06 else rnd.randint(0, min(len(body), 14))
                b = [list(x) for x in body[:cut]]
                if rnd.random() < 0.6:
                    b = add_hl(rnd, b)
                out.extend(b)
                out.append(['SE', str(len(b) + 2), sctl])
            out.append(['GE', str(nst), str(j + 1)])
        out.append(['IEA', str(ngs), ictl])
    return out


def wrong_count(rnd, right):
    k = rnd.random()
    if k < 0.45:
        v = right + rnd.choice((-2, -1, 1, 1, 2, 5, 10, 1000))
        return str(v if v >= 0 else right + 1)
    if k < 0.55:
        return '0' if right != 0 else '1'
    if k < 0.65:
        return ''
    if k < 0.75:
        return rnd.choice(('X', 'ten', '1.0', '1e1', '--1', '4 4'))
    if k < 0.8:
        return '0' * rnd.randint(1, 3) + str(right + 1)
    if k < 0.85:
        return str(right) + 'A'
    return str(rnd.randint(0, 99999) if rnd.random() < 0.5 else right * 10 + 1)


def benign_count(rnd, right, avoid=''):
    return rnd.choice([f for f in ('0%d', '00%d', '+%d', ' %d', '%d ') if f[0] not in avoid]) % right


def count_positions(doc):
    return [i for i, f in enumerate(doc) if f[0] in ('SE', 'GE', 'IEA', 'HL')]


def corrupt_counts(rnd, doc, tags, p=None, avoid=''):
    """group A: only count defects"""
    pos = count_positions(doc)
    exp = recount([(f[0], None) for f in doc])
    p = p if p is not None else rnd.choice((0.15, 0.4, 0.8, 1.0))
    hit = 0
    for i in pos:
        r = rnd.random()
        if r < p:
            doc[i][1] = wrong_count(rnd, exp[i])
            tags.append('count:' + doc[i][0])
            hit += 1
        elif r < p + 0.08:
            doc[i][1] = benign_count(rnd, exp[i], avoid)
            tags.append('benign:' + doc[i][0])
    if not hit and pos:
        i = rnd.choice(pos)
        doc[i][1] = wrong_count(rnd, exp[i])
        tags.append('count:' + doc[i][0])
    return doc


def other_defects(rnd, doc, tags):
    """group B: defects the normaliser has no business with; returns (doc, raw text decorations)"""
    deco = {}
    for _ in range(rnd.randint(1, 4)):
        k = rnd.choice(('se02', 'ge02', 'iea02', 'hl02', 'dupst', 'trail', 'trailcomp', 'lead', 'emptyseg', 'blankseg', 'tail',
                        'gs06', 'longval'))
        idx = [i for i, f in enumerate(doc) if i > 0]
        if k in ('se02', 'ge02', 'iea02'):
            c = [i for i in idx if doc[i][0] == k[:-2].upper()]
            if c:
                i = rnd.choice(c)
                while len(doc[i]) < 3:
                    doc[i].append('')
                doc[i][2] = rnd.choice(('9999', '', 'X', doc[i][2] + '0'))
                tags.append('other:' + k)
        elif k == 'hl02':
            c = [i for i in idx if doc[i][0] == 'HL' and len(doc[i]) > 2]
            if c:
                i = rnd.choice(c)
                doc[i][2] = rnd.choice(('99', 'X', '0', '-1'))
                tags.append('other:hl02')
        elif k == 'dupst':
            c = [i for i in idx if doc[i][0] == 'ST']
            if len(c) > 1:
                doc[c[1]][2] = doc[c[0]][2]
                tags.append('other:dupst')
        elif k == 'gs06':
            c = [i for i in idx if doc[i][0] == 'GS']
            if len(c) > 1:
                doc[c[1]][6] = doc[c[0]][6]
                tags.append('other:dupgs')
        elif k == 'trail':
            i = rnd.choice(idx)
            if doc[i][0] != 'ISA':
                doc[i] = doc[i] + [''] * rnd.randint(1, 3)
                tags.append('other:trailing-elements')
        elif k == 'trailcomp':
            c = [i for i in idx if doc[i][0] not in ('ISA',) and len(doc[i]) > 1]
            if c:
                i = rnd.choice(c)
                j = rnd.randrange(1, len(doc[i]))
                doc[i][j] = doc[i][j] + ':' * rnd.randint(1, 2)
                tags.append('other:trailing-components')
        elif k == 'longval':
            c = [i for i in idx if doc[i][0] not in ('ISA', 'IEA', 'GE', 'SE', 'HL', 'GS', 'ST') and len(doc[i]) > 1]
            if c:
                i = rnd.choice(c)
                j = rnd.randrange(1, len(doc[i]))
                doc[i][j] = rnd.choice(('4', '5', '021', 'HL1', 'x y', 'a.b', '0' * 40))
                tags.append('other:value')
        else:
            deco.setdefault(rnd.choice(idx), []).append(k)
            tags.append('other:' + k)
    return doc, deco


def mutate(rnd, doc, tags):
    """group C: one or two structural mutations (never the first ISA)"""
    for _ in range(rnd.choice((1, 1, 2))):
        if len(doc) < 4:
            break
        k = rnd.choice(('del', 'dup', 'swap', 'deltrailer', 'dupheader'))
        if k == 'del':
            del doc[rnd.randrange(1, len(doc))]
        elif k == 'dup':
            i = rnd.randrange(1, len(doc))
            doc.insert(i, list(doc[i]))
        elif k == 'swap':
            i = rnd.randrange(1, len(doc) - 1)
            doc[i], doc[i + 1] = doc[i + 1], doc[i]
        elif k == 'deltrailer':
            c = [i for i, f in enumerate(doc) if f[0] in ('SE', 'GE', 'IEA')]
            if c:
                del doc[rnd.choice(c)]
        else:
            c = [i for i, f in enumerate(doc) if i > 0 and f[0] in ('GS', 'ST', 'HL')]
            if c:
                i = rnd.choice(c)
                doc.insert(rnd.randrange(i, len(doc)), list(doc[i]))
        tags.append('mut:' + k)
    return doc


def encode(doc, term, ele, sub, brk, icvn, deco=None):
    deco = deco or {}
    b = '' if term == '\n' else brk
    out = []
    for i, f in enumerate(doc):
        f = list(f)
        if f[0] == 'ISA' and len(f) == 17:
            if f[16] != '':
                f[16] = sub
            if icvn == '00501' and f[11] in (term, ele, sub):
                f[11] = '}'
            s = ele.join(f)
        else:
            s = ele.join(x.replace(':', sub) for x in f)
        pre = ''
        post = ''
        for k in deco.get(i, ()):
            if k == 'lead':
                pre += ' ' * (1 + i % 3)
            elif k == 'emptyseg':
                post += term
            elif k == 'blankseg':
                post += '  ' + term
            elif k == 'tail':
                pass
        out.append(pre + s + term + b + post)
    text = ''.join(out)
    if any('tail' in v for v in deco.values()):
        text += 'ZZZ' + ele + 'unterminated'
    return text


ISA_A = 'ISA*00*          *00*          *ZZ*SENDER         *ZZ*RECEIVER       *200101*1200*U*00401*000000001*0*P*:~'
ISA_B = 'ISA*00*          *00*          *ZZ*SENDER         *ZZ*RECEIVER       *200101*1200*U*00401*000000002*0*P*~'
FIXED = [
    ('ledger-D17', ISA_A + 'GS*HC*A*B*20200101*1200*1*X*004010X098A1~ST*837*0001~BHT*0019*00*1*20200101*1200*CH~SE*3*0001~GE*1*1~IEA*1*000000001~'),
    ('counts-and-hl', ISA_A + 'GS*HC*A*B*20200101*1200*1*X*004010X098A1~ST*837*0001~HL*5**20*1~HL*7*1*22*0~SE*9*0001~GE*4*1~IEA*3*000000001~'),
    ('second-isa-empty-isa16', ISA_A + 'GS*HC*A*B*20200101*1200*1*X*004010X098A1~ST*837*0001~SE*2*0001~GE*1*1~IEA*1*000000001~' + ISA_B + 'IEA*0*000000002~'),
    ('trailer-without-count', ISA_A + 'GS*HC*A*B*20200101*1200*1*X*004010X098A1~ST*837*0001~HL~SE~GE~IEA~'),
    ('code-lookalikes', ISA_A + 'GS*HC*A*B*20200101*1200*1*X*004010X098A1~ST*837*0001~ REF*4*021~REF*5*HL1*~SE*4*0002~GE*1*2~IEA*1*000000009~'),
    ('composite-count', ISA_A + 'GS*HC*A*B*20200101*1200*1*X*004010X098A1~ST*837*0001~HL*1:2**20~HL*2::*1*22~SE*4:*0001~GE*1*1~IEA*1*000000001~'),
    ('short-isa', ISA_A + 'ISA*00*1~IEA*0*1~IEA*1*000000001~'),
    ('isa-value-ends-with-component-separator', ISA_A.replace('SENDER         ', 'SUBMITTER/0001:').replace('RECEIVER       ', 'RE:CEIVER      ') +
     'GS*HC*A*B*20200101*1200*1*X*004010X098A1~ST*837*0001~BHT*0019*00*1*20200101*1200*CH~SE*3*0001~GE*1*1~IEA*1*000000001~'),
]


def gen_case(seed, c):
    """case number c -> (category, tags, map file, file content)"""
    if c < len(FIXED):
        return 'fixed:' + FIXED[c][0], [], '-', FIXED[c][1]
    rnd = random.Random(seed * 1000003 + c)
    ent = entries()
    mi = rnd.randrange(len(ent))
    # a handful of cases share one generated base document
    sd = (seed * 7919 + c // 4) % (1 << 30)
    map_file, icvn, base = base_fields(mi, sd, rnd.choice((0.0, 0.4, 0.8)))
    doc = assemble(rnd, base)
    tags = []
    term, ele, sub = rnd.choice(TRIPLES) if rnd.random() < 0.75 else TRIPLES[0]
    if icvn == '00501' and '^' in (term, ele, sub):
        term, ele, sub = TRIPLES[1]
    avoid = term + ele + sub
    r = rnd.random()
    deco = None
    if r < 0.08:
        cat = 'clean'
    elif r < 0.5:
        cat = 'A:counts-only'
        doc = corrupt_counts(rnd, doc, tags, avoid=avoid)
    elif r < 0.8:
        cat = 'B:other-defects'
        doc, deco = other_defects(rnd, doc, tags)
        if rnd.random() < 0.7:
            doc = corrupt_counts(rnd, doc, tags, p=rnd.choice((0.1, 0.4)), avoid=avoid)
    else:
        cat = 'C:mutant'
        doc = mutate(rnd, doc, tags)
        if rnd.random() < 0.7:
            doc = corrupt_counts(rnd, doc, tags, p=rnd.choice((0.1, 0.4)), avoid=avoid)
    brk = rnd.choice(BREAKS)
    tags.append('enc:%r%r%r:%r' % (term, ele, sub, brk))
    return cat, tags, map_file, encode(doc, term, ele, sub, brk, icvn, deco)


# ------------------------------------------------------------------------------------ judging one file

def values_of(text, h):
    term, ele, sub = h
    return [trimmed(s) for s in split_doc(text, term, ele, sub)]


def empty_isa16(segs):
    return any(sid == 'ISA' and len(e) == 16 and e[15] == [''] for sid, e in segs[1:])


def judge(cat, seen, runs, second, reread, dest):
    """the oracle clauses on the observations of one file; returns [(key, what, argv, required)]"""
    bad = []
    h = header_of(seen)
    for (eol, fix), got in sorted(runs.items()):
        argv = flags(eol, fix)
        want = want_text(seen, eol, fix)
        if got[0] == 'C':
            bad.append(('crash:%s:%s' % (got[1], got[2]), 'main() raised %s' % got[1], argv, 'no exception other than X12Error'))
            continue
        if got[0] == 'X' or want[0] == 'X':
            if got[0] != want[0]:
                bad.append(('pred:refusal-differs', 'main() %s, required %s' % (got[0], want[0]), argv,
                            'X12Error exactly for a refused header or an ISA without 16 elements'))
            continue
        out = got[1]
        term, ele, sub = h
        ins = values_of(seen, h)
        ho = header_of(out)
        # delimiters
        if ho != h:
            bad.append(('pred:delimiters-changed', 'output header gives %r, input %r' % (ho, h), argv, 'same delimiters'))
            continue
        outs = values_of(out, h)
        if not fix and outs != ins:
            n = next((i for i, (a, b) in enumerate(zip(ins, outs)) if a != b), min(len(ins), len(outs)))
            bad.append(('pred:segments-not-preserved', 'segment %d differs (%d in, %d out)' % (n, len(ins), len(outs)), argv,
                        'same segments with the same values'))
        if fix:
            raw_in = split_doc(seen, term, ele, sub)
            rep, changed = repaired(raw_in, sub)
            rep = [trimmed(s) for s in rep]
            if len(outs) != len(ins):
                bad.append(('pred:segments-not-preserved', '%d segments in, %d out' % (len(ins), len(outs)), argv, 'same segments'))
            else:
                for i, (a, b, w) in enumerate(zip(ins, outs, rep)):
                    if b == w:
                        continue
                    if a[0] != b[0] or (a[1][1:] != b[1][1:] and not (i in changed and len(a[1]) == 0 and len(b[1]) == 1)):
                        bad.append(('pred:fix-alters-other-value', 'segment %d %s: %r -> %r' % (i, a[0], a[1][:4], b[1][:4]), argv,
                                    'only IEA01 / GE01 / SE01 / HL01 may change'))
                    elif i not in changed:
                        bad.append(('pred:fix-alters-correct-count', 'segment %d %s01 %r -> %r' % (i, a[0], a[1][:1], b[1][:1]), argv,
                                    'a count that is right stays as written'))
                    elif a[1][:1] == b[1][:1]:
                        bad.append(('pred:count-not-repaired', 'segment %d %s01 stays %r, recount %r' % (i, a[0], a[1][:1], w[1][:1]), argv,
                                    'a wrong count is replaced by the recount'))
                    else:
                        bad.append(('pred:count-repaired-wrongly', 'segment %d %s01 %r -> %r, recount %r' % (i, a[0], a[1][:1], b[1][:1], w[1][:1]),
                                    argv, 'the recount'))
                    break
            errs = reread.get((eol, fix))
            if errs is not None:
                left = [(sid, e) for sid, es in errs for e in es if e in COUNT_CODES]
                if left:
                    bad.append(('pred:count-error-remains-after-fix', 'reader reports %r on the output' % (left[:3],), argv,
                                'no IEA/GE/SE count error, no HL sequence error'))
                elif cat.startswith('A') or cat == 'clean':
                    other = [(sid, e) for sid, es in errs for e in es if e[0] in ENV_LEVELS or e[1] in ('HL1', 'HL2')]
                    if other:
                        bad.append(('pred:error-remains-after-fix', 'reader reports %r on the output' % (other[:3],), argv,
                                    'a document whose only defects were counts reads without envelope error'))
        if eol and term != '\n':
            lines = out.split('\n')
            ok = lines[-1] == '' and len(lines) - 1 == len(outs) and all(l.endswith(term) and l.count(term) == 1 for l in lines[:-1])
            if not ok and '\n' not in ''.join(ele.join(sub.join(c) for c in e) for _, e in ins):
                bad.append(('pred:not-one-segment-per-line', '%d lines for %d segments' % (len(lines) - 1, len(outs)), argv,
                            'each line holds exactly one segment'))
        if not eol and term != '\n' and not (out.endswith('\n') and '\n' not in out[:-1]) and '\n' not in seen.replace(term + '\n', term):
            bad.append(('pred:line-breaks-without-eol', 'output has line breaks', argv, 'one line'))
        if got != want and not any(b[2] == argv for b in bad):
            bad.append(('pred:output-differs-from-required-text', 'first difference at %d' % next(
                (i for i, (a, b) in enumerate(zip(out, want[1])) if a != b), min(len(out), len(want[1]))), argv, 'the required text'))
        # idempotence
        sec = second.get((eol, fix))
        if sec is not None and sec != got:
            if sec[0] == 'X' and empty_isa16(split_doc(seen, term, ele, sub)):
                bad.append(('pred:output-refused:empty-isa16-trimmed', 'normalising the output raises X12Error', argv,
                            'normalising the output changes nothing'))
            else:
                bad.append(('pred:not-idempotent', 'second pass gives %s' % (sec[0] if sec[0] != 'K' else 'another text'), argv,
                            'normalising the output changes nothing'))
    for (kind, eol, fix), (got, content) in sorted(dest.items()):
        base = runs[(eol, fix)]
        argv = flags(eol, fix) + (['-o', '<out>'] if kind == 'o' else ['-i'])
        if base[0] != 'K':
            if got[0] != base[0]:
                bad.append(('pred:destinations-differ', '%s: %s, stdout run: %s' % (kind, got[0], base[0]), argv, 'same outcome'))
            continue
        if got[0] != 'K':
            bad.append(('pred:destinations-differ', '%s: %s, stdout run: K' % (kind, got[0]), argv, 'same outcome'))
        elif content != base[1] or got[1] != '':
            if kind == 'o' and content == '':
                bad.append(('pred:output-file-not-written', '-o leaves an empty file (%d characters expected)' % len(base[1]), argv,
                            'the file named by -o holds the text that goes to stdout without -o'))
            else:
                bad.append(('pred:destinations-differ', '%s gives another text than stdout' % ('-o' if kind == 'o' else '-i'), argv,
                            '-o, -i and stdout produce the same text'))
    return bad


def observe_file(wd, name, content, full=True):
    """all runs of main() for one file; returns (seen, runs, second, reread, dest)"""
    src = os.path.join(wd, name + '.x12')
    write_raw(src, content)
    with open(src, 'r', encoding='ascii') as f:
        seen = f.read()
    runs, second, reread, dest = {}, {}, {}, {}
    tmp = os.path.join(wd, name + '.tmp')
    outp = os.path.join(wd, name + '.out')
    for eol, fix in OPTS:
        got = run_main(flags(eol, fix) + [src])
        runs[(eol, fix)] = got
        if got[0] == 'K':
            write_raw(tmp, got[1])
            second[(eol, fix)] = run_main(flags(eol, fix) + [tmp])
            if fix:
                try:
                    reread[(eol, fix)] = reader_errors(tmp)
                except common.Infra:
                    raise
                except Exception as e:
                    reread[(eol, fix)] = [(None, [('exception', type(e).__name__)])]
        if full:
            if os.path.exists(outp):
                os.remove(outp)
            g = run_main(flags(eol, fix) + ['-o', outp, src])
            dest[('o', eol, fix)] = (g, read_raw(outp) if os.path.exists(outp) else None)
            shutil.copyfile(src, tmp)
            g = run_main(flags(eol, fix) + ['-i', tmp])
            c = read_raw(tmp)
            dest[('i', eol, fix)] = (g, c if g[0] == 'K' else None)
            if g[0] != 'K' and c != content:
                dest[('i', eol, fix)] = (('C', 'file-changed', 'in place run failed but the file was rewritten'), c)
    for p in (tmp, outp, src):
        if os.path.exists(p):
            os.remove(p)
    return seen, runs, second, reread, dest


def model_lines(seen):
    return [common.line('C20N', int(e), int(f), seen) for e, f in OPTS]


def model_result(line):
    f = line.split('\t')
    if f[0] == 'K':
        return ('K', common.unesc(f[1]) if len(f) > 1 else '')
    if f[0] in ('E', 'R'):
        return ('X',)
    if f[0] == 'C':
        return ('C',)
    raise common.Infra('model: ' + line[:200])


# ------------------------------------------------------------------------------------ one chunk of cases

def work(args):
    seed, lo, hi, with_model = args
    wd = os.path.join(common.WORK, 'c20-%d-%d' % (os.getpid(), lo))
    os.makedirs(wd, exist_ok=True)
    agg = {'n': 0, 'runs': 0, 'cat': {}, 'tags': {}, 'maps': set(), 'hashes': set(), 'viol': {}, 'broke': [], 'samples': [], 'dis': 0,
           'repairs': 0, 'outcomes': {}}
    try:
        cases = []
        lines = []
        prev = None
        for c in range(lo, hi):
            cat, tags, map_file, content = gen_case(seed, c)
            seen, runs, second, reread, dest = observe_file(wd, 'f%d' % c, content)
            cases.append((c, cat, tags, map_file, content, seen, runs))
            agg['n'] += 1
            agg['runs'] += len(runs) + len(second) + len(dest)
            agg['cat'][cat] = agg['cat'].get(cat, 0) + 1
            agg['maps'].add(map_file)
            for t in tags:
                t = t if not t.startswith('enc:') else 'enc'
                agg['tags'][t] = agg['tags'].get(t, 0) + 1
            for g in runs.values():
                agg['outcomes'][g[0]] = agg['outcomes'].get(g[0], 0) + 1
            if runs[(False, True)][0] == 'K' and runs[(False, False)] != runs[(False, True)]:
                agg['repairs'] += 1
            for key, what, argv, required in judge(cat, seen, runs, second, reread, dest):
                agg['viol'].setdefault(key, []).append((
                    '%s (%s, options %s)' % (what, cat, ' '.join(argv) or 'none'),
                    {'document': content, 'argv': argv, 'category': cat, 'tags': tags, 'map': map_file,
                     'call': 'pyx12.scripts.x12norm.main() with sys.argv = [x12norm] + argv + [file holding the document]',
                     'observed': what, 'required': required}))
            # several inputs in one invocation: each file is treated as if it were given alone (longer file first and
            # shorter file first; in place and to stdout)
            if prev is not None and c % 3 == 0:
                pcontent, pruns = prev
                for eol, fix in (OPTS[c % len(OPTS)], OPTS[(c + 1) % len(OPTS)]):
                    if pruns[(eol, fix)][0] != 'K' or runs[(eol, fix)][0] != 'K':
                        continue
                    for order in ((pcontent, pruns, content, runs), (content, runs, pcontent, pruns)):
                        pa, pb = os.path.join(wd, 'm%da.x12' % c), os.path.join(wd, 'm%db.x12' % c)
                        write_raw(pa, order[0])
                        write_raw(pb, order[2])
                        argv = flags(eol, fix) + ['-i', pa, pb]
                        g = run_main(argv)
                        ca, cb = read_raw(pa), read_raw(pb)
                        agg['runs'] += 1
                        wa, wb = order[1][(eol, fix)][1], order[3][(eol, fix)][1]
                        if g[0] != 'K' or ca != wa or cb != wb:
                            which = 'first' if ca != wa else 'second'
                            got = ca if ca != wa else cb
                            want = wa if ca != wa else wb
                            agg['viol'].setdefault('pred:several-inputs-differ', []).append((
                                'two input files in one in-place invocation (options %s): the %s file ends as %r..., alone it is normalised to %r...' % (
                                    ' '.join(flags(eol, fix)) or 'none', which, (got or '')[-120:], (want or '')[-120:]),
                                {'documents': [order[0], order[2]], 'argv': flags(eol, fix) + ['-i', '<file 1>', '<file 2>'], 'category': cat,
                                 'call': 'pyx12.scripts.x12norm.main() with two input files', 'observed': g[0],
                                 'required': 'each file rewritten exactly as when given alone'}))
                        write_raw(pa, order[0])
                        write_raw(pb, order[2])
                        g = run_main(flags(eol, fix) + [pa, pb])
                        agg['runs'] += 1
                        if g != ('K', wa + wb):
                            agg['viol'].setdefault('pred:several-inputs-differ', []).append((
                                'two input files to stdout (options %s): output differs from the two single-file outputs in order' % (' '.join(flags(eol, fix)) or 'none'),
                                {'documents': [order[0], order[2]], 'argv': flags(eol, fix) + ['<file 1>', '<file 2>'], 'category': cat,
                                 'call': 'pyx12.scripts.x12norm.main() with two input files', 'observed': repr(g)[:300],
                                 'required': 'concatenation of the single-file outputs'}))
                        for q in (pa, pb):
                            if os.path.exists(q):
                                os.remove(q)
            prev = (content, runs)
            import hashlib
            for eol, fix in OPTS:
                agg['hashes'].add(hashlib.blake2b(repr((content, eol, fix)).encode('utf-8', 'surrogatepass'), digest_size=8).digest())
            if with_model:
                lines.extend(model_lines(seen))
            if len(agg['samples']) < 2 and c >= len(FIXED):
                agg['samples'].append({'category': cat, 'map': map_file, 'tags': tags[:8], 'segments': content.count(header_of(seen)[0]) if header_of(seen) else 0,
                                       'outcomes': {''.join(flags(e, f)) or '-': g[0] for (e, f), g in runs.items()}})
        if with_model:
            model = common.run_model(lines)
            for n, (c, cat, tags, map_file, content, seen, runs) in enumerate(cases):
                for k, (eol, fix) in enumerate(OPTS):
                    m = model_result(model[4 * n + k])
                    got = runs[(eol, fix)]
                    got_c = ('C',) if got[0] == 'C' else got
                    agg['dis'] += 1
                    if m != got_c:
                        want = want_text(seen, eol, fix)
                        if got_c == want:
                            agg['broke'].append(('correspondence:norm', 'case %d (%s) options %s: model %s, code %s; document %r' % (
                                c, cat, flags(eol, fix), m[0], got[0], content[:400])))
                        elif not any(True for key in agg['viol']):
                            agg['broke'].append(('correspondence:norm', 'case %d (%s) options %s: model %s, code %s, required %s' % (
                                c, cat, flags(eol, fix), m[0], got[0], want[0])))
    finally:
        shutil.rmtree(wd, ignore_errors=True)
    return agg


def merge(total, a):
    for k in ('n', 'runs', 'dis', 'repairs'):
        total[k] = total.get(k, 0) + a[k]
    for k in ('cat', 'tags', 'outcomes'):
        d = total.setdefault(k, {})
        for x, n in a[k].items():
            d[x] = d.get(x, 0) + n
    total.setdefault('maps', set()).update(a['maps'])
    total.setdefault('hashes', set()).update(a['hashes'])
    for key, items in a['viol'].items():
        total.setdefault('viol', {}).setdefault(key, []).extend(items)
    total.setdefault('broke', []).extend(a['broke'])
    total.setdefault('samples', []).extend(a['samples'])


def run(tier):
    res = common.Result('C20', tier)
    res.cov['rule'] = ('a case is (file content, eol, fix); distinct by that value; every generated file is non-trivial (count defects, '
                       'other defects, structural mutation or a non-canonical encoding); each case is run to stdout, a second time on its '
                       'own output, with -o and with -i')
    built = common.proof_stage(res, 'C20')
    files = 20000 if tier == 'thorough' else 300
    seed = common.seed()
    total = {}
    if tier == 'thorough':
        import multiprocessing
        step = 250
        jobs = [(seed, lo, min(lo + step, files), built) for lo in range(0, files, step)]
        with multiprocessing.Pool(min(16, os.cpu_count() or 2)) as pool:
            for a in pool.imap_unordered(work, jobs):
                merge(total, a)
    else:
        merge(total, work((seed, 0, files, built)))
    res.count(total['n'] * len(OPTS))
    res._seen = total['hashes']
    for key, items in sorted(total.get('viol', {}).items()):
        first = items[0]
        for it in items:
            res.violation(key, first[0], first[1])
    for name, detail in total.get('broke', [])[:10]:
        res.broke(name, detail)
    for s in total.get('samples', [])[:5]:
        res.sample(s)
    res.notes['input_distribution'] = {'files': total['n'], 'category': total['cat'], 'defect_and_encoding_tags': total['tags'],
                                       'maps_used': len(total['maps'] - {'-'}), 'main_calls': total['runs'],
                                       'outcomes (K text, X X12Error, C other exception)': total['outcomes'],
                                       'files_changed_by_fix': total['repairs']}
    res.notes['disagreements_checked'] = total['dis']
    res.notes['exhaustive'] = False
    res.assumptions = ['ASCII files (the code opens with encoding ascii); a path is opened in text mode, so CR and CRLF reach the reader as LF: '
                       'model and required text are computed on the translated content',
                       'one input file per call; --verbose/--quiet/--debug are parsed and never used by main()',
                       '"same values" is up to the documented normalisation of Segment.format: trailing empty elements and trailing '
                       'empty components are not printed',
                       'the one-per-line clause is judged for terminators other than LF and documents without LF inside a value',
                       'sys.get_int_max_str_digits() == 4300 (a count of more than 4300 digits is out of reach)']
    return res.finish(trusted=common.TRUSTED_COMMON + [
        'modelled: x12norm.main() loop, option handling of eol/fixcounting, the three destinations as one text; argparse, glob, '
        'tempfile and file I/O are exercised by the harness only',
        'Python statement of the required output (split_doc, recount, print_seg), written independently of the Lean text'])


def replay(d):
    r = d['replay']
    if 'document' not in r:
        print('nothing to re-execute: %s' % d.get('what'))
        return 1
    wd = os.path.join(common.WORK, 'c20-replay-%d' % os.getpid())
    os.makedirs(wd, exist_ok=True)
    try:
        seen, runs, second, reread, dest = observe_file(wd, 'replay', r['document'])
        bad = judge(r.get('category', ''), seen, runs, second, reread, dest)
    finally:
        shutil.rmtree(wd, ignore_errors=True)
    print('document : %r' % r['document'][:300])
    for (eol, fix), g in sorted(runs.items()):
        print('main %-6s -> %s' % (' '.join(flags(eol, fix)) or '(none)', g[0] if g[0] != 'K' else repr(g[1][:120])))
    for (kind, eol, fix), (g, content) in sorted(dest.items()):
        print('main %-6s %s -> %s, file holds %s characters' % (' '.join(flags(eol, fix)), '-o' if kind == 'o' else '-i', g[0],
                                                                 'no' if content is None else len(content)))
    for key, what, argv, required in bad:
        print('fails    : %s  %s  [%s]  (required: %s)' % (key, what, ' '.join(argv), required))
    keys = [b[0] for b in bad]
    return 1 if d.get('key') in keys or (bad and d.get('key', '').startswith('broken')) else 0
