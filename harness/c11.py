"""
C11 - the writer always emits balanced envelopes with correct counts.

Theorems (lean/Pyx12Verif/Props/C11.lean) about the model of X12Writer (Model/Writer.lean, on top of the shared
X12Base bookkeeping of Model/Envelope.lean): non-trailer segments are written unchanged and in order; every trailer is
generated with its header's control number and the structural recount; after Close at any prefix of a well-nested
history the model of X12Reader reports no envelope error; the ISA written carries the writer's delimiters.

Tie (this file): random well-nested write histories (random walk over the grammar: any number of interchanges /
groups / sets, supplied trailers with right / wrong / absurd content, trailers omitted wherever the grammar allows,
body segments with empty elements and components) x every prefix at which Close is called x delimiter settings
(pairwise distinct, eol '' / LF / CRLF, 4010 and 5010) are fed
  * to the real pyx12.x12file.X12Writer over an io.StringIO, the output re-read with the real X12Reader;
  * to the compiled Lean model (op C11W: text put on the stream by every Write and by Close after every prefix);
  * to an independent Python statement of the property: own tokeniser of the output, recursive-descent recount,
    expected non-trailer segments from the harness's own element lists.
impl != oracle -> violation with a rule-like key;  impl == oracle but impl != model -> correspondence broken.
A second stream of NOT well-nested histories (orphan trailers, trailers on an empty or too short stack, ISA without
16 elements, headers in any order) is compared model vs code only (what is written, refusal, crash).
"""
import hashlib
import io
import os
import random
import traceback

from . import common

ENV_IDS = ('ISA', 'IEA', 'GS', 'GE', 'ST', 'SE')
TRAILERS = ('IEA', 'GE', 'SE')
ENV_KINDS = ('isa', 'gs', 'st')
DELIM_POOL = list('~*:^|!><+\\{}[]#@;&%$\'"?=/,`')
VALUE_CHARS = 'ABCDEFGHIJKLMNOPQRSTUVWXYZ0123456789 abcxyz.-'
BODY_IDS = ('REF', 'NM1', 'BHT', 'DTP', 'SV1', 'N3', 'N4', 'CLM', 'LX', 'HL', 'PER', 'TST', 'AK1', 'K3')
ISA_WIDTHS = (2, 10, 2, 10, 2, 15, 2, 15, 6, 4, 1, 5, 9, 1, 1, 1)


# ------------------------------------------------------------------------------------------ segments
# A segment is (id, [element]) and an element is a list of component strings.  The text handed to
# pyx12.segment.Segment and to the model is built here with the writer's delimiters.

def seg_text(seg, dl):
    return dl['ele'].join([seg[0]] + [dl['sub'].join(e) for e in seg[1]])


def simple(seg, i):
    """get_value of element i as the harness sees it: None when absent, components joined (trailing empty ones dropped)"""
    if i >= len(seg[1]):
        return None
    return '\x00'.join(norm_comp(seg[1][i]))


def norm_comp(comp):
    c = list(comp)
    while len(c) > 1 and c[-1] == '':
        c.pop()
    return c


def norm_seg(seg):
    """what Segment.format prints, stated independently: trailing empty components and trailing empty elements are
    dropped, the first element always stays"""
    els = [norm_comp(e) for e in seg[1]]
    while len(els) > 1 and all(v == '' for v in els[-1]):
        els.pop()
    return (seg[0], els or [['']])


def printed(seg, dl):
    s = norm_seg(seg)
    return s[0] + dl['ele'] + dl['ele'].join(dl['sub'].join(e) for e in s[1])


def expected_isa(seg, dl):
    """the ISA as it has to appear: ISA16 = component separator, ISA11 = repetition separator for 00501"""
    els = [list(e) for e in seg[1]]
    if len(els) == 16:
        if els[11] == ['00501']:
            els[10] = [dl['rep']]
        els[15] = [dl['sub']]
    return ('ISA', els)


# ------------------------------------------------------------------------------------------ generators

def rnd_value(rnd, lo=1, hi=6):
    n = rnd.randint(lo, hi)
    s = ''.join(rnd.choice(VALUE_CHARS) for _ in range(n))
    return s


def gen_delims(rnd, tags):
    chars = rnd.sample(DELIM_POOL, 4)
    r = rnd.random()
    if r < 0.3:
        chars = ['~', '*', ':', '^']
        tags.append('delims:default')
    elif r < 0.36:
        chars = ['~', '*', '\\', '^']
        tags.append('delims:constructor-default')
    elif r < 0.44:
        chars[0] = '\n'
        tags.append('delims:newline-terminator')
    elif r < 0.5:
        chars[rnd.randint(1, 3)] = rnd.choice(['\x1d', '\x1e', '\x1f', '\x1c'])
        tags.append('delims:control-char')
    else:
        tags.append('delims:random-punctuation')
    eol = rnd.choice(['', '\n', '\n', '\r\n'])
    if chars[0] == '\n':
        eol = ''          # an eol that contains the terminator would only add empty segments
    tags.append('eol:' + {'': 'none', '\n': 'LF', '\r\n': 'CRLF'}[eol])
    return {'seg': chars[0], 'ele': chars[1], 'sub': chars[2], 'rep': chars[3], 'eol': eol}


DFLT_AVOID = {'seg': '~', 'ele': '*', 'sub': ':', 'rep': '^'}


def mk_isa(rnd, ctl, icvn, standard=True, dl=DFLT_AVOID):
    free = [ch for ch in 'U:^>X|+' if ch not in dl.values()]
    if standard:
        vals = []
        for i, w in enumerate(ISA_WIDTHS):
            if i == 12:
                vals.append(ctl)
            elif i == 11:
                vals.append(icvn)
            elif i in (10, 15):
                vals.append(rnd.choice(free))
            elif i in (1, 3):
                vals.append(' ' * w)
            else:
                vals.append(''.join(rnd.choice('ABCZ0123456789') for _ in range(w)))
    else:
        vals = [rnd_value(rnd, 1, 4) for _ in range(16)]
        vals[12] = ctl
        vals[11] = icvn
    return ('ISA', [[v] for v in vals])


def mk_gs(rnd, ctl):
    return ('GS', [['HC'], [rnd_value(rnd)], [rnd_value(rnd)], ['20030828'], ['1128'], [ctl], ['X'], ['004010X098A1']])


def mk_st(rnd, ctl):
    e = [[rnd.choice(['837', '835', '270', '999'])], [ctl]]
    if rnd.random() < 0.3:
        e.append(['005010X222'])
    return ('ST', e)


def absurd(rnd):
    return rnd.choice(['X', '', '-1', '1e3', '9' * 30, ' 3 ', '+2', '0x10', '1_0', 'None', '3.0'])


def mk_trailer(rnd, sid, true_count, true_ctl, tags):
    """a supplied trailer: the writer must ignore its content"""
    r = rnd.random()
    if r < 0.4:
        cnt = '%d' % true_count
        tags.append('supplied-count:right')
    elif r < 0.7:
        cnt = '%d' % rnd.choice([true_count + 1, max(0, true_count - 1), 0, true_count + 10])
        tags.append('supplied-count:wrong')
    elif r < 0.92:
        cnt = absurd(rnd)
        tags.append('supplied-count:absurd')
    else:
        tags.append('supplied-trailer:no-elements')
        return (sid, [])
    r = rnd.random()
    if r < 0.5:
        ctl = true_ctl
        tags.append('supplied-ctl:right')
    elif r < 0.8:
        ctl = rnd.choice([true_ctl + '0', '0' + true_ctl, '1', 'ZZ', true_ctl[::-1]])
        tags.append('supplied-ctl:wrong')
    elif r < 0.9:
        ctl = ''
        tags.append('supplied-ctl:empty')
    else:
        tags.append('supplied-ctl:absent')
        return (sid, [[cnt]])
    els = [[cnt], [ctl]]
    if rnd.random() < 0.1:
        els.append([rnd_value(rnd)])
    return (sid, els)


def gen_body_seg(rnd, hl_state, tags):
    sid = rnd.choice(BODY_IDS)
    if sid == 'HL':
        hl_state[0] += 1
        r = rnd.random()
        if r < 0.6:
            return ('HL', [['%d' % hl_state[0]], ['' if hl_state[0] == 1 else '%d' % rnd.randint(1, hl_state[0] - 1)], ['20'], ['1']])
        tags.append('body:hl-odd')
        return ('HL', [[rnd.choice(['X', '', '0', '7', ' 1'])], [rnd.choice(['X', '', '99', 'Y1'])]][:rnd.randint(0, 2)] +
                ([['22']] if rnd.random() < 0.5 else []))
    if sid == 'LX':
        return ('LX', [[rnd.choice(['1', '2', '7', 'X'])]])
    n = rnd.randint(0, 6)
    els = []
    for _ in range(n):
        r = rnd.random()
        if r < 0.55:
            els.append([rnd_value(rnd)])
        elif r < 0.75:
            els.append([''])
        else:
            k = rnd.randint(2, 4)
            els.append([rnd_value(rnd) if rnd.random() < 0.65 else '' for _ in range(k)])
    if n == 0:
        tags.append('body:no-elements')
    elif all(all(v == '' for v in e) for e in els):
        tags.append('body:all-elements-empty')
    elif all(v == '' for v in els[-1]):
        tags.append('body:trailing-empty-element')
    if any(len(e) > 1 for e in els):
        tags.append('body:composite')
    if any(len(e) > 1 and e[-1] == '' for e in els):
        tags.append('body:trailing-empty-component')
    if any(e == [''] for e in els[:-1]):
        tags.append('body:inner-empty-element')
    return (sid, els)


def fresh_ctl(rnd, used, width=None, dl=None):
    while True:
        r = rnd.random()
        if dl is not None and not width and rnd.random() < 0.12:
            # a control number containing a character that is a delimiter only in the DEFAULT set (~ * :), plain data here
            free = [ch for ch in '*:~' if ch not in dl.values()]
            if free:
                c = rnd.choice('ABC12') + rnd.choice(free) + rnd.choice('0123456789')
                if c not in used:
                    return c
        if width:
            c = ''.join(rnd.choice('0123456789') for _ in range(width)) if r < 0.85 else \
                ''.join(rnd.choice('ABC 0123456789') for _ in range(width))
            if c.strip() == '':
                continue
        elif r < 0.5:
            c = '%d' % rnd.randint(1, 30)
        elif r < 0.8:
            c = '%04d' % rnd.randint(1, 30)
        else:
            c = rnd_value(rnd, 1, 5)
            if c.strip() == '':
                continue
        if c not in used:
            return c


def gen_history(rnd, dl, tags):
    """random walk over the grammar  Interchange* ; Interchange = ISA Group* [IEA] ; Group = GS Set* [GE] ;
    Set = ST body* [SE],  a trailer omitted only when the next envelope event is an enclosing trailer or the end"""
    target = rnd.choice((1, 2, 3, 4, 5, 6, 7, 8, 9, 10, 11, 12, 13, 14, 16, 18, 22, 28, 34, 40))
    icvn = rnd.choice(['00401', '00501'])
    tags.append('icvn:' + icvn)
    p_dup = 0.25 if rnd.random() < 0.06 else 0.0
    segs = []
    level = 'top'
    isa_ids = []
    gs_ids = st_ids = None
    n_gs = n_st = n_seg = 0
    cur = {}
    hl_state = [0]
    while len(segs) < target:
        r = rnd.random()
        if level == 'top':
            if isa_ids and rnd.random() < p_dup:
                ctl = rnd.choice(isa_ids)
                tags.append('dup-control-number')
            else:
                ctl = fresh_ctl(rnd, isa_ids, 9)
            first = not segs
            ic = icvn if (first or rnd.random() < 0.8) else rnd.choice(['00401', '00501'])
            std = first or rnd.random() < 0.7
            if not std:
                tags.append('isa:later-non-standard-widths')
            segs.append(mk_isa(rnd, ctl, ic, std, dl))
            isa_ids.append(ctl)
            cur['isa'] = ctl
            gs_ids = []
            n_gs = 0
            level = 'isa'
        elif level == 'isa':
            if r < 0.68:
                if gs_ids and rnd.random() < p_dup:
                    ctl = rnd.choice(gs_ids)
                    tags.append('dup-control-number')
                else:
                    ctl = fresh_ctl(rnd, gs_ids, dl=dl)
                segs.append(mk_gs(rnd, ctl))
                gs_ids.append(ctl)
                cur['gs'] = ctl
                n_gs += 1
                st_ids = []
                n_st = 0
                level = 'gs'
            else:
                segs.append(mk_trailer(rnd, 'IEA', n_gs, cur['isa'], tags))
                level = 'top'
        elif level == 'gs':
            if r < 0.66:
                if st_ids and rnd.random() < p_dup:
                    ctl = rnd.choice(st_ids)
                    tags.append('dup-control-number')
                else:
                    ctl = fresh_ctl(rnd, st_ids, dl=dl)
                segs.append(mk_st(rnd, ctl))
                st_ids.append(ctl)
                cur['st'] = ctl
                n_st += 1
                n_seg = 1
                hl_state[0] = 0
                level = 'st'
            elif r < 0.92:
                segs.append(mk_trailer(rnd, 'GE', n_st, cur['gs'], tags))
                level = 'isa'
            else:
                tags.append('omitted:GE')
                segs.append(mk_trailer(rnd, 'IEA', n_gs, cur['isa'], tags))
                level = 'top'
        else:
            if r < 0.62:
                segs.append(gen_body_seg(rnd, hl_state, tags))
                n_seg += 1
            elif r < 0.86:
                segs.append(mk_trailer(rnd, 'SE', n_seg + 1, cur['st'], tags))
                level = 'gs'
            elif r < 0.95:
                tags.append('omitted:SE')
                segs.append(mk_trailer(rnd, 'GE', n_st, cur['gs'], tags))
                level = 'isa'
            else:
                tags.append('omitted:SE')
                tags.append('omitted:GE')
                segs.append(mk_trailer(rnd, 'IEA', n_gs, cur['isa'], tags))
                level = 'top'
    tags.append('history-ends-in:' + level)
    return segs


def gen_soup(rnd, dl, tags):
    """NOT well nested: envelope segments in any order, orphan trailers, ISA with a wrong element count"""
    segs = []
    n = rnd.randint(1, 12)
    kind = rnd.choice(('soup', 'orphan-first', 'double-trailer', 'short-stack', 'bad-isa'))
    tags.append('not-nested:' + kind)
    isa = mk_isa(rnd, fresh_ctl(rnd, [], 9), rnd.choice(['00401', '00501']), True, dl)
    if kind == 'orphan-first':
        segs.append(mk_trailer(rnd, rnd.choice(TRAILERS), 1, '1', []))
    elif kind == 'bad-isa':
        bad = ('ISA', isa[1][:rnd.choice((0, 1, 15, 12))] if rnd.random() < 0.7 else isa[1] + [['X']])
        if rnd.random() < 0.5:
            segs.append(isa)
        segs.append(bad)
    else:
        segs.append(isa)
    if kind == 'short-stack':
        segs.append(mk_trailer(rnd, rnd.choice(('GE', 'SE')), 0, '1', []))
    while len(segs) < n:
        k = rnd.choice(('ISA', 'GS', 'ST', 'SE', 'GE', 'IEA', 'SE', 'GE', 'IEA', 'REF', 'HL', 'body'))
        if k == 'ISA':
            segs.append(mk_isa(rnd, fresh_ctl(rnd, [], 9), '00401', rnd.random() < 0.5, dl))
        elif k == 'GS':
            segs.append(mk_gs(rnd, rnd.choice(['1', '2', '17'])) if rnd.random() < 0.85 else ('GS', [['HC']]))
        elif k == 'ST':
            segs.append(mk_st(rnd, rnd.choice(['0001', '0002'])) if rnd.random() < 0.85 else ('ST', [['837']] if rnd.random() < 0.7 else []))
        elif k in TRAILERS:
            segs.append(mk_trailer(rnd, k, rnd.randint(0, 3), rnd.choice(['1', '0001', 'Q']), []))
            if kind == 'double-trailer' and rnd.random() < 0.6:
                segs.append(mk_trailer(rnd, k, rnd.randint(0, 3), '1', []))
        elif k == 'body':
            segs.append(gen_body_seg(rnd, [0], []))
        else:
            segs.append((k, [[rnd_value(rnd)]]))
    return segs


ISA1 = ('ISA', [[v] for v in ['00', ' ' * 10, '00', ' ' * 10, 'ZZ', 'ZZ000' + ' ' * 10, 'ZZ', 'ZZ001' + ' ' * 10, '030828', '1128', 'U', '00401',
                              '000010121', '0', 'T', ':']])
ISA5 = ('ISA', [[v] for v in ['00', ' ' * 10, '00', ' ' * 10, 'ZZ', 'ZZ000' + ' ' * 10, 'ZZ', 'ZZ001' + ' ' * 10, '030828', '1128', 'U', '00501',
                              '000010122', '0', 'T', ':']])
GS1 = ('GS', [['HC'], ['A'], ['B'], ['20030828'], ['1128'], ['17'], ['X'], ['004010X098A1']])
ST1 = ('ST', [['837'], ['0001']])
DFLT = {'seg': '~', 'ele': '*', 'sub': ':', 'rep': '^', 'eol': '\n'}
FIXED = [
    # (category, delimiters, history)
    ('nested', DFLT, [ISA1, GS1, ST1, ('BHT', [['1']]), ('SE', [['3'], ['0001']]), ('GE', [['1'], ['17']]), ('IEA', [['1'], ['000010121']])]),
    ('nested', DFLT, [ISA1, GS1, ST1, ('BHT', [['1']])]),
    ('nested', DFLT, [ISA1, GS1, ST1, ('BHT', [['1']]), ('GE', [['77'], ['x']]), GS1[:1] + ([['HC'], ['A'], ['B'], ['2'], ['1'], ['18']],), ST1,
                      ('IEA', [])]),
    ('nested', dict(DFLT, seg='!', ele='|', sub='>', rep='+', eol=''), [ISA5, GS1, ST1, ('REF', [['A', '', ''], [''], ['']]), ('IEA', [['0']])]),
    ('nested', DFLT, [ISA1, ('IEA', [['5'], ['1']]), ISA5, GS1, ('GE', [['0'], ['17']]), ('IEA', [['1'], ['000010122']])]),
    ('not-nested', DFLT, [('GE', [['1'], ['1']])]),
    ('not-nested', DFLT, [ISA1, ('GE', [['1'], ['1']])]),
    ('not-nested', DFLT, [ISA1, GS1, ('SE', [['1'], ['1']]), ('SE', [['1'], ['1']])]),
    ('not-nested', DFLT, [ISA1, ('IEA', [['0'], ['1']]), ('IEA', [['0'], ['1']]), ('SE', [])]),
    ('not-nested', DFLT, [ISA1, ('ISA', ISA1[1][:15])]),
    ('not-nested', DFLT, [('ISA', [['1'], ['2']])]),
    ('not-nested', DFLT, [ISA1, ('ST', [['837']]), ('REF', [['1']]), ('GS', [['HC']]), ('IEA', [])]),
]


def gen_case(seed, c):
    """case number c of a run -> (category, tags, delimiters, history)"""
    if c < len(FIXED):
        cat, dl, segs = FIXED[c]
        return 'fixed:' + cat, [], dl, list(segs)
    rnd = random.Random(seed * 1000003 + c)
    tags = []
    dl = gen_delims(rnd, tags)
    if rnd.random() < 0.88:
        return 'nested', tags, dl, gen_history(rnd, dl, tags)
    return 'not-nested', tags, dl, gen_soup(rnd, dl, tags)


# ------------------------------------------------------------------------------------------ well-nestedness (the domain)

def level_after(segs):
    """the grammar as an automaton; None = not well nested"""
    level = 'top'
    for s in segs:
        sid = s[0]
        if level == 'top':
            nxt = {'ISA': 'isa'}.get(sid)
        elif level == 'isa':
            nxt = {'GS': 'gs', 'IEA': 'top'}.get(sid)
        elif level == 'gs':
            nxt = {'ST': 'st', 'GE': 'isa', 'IEA': 'top'}.get(sid)
        else:
            nxt = {'SE': 'gs', 'GE': 'isa', 'IEA': 'top'}.get(sid, None if sid in ENV_IDS else 'st')
        if nxt is None:
            return None
        level = nxt
    return level


def in_domain(segs, dl):
    """well nested, 16-element ISA with standard first header, control numbers present, non-empty and simple"""
    if level_after(segs) is None:
        return False
    for s in segs:
        if s[0] == 'ISA':
            if len(s[1]) != 16 or any(len(e) != 1 for e in s[1]) or s[1][12][0].strip() == '':
                return False
        elif s[0] == 'GS':
            if len(s[1]) < 6 or len(s[1][5]) != 1 or s[1][5][0] == '':
                return False
        elif s[0] == 'ST':
            if len(s[1]) < 2 or len(s[1][1]) != 1 or s[1][1][0] == '':
                return False
    return True


def scoped_duplicates(segs):
    """the header positions whose control number repeats an earlier one of its scope (ISA13 per file, GS06 per
    interchange, ST02 per group): the reader's 025 / 6 / 23"""
    out = {}
    isa, gs, st = [], [], []
    for i, s in enumerate(segs):
        if s[0] == 'ISA':
            c = simple(s, 12)
            if c in isa:
                out[i] = ('isa', '025')
            isa.append(c)
            gs = []
        elif s[0] == 'GS':
            c = simple(s, 5)
            if c in gs:
                out[i] = ('gs', '6')
            gs.append(c)
            st = []
        elif s[0] == 'ST':
            c = simple(s, 1)
            if c in st:
                out[i] = ('st', '23')
            st.append(c)
    return out


# ------------------------------------------------------------------------------------------ real code

def crash_key(e):
    tb = traceback.extract_tb(e.__traceback__)
    fr = None
    for f in tb:
        if 'pyx12' in f.filename and 'harness' not in f.filename:
            fr = f
    if fr is None:
        fr = tb[-1]
    return 'crash:%s:%s:%s' % (type(e).__name__, os.path.basename(fr.filename), fr.name)


def entry_points():
    try:
        import pyx12.x12file
        import pyx12.segment
        import pyx12.errors
        return pyx12.x12file.X12Writer, pyx12.x12file.X12Reader, pyx12.segment.Segment, pyx12.errors.X12Error
    except (ImportError, AttributeError) as e:
        raise common.Infra('entry point missing: %r' % (e,))


def run_writer(segs, dl, k, close=True, want_state=False):
    """write the first k segments with a new X12Writer, then Close.
    -> dict(end, m, emits, closed, where, state)   emits[i] = text put on the stream by the (i+1)-th Write"""
    Writer, _, Segment, X12Error = entry_points()
    fd = io.StringIO()
    try:
        wr = Writer(fd, dl['seg'], dl['ele'], dl['sub'], dl['eol'], dl['rep'])
    except TypeError as e:
        raise common.Infra('X12Writer constructor signature changed: %r' % (e,))
    emits = []
    end = 'ok'
    where = None
    pos = 0
    for s in segs[:k]:
        try:
            wr.Write(Segment(seg_text(s, dl), dl['seg'], dl['ele'], dl['sub']))
        except X12Error:
            end = 'raised'
        except Exception as e:
            end = 'crash:' + type(e).__name__
            where = crash_key(e)
        if end != 'ok':
            break
        v = fd.getvalue()
        emits.append(v[pos:])
        pos = len(v)
    state = None
    if want_state:
        try:
            state = (';'.join(kk + ('-' if i is None else '=' + common.esc(i)) for (kk, i) in wr.loops),
                     ','.join(str(x) for x in [wr.gs_count, wr.st_count, wr.seg_count, wr.hl_count, wr.lx_count]))
        except Exception:
            state = None
    closed = None
    if close:
        try:
            wr.Close()
            closed = fd.getvalue()[pos:]
        except Exception as e:
            end = 'crash:' + type(e).__name__
            where = crash_key(e)
    return {'end': end, 'm': len(emits), 'emits': emits, 'closed': closed, 'where': where, 'state': state}


def read_back(text):
    """-> (terms, [(segment text as the reader prints it, [(kind, code)])], cleanup errors) or ('error', repr)"""
    _, Reader, _, X12Error = entry_points()
    try:
        rd = Reader(io.StringIO(text))
    except X12Error as e:
        return ('refused', str(e)[:80])
    terms = rd.get_term()
    out = []
    for seg in rd:
        errs = [(e[0], e[1]) for e in rd.pop_errors()]
        out.append((seg.get_seg_id(), [seg.get_value('%02d' % (i + 1)) for i in range(len(seg))], errs))
    rd.cleanup()
    tail = [(e[0], e[1]) for e in rd.pop_errors()]
    return (terms, out, tail)


# ------------------------------------------------------------------------------------------ the property oracle

def tokenize(text, dl):
    """own tokeniser of the writer's output: pieces before each terminator, eol removed -> [(id, [element text])]"""
    toks = []
    pieces = text.split(dl['seg'])
    rest = pieces.pop()
    for p in pieces:
        if dl['eol'] and p.startswith(dl['eol']):
            p = p[len(dl['eol']):]
        f = p.split(dl['ele'])
        toks.append((f[0], f[1:]))
    return toks, rest


def is_count(text, n):
    return text is not None and text.isdigit() and text.isascii() and int(text) == n


def recount(toks):
    """recursive descent over the output: every envelope closed by its own trailer, trailer = (true count, header's
    control number).  -> list of (key, what)"""
    bad = []
    i = 0
    n = len(toks)

    def el(t, k):
        return t[1][k] if k < len(t[1]) else None

    def trailer(t, sid, count, ctl, what):
        if t is None or t[0] != sid:
            bad.append(('pred:unbalanced-output', '%s not closed by %s (found %s)' % (what, sid, t[0] if t else 'end of output')))
            return False
        if not is_count(el(t, 0), count):
            bad.append(('pred:trailer-count:' + sid, '%s carries count %r, the recount is %d' % (sid, el(t, 0), count)))
        if el(t, 1) != ctl:
            bad.append(('pred:trailer-control-number:' + sid, '%s carries %r, its header %r' % (sid, el(t, 1), ctl)))
        if len(t[1]) != 2:
            bad.append(('pred:trailer-shape:' + sid, '%s has %d elements' % (sid, len(t[1]))))
        return True

    while i < n:
        if toks[i][0] != 'ISA':
            bad.append(('pred:unbalanced-output', 'segment %d (%s) outside any interchange' % (i + 1, toks[i][0])))
            return bad
        isa = toks[i]
        i += 1
        groups = 0
        while i < n and toks[i][0] == 'GS':
            gs = toks[i]
            i += 1
            groups += 1
            sets = 0
            while i < n and toks[i][0] == 'ST':
                st = toks[i]
                i += 1
                sets += 1
                nseg = 1
                while i < n and toks[i][0] not in ENV_IDS:
                    i += 1
                    nseg += 1
                if not trailer(toks[i] if i < n else None, 'SE', nseg + 1, el(st, 1), 'set'):
                    return bad
                i += 1
            if not trailer(toks[i] if i < n else None, 'GE', sets, el(gs, 5), 'group'):
                return bad
            i += 1
        if not trailer(toks[i] if i < n else None, 'IEA', groups, el(isa, 12), 'interchange'):
            return bad
        i += 1
    return bad


def judge(segs, k, dl, text, rb, first_icvn):
    """the property on one closed prefix -> list of (key, what)"""
    bad = []
    toks, rest = tokenize(text, dl)
    if rest != '' and rest != dl['eol']:
        bad.append(('pred:output-tail', 'text after the last terminator: %r' % rest[:30]))
    # 1. every non-trailer segment unchanged and in order
    want = [printed(expected_isa(s, dl) if s[0] == 'ISA' else s, dl) for s in segs[:k] if s[0] not in TRAILERS]
    got = [dl['ele'].join([t[0]] + t[1]) for t in toks if t[0] not in TRAILERS]
    if got != want:
        j = next((x for x in range(min(len(got), len(want))) if got[x] != want[x]), min(len(got), len(want)))
        bad.append(('pred:non-trailer-segments-changed', 'non-trailer segment %d: written %r, expected %r' %
                    (j + 1, got[j][:60] if j < len(got) else None, want[j][:60] if j < len(want) else None)))
    # 2. balanced, trailers true
    bad += recount(toks)
    if k == 0:
        if text != '':
            bad.append(('pred:close-on-new-writer-writes', 'Close() on a new writer wrote %r' % text[:40]))
        return bad
    # 3. the reader accepts it
    if rb[0] == 'refused':
        bad.append(('pred:reader-refuses-output', rb[1]))
        return bad
    terms, rsegs, tail = rb
    dups = scoped_duplicates([s for s in segs[:k] if s[0] not in TRAILERS])
    nontr = [x for x in rsegs if x[0] not in TRAILERS]
    seen = set()
    pos = -1
    for x in rsegs:
        if x[0] not in TRAILERS:
            pos += 1
        for e in x[2]:
            if e[0] in ENV_KINDS:
                if x[0] not in TRAILERS and dups.get(pos) == e:
                    continue
                key = 'pred:reader-envelope-error:%s:%s' % e
                if key not in seen:
                    seen.add(key)
                    bad.append((key, 'reader reports %s:%s at %s' % (e[0], e[1], x[0])))
    for pos, e in dups.items():
        if pos < len(nontr) and e not in nontr[pos][2]:
            bad.append(('pred:duplicate-control-number-unreported', 'header %d' % (pos + 1)))
    for e in tail:
        if e[0] in ENV_KINDS:
            bad.append(('pred:reader-envelope-error:%s:%s' % e, 'reader reports %s:%s at end of input' % e))
    # reader's segments = expected non-trailer segments (values element by element)
    rwant = [norm_seg(expected_isa(s, dl) if s[0] == 'ISA' else s) for s in segs[:k] if s[0] not in TRAILERS]
    rgot = [(x[0], x[1]) for x in nontr]
    rwant2 = [(s[0], [dl['sub'].join(e) for e in s[1]]) for s in rwant]
    if rgot != rwant2:
        j = next((x for x in range(min(len(rgot), len(rwant2))) if rgot[x] != rwant2[x]), min(len(rgot), len(rwant2)))
        bad.append(('pred:reader-sees-other-segments', 'non-trailer segment %d: read %r, written %r' %
                    (j + 1, rgot[j] if j < len(rgot) else None, rwant2[j] if j < len(rwant2) else None)))
    # 4. the ISA carries the delimiters
    want_terms = (dl['seg'], dl['ele'], dl['sub'], dl['rep'] if first_icvn == '00501' else None)
    got_terms = (terms[0], terms[1], terms[2], terms[4])
    if got_terms != want_terms:
        bad.append(('pred:isa-delimiters', 'reader recovers %r, the writer was given %r' % (got_terms, want_terms)))
    return bad


# ------------------------------------------------------------------------------------------ one chunk of cases

def prefixes_of(rnd, n):
    if n <= 14:
        return list(range(0, n + 1))
    ks = set(rnd.sample(range(1, n), 10))
    ks.update((0, n))
    return sorted(ks)


def model_line(dl, segs):
    return common.line('C11W', dl['seg'], dl['ele'], dl['sub'], dl['rep'], dl['eol'], *[seg_text(s, dl) for s in segs])


def parse_model(ln):
    f = ln.split('\t')
    end = f[0]
    m = int(f[1])
    emits = [common.unesc(x) for x in f[2:2 + m]]
    closes = [common.unesc(x) for x in f[2 + m:2 + m + m + 1]]
    state = tuple(f[2 + 2 * m + 1:2 + 2 * m + 3])
    return end, m, emits, closes, state


def work(args):
    seed, lo, hi, with_model = args
    agg = {'n': 0, 'cat': {}, 'tags': {}, 'len': {}, 'prefixes': 0, 'closed_levels': {}, 'ends': {}, 'hashes': set(), 'viol': {},
           'broke': [], 'samples': [], 'dis': 0, 'state_cmp': 0, 'hdr_cmp': 0, 'out_segments': 0, 'generated_trailers': {}}
    cases = []
    lines = []
    for c in range(lo, hi):
        cat, tags, dl, segs = gen_case(seed, c)
        cases.append((c, cat, tags, dl, segs))
        if with_model:
            lines.append(model_line(dl, segs))
    model = common.run_model(lines) if with_model else None

    def bump(d, k, n=1):
        d[k] = d.get(k, 0) + n

    def viol(key, what, rep):
        agg['viol'].setdefault(key, [])
        agg['viol'][key].append((what, rep) if len(agg['viol'][key]) < 2 else None)

    def broke(name, detail):
        if len(agg['broke']) < 6:
            agg['broke'].append((name, detail))

    hdr_lines = []
    hdr_expect = []
    for idx, (c, cat, tags, dl, segs) in enumerate(cases):
        rnd = random.Random(seed * 7919 + c)
        n = len(segs)
        agg['n'] += 1
        bump(agg['cat'], cat)
        bump(agg['len'], min(n // 5 * 5, 40))
        for t in set(tags):
            bump(agg['tags'], t)
        if n >= 3:
            agg['hashes'].add(hashlib.blake2b(repr((sorted(dl.items()), segs)).encode('utf-8', 'surrogatepass'), digest_size=8).digest())
        nested = level_after(segs) is not None
        domain = nested and in_domain(segs, dl)
        full = run_writer(segs, dl, n, close=True, want_state=True)
        bump(agg['ends'], full['end'])
        m = full['m']
        rep0 = {'call': 'X12Writer(io.StringIO(), seg_term, ele_term, subele_term, eol, repetition_term); Write(Segment(text, ...)) '
                        'for the first k texts; Close(); output re-read with X12Reader',
                'delimiters': dl, 'segments': [seg_text(s, dl) for s in segs], 'case': c, 'seed': seed, 'category': cat}
        mod = parse_model(model[idx]) if model is not None else None
        if full['end'].startswith('crash:'):
            viol(full['where'], '%s at Write %d / Close (history of %d segments)' % (full['end'], m + 1, n), dict(rep0, k=n))
        # correspondence: what every Write put on the stream, how the history ended, final state
        if mod is not None:
            m_end, m_m, m_emits, m_closes, m_state = mod
            if (m_end, m_m, m_emits) != (full['end'], m, full['emits']):
                agg['dis'] += 1
                j = next((x for x in range(min(m, m_m)) if m_emits[x] != full['emits'][x]), min(m, m_m))
                broke('correspondence:Writer.write', 'case %d seed %d delims %r segments %r: code ends %s after %d writes, model %s after %d; '
                      'first difference at Write %d: code %r model %r' % (c, seed, dl, rep0['segments'][:8], full['end'], m, m_end, m_m, j + 1,
                                                                          full['emits'][j][:80] if j < m else None,
                                                                          m_emits[j][:80] if j < m_m else None))
            elif full['state'] is not None and full['end'] != 'raised':
                agg['state_cmp'] += 1
                # the model reports the state before Close; run_writer captured it before Close as well
                if tuple(full['state']) != m_state:
                    broke('correspondence:Writer.state', 'case %d seed %d segments %r: code %r model %r' %
                          (c, seed, rep0['segments'][:8], full['state'], m_state))
        first_icvn = segs[0][1][11][0] if segs and segs[0][0] == 'ISA' and len(segs[0][1]) == 16 else None
        ks = prefixes_of(rnd, m) if m == n else [k for k in prefixes_of(rnd, m)]
        for k in ks:
            if k == n:
                closed = full['closed']
                emits = full['emits']
            else:
                r = run_writer(segs, dl, k, close=True)
                if r['end'].startswith('crash:'):
                    viol(r['where'], '%s at Close after %d writes' % (r['end'], k), dict(rep0, k=k))
                    continue
                closed = r['closed']
                emits = r['emits']
                if emits != full['emits'][:k]:
                    broke('harness:writer-not-deterministic', 'case %d k %d' % (c, k))
            if closed is None:
                continue
            agg['prefixes'] += 1
            text = ''.join(emits) + closed
            if mod is not None and k < len(mod[3]) and mod[3][k] != closed:
                agg['dis'] += 1
                broke('correspondence:Writer.close', 'case %d seed %d delims %r segments %r: Close after %d writes: code %r model %r' %
                      (c, seed, dl, rep0['segments'][:k][-6:], k, closed[:100], mod[3][k][:100]))
            if not domain:
                continue
            rb = read_back(text) if k > 0 else None
            bad = judge(segs, k, dl, text, rb, first_icvn)
            toks, _ = tokenize(text, dl)
            agg['out_segments'] += len(toks)
            for t in tokenize(closed, dl)[0]:
                bump(agg['generated_trailers'], 'by-Close:' + t[0])
            lvl = level_after(segs[:k])
            bump(agg['closed_levels'], lvl)
            for key, what in bad:
                viol(key, 'Close after %d of %d writes: %s' % (k, n, what), dict(rep0, k=k, output=text[:3000]))
            if k > 0 and with_model and rb[0] != 'refused' and (k == n or k == ks[1]):
                hdr_lines.append(common.line('C11H', text[:200]))
                hdr_expect.append((c, rb[0]))
        if domain:
            for e in full['emits']:
                for t in tokenize(e, dl)[0]:
                    if t[0] in TRAILERS:
                        bump(agg['generated_trailers'], 'by-Write:' + t[0])
        if len(agg['samples']) < 3 and c % 499 == 7:
            agg['samples'].append({'case': c, 'category': cat, 'delimiters': dl, 'history': [seg_text(s, dl)[:50] for s in segs][:14],
                                   'output_after_close': (''.join(full['emits']) + (full['closed'] or ''))[:600],
                                   'model_agrees': None if mod is None else (mod[0], mod[2]) == (full['end'], full['emits'])})
    # model of the header parse on the real output vs the real reader's delimiters
    if hdr_lines:
        res = common.run_model(hdr_lines)
        for ln, (c, terms) in zip(res, hdr_expect):
            agg['hdr_cmp'] += 1
            f = [common.unesc(x) for x in ln.split('\t')]
            got = (f[1], f[2], f[3], None if f[4] == '-' else f[4][1:]) if f[0] == 'K' else None
            if got != (terms[0], terms[1], terms[2], terms[4]):
                broke('correspondence:Tokenizer.parseHeader', 'case %d: reader %r model %r' % (c, terms, f))
    return agg


def merge(total, a):
    for k in ('n', 'dis', 'state_cmp', 'hdr_cmp', 'prefixes', 'out_segments'):
        total[k] = total.get(k, 0) + a[k]
    for k in ('cat', 'tags', 'len', 'closed_levels', 'ends', 'generated_trailers'):
        d = total.setdefault(k, {})
        for x, n in a[k].items():
            d[x] = d.get(x, 0) + n
    total.setdefault('hashes', set()).update(a['hashes'])
    for key, items in a['viol'].items():
        total.setdefault('viol', {}).setdefault(key, []).extend(items)
    total.setdefault('broke', []).extend(a['broke'])
    total.setdefault('samples', []).extend(a['samples'])


def run(tier):
    res = common.Result('C11', tier)
    res.cov['rule'] = ('a case is (delimiter setting, write history); distinct by that value; non-trivial = at least 3 segments. Every case is '
                       'closed after every prefix (histories longer than 14: 12 prefixes incl. none and all). Categories: well-nested random '
                       'walks over the grammar (supplied trailer content right / wrong / absurd / missing, trailers omitted at every level, '
                       'control numbers reused across scopes, rarely duplicated within a scope), not-well-nested streams (model vs code only)')
    built = common.proof_stage(res, 'C11')
    entry_points()
    total_cases = 300000 if tier == 'thorough' else 5000
    seed = common.seed()
    total = {}
    if tier == 'thorough':
        import multiprocessing
        step = 2500
        jobs = [(seed, lo, min(lo + step, total_cases), built) for lo in range(0, total_cases, step)]
        with multiprocessing.Pool(min(16, os.cpu_count() or 2)) as pool:
            for a in pool.imap_unordered(work, jobs):
                merge(total, a)
    else:
        step = 2500
        for lo in range(0, total_cases, step):
            merge(total, work((seed, lo, min(lo + step, total_cases), built)))
    res.count(total['prefixes'])
    res._seen = total['hashes']
    for key, items in sorted(total.get('viol', {}).items()):
        first = [i for i in items if i is not None][0]
        for _ in items:
            res.violation(key, first[0], first[1])
    for name, detail in total.get('broke', [])[:10]:
        res.broke(name, detail)
    for s in total.get('samples', [])[:5]:
        res.sample(s)
    res.notes['input_distribution'] = {
        'histories': total['n'], 'closed_prefixes_evaluated': total['prefixes'], 'category': total['cat'],
        'history_length_bucket': {str(k): v for k, v in sorted(total['len'].items())},
        'level_at_which_close_was_called': total['closed_levels'],
        'generator_tags (histories having the feature)': dict(sorted(total['tags'].items())),
        'history_endings (code)': total['ends'],
        'trailers_generated': total['generated_trailers'], 'output_segments_recounted': total['out_segments']}
    res.notes['disagreements_checked'] = total['dis']
    res.notes['final_state_comparisons'] = total['state_cmp']
    res.notes['header_parse_comparisons'] = total['hdr_cmp']
    res.notes['exhaustive'] = False
    res.assumptions = [
        'segments are built with the writer\'s own delimiters (as every caller in pyx12 does); values contain no delimiter, no CR/LF, '
        'identifiers are upper-case alphanumerics',
        'delimiters are pairwise distinct punctuation / control characters (never a letter, digit or blank), the repetition separator included',
        'every ISA has 16 elements, the first one the standard field widths; every header carries a non-empty, simple control number '
        '(a missing or empty ST02/GS06/ISA13 is written as "None" / dropped from the generated trailer and differs on re-reading: outside the domain)',
        'duplicate control numbers within a scope (6% of the histories have some) must draw exactly the reader\'s duplicate error and nothing else',
        'counts below 10^4300 (Python int/str conversion limit)']
    return res.finish(trusted=common.TRUSTED_COMMON + [
        'modelled: X12Writer.Write, _popToLoop, _close_*, _get_trailer_segment, _write_isa_segment, Close on X12Base._parse_segment '
        '(Model/Envelope.lean), Segment parse/format (Model/SegText.lean, tied to the code by C01)',
        'Python oracle: own tokeniser + recursive-descent recount of the output, expected non-trailer segments from the harness\'s own '
        'element lists; real X12Reader for the acceptance clause'])


def replay(d):
    r = d['replay']
    if 'segments' not in r:
        print('nothing to re-execute: %s' % d.get('what'))
        for b in r.get('broken', []):
            print('  %s: %s' % (b.get('name'), str(b.get('detail'))[:600]))
        return 1
    dl = r['delimiters']
    k = r.get('k', len(r['segments']))
    segs = []
    for t in r['segments']:
        f = t.split(dl['ele'])
        segs.append((f[0], [e.split(dl['ele'] if f[0] == 'ISA' else dl['sub']) for e in f[1:]]))
    out = run_writer(segs, dl, k, close=True)
    text = ''.join(out['emits']) + (out['closed'] or '')
    print('history  : %s' % ' '.join(seg_text(s, dl)[:40] + dl['seg'] for s in segs[:k]))
    print('ending   : %s after %d writes' % (out['end'], out['m']))
    print('output   : %r' % text[:1500])
    keys = []
    if out['end'].startswith('crash:'):
        keys.append(out['where'])
        print('fails    : %s' % out['where'])
    elif in_domain(segs, dl):
        first_icvn = segs[0][1][11][0] if segs and segs[0][0] == 'ISA' and len(segs[0][1]) == 16 else None
        rb = read_back(text) if k > 0 else None
        for key, what in judge(segs, k, dl, text, rb, first_icvn):
            keys.append(key)
            print('fails    : %s  %s' % (key, what))
    return 1 if d.get('key') in keys or (keys and str(d.get('key', '')).startswith('broken')) else 0
