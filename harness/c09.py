"""
C09 - the context reader partitions the document without loss, duplication or reordering.

Proof side: lean/Pyx12Verif/Model/CtxReader.lean (X12ContextReader.iter_segments / _add_segment /
X12LoopDataNode._add_loop_node / _get_insert_idx / iterate_segments over *abstract walker answers*),
Props/C09.lean (partition, tree_is_maximal_instance, tree_shape_follows_path, positions_carried).

Tie, per generated document and per loop id (None + every segment-anchored loop id of the document's map):
  impl  = the real X12ContextReader(params, errh, StringIO(text)).iter_segments(lid): yielded plain nodes and trees
          (nested loop ids, formatted segments, seg_count, cur_line_number read through iterate_segments())
  want  = the property's oracle, computed without the context reader: reader segment list (X12Reader), instances
          counted from the generator's (segment, map node) list, map path of each segment
  model = the Lean driver op CTX on the abstract answers (segment, loop path, first-in-loop, pops, pushes, positions)
          obtained by driving the real walker (as walkcorr.py does)
"""
import io
import json
import os
import random

from . import common

ENVELOPE = ('ISA_LOOP', 'GS_LOOP', 'ST_LOOP')


# ------------------------------------------------------------------------------------ map helpers

def loop_path(node):
    """ids of the loops from the map root down to (and including) this loop node"""
    out = []
    while node is not None and not node.is_map_root():
        out.append(node.id)
        node = node.parent
    return out[::-1]


def seg_loop_path(node):
    return loop_path(node.parent)


def kids(n):
    """children of a map / loop node in position order (plain attribute read of pos_map)"""
    return [c for o in sorted(n.pos_map) for c in n.pos_map[o]]


def anchored_loop_ids(m):
    """loop ids of the map whose first child (by position) is a segment; envelope loops included"""
    out = []

    def rec(n):
        for c in kids(n):
            if c.is_loop():
                ch = kids(c)
                if ch and ch[0].is_segment() and c.id not in out:
                    out.append(c.id)
                rec(c)
    rec(m)
    return out


# ------------------------------------------------------------------------------------ reader + walker answers

def reader_view(text):
    """[(formatted segment, seg_count, cur_line)] from the plain X12Reader"""
    import pyx12.x12file
    src = pyx12.x12file.X12Reader(io.StringIO(text))
    out = []
    for seg in src:
        out.append((seg.format(), src.get_seg_count(), src.get_cur_line()))
    return out


class NullErrh:
    def add_seg(self, *a, **k):
        pass

    def seg_error(self, *a, **k):
        pass


def walker_answers(text):
    """Drive the real walker the way iter_segments does and return the abstract answers:
    [(formatted seg, [loop ids of the matched node], first-in-loop, node pos, [(pop loop path)], [(push loop path, pos)])]
    or (answers-so-far, reason) when the walker finds no node / a map is missing."""
    import pyx12.map_if
    import pyx12.map_index
    import pyx12.params
    import pyx12.x12file
    from pyx12.map_walker import walk_tree
    param = pyx12.params.params()
    src = pyx12.x12file.X12Reader(io.StringIO(text))
    ctl_name = 'x12.control.00501.xml' if src.icvn == '00501' else 'x12.control.00401.xml'
    control = _load(ctl_name, param)
    idx = _index()
    walker = walk_tree()
    errh = NullErrh()
    node = control.getnodebypath('/ISA_LOOP/ISA')
    cur_map = control
    map_file = ctl_name
    icvn = fic = vriic = None
    out = []
    for seg in src:
        orig = node
        pops, pushes = [], []
        sid = seg.get_seg_id()
        if sid == 'ISA':
            node = control.getnodebypath('/ISA_LOOP/ISA')
        elif sid == 'GS':
            node = control.getnodebypath('/ISA_LOOP/GS_LOOP/GS')
        else:
            (node, pops, pushes) = walker.walk(node, seg, errh, src.get_seg_count(), src.get_cur_line(), src.get_ls_id())
        if node is None:
            return out, 'walker-found-no-node'
        if sid == 'ISA':
            icvn = seg.get_value('ISA12')
        elif sid == 'GS':
            fic, vriic = seg.get_value('GS01'), seg.get_value('GS08')
            new = idx.get_filename(icvn, vriic, fic)
            if new != map_file:
                map_file = new
                if map_file is None:
                    return out, 'map-not-found'
                cur_map = _load(map_file, param)
                walker.counter.reset_to_node('/ISA_LOOP')
                walker.counter.increment('/ISA_LOOP')
                walker.counter.increment('/ISA_LOOP/ISA')
            walker.counter.reset_to_node('/ISA_LOOP/GS_LOOP')
            walker.counter.increment('/ISA_LOOP/GS_LOOP')
            walker.counter.increment('/ISA_LOOP/GS_LOOP/GS')
            node = cur_map.getnodebypath('/ISA_LOOP/GS_LOOP/GS')
            # the walker is not asked about GS; the loop transitions are the ones it reports for any other loop start
            if orig.parent.id == 'GS_LOOP':
                pops = [orig.parent]
            pushes = [node.parent]
        elif sid == 'BHT' and vriic in ('004010X094', '004010X094A1'):
            new = idx.get_filename(icvn, vriic, fic, seg.get_value('BHT02'))
            if new != map_file:
                map_file = new
                if map_file is None:
                    return out, 'map-not-found'
                cur_map = _load(map_file, param)
                node = cur_map.getnodebypath('/ISA_LOOP/GS_LOOP/ST_LOOP/HEADER/BHT')
        out.append((seg.format(), list(node.x12path.loop_list), bool(node.is_first_seg_in_loop()), int(node.pos),
                    [loop_path(p) for p in pops], [(loop_path(p), int(p.pos)) for p in pushes], node))
    return out, None


_MAPS = {}
_IDX = []


def _load(name, param):
    import pyx12.map_if
    if name not in _MAPS:
        _MAPS[name] = pyx12.map_if.load_map_file(name, param)
    return _MAPS[name]


def _index():
    import pyx12.map_index
    if not _IDX:
        _IDX.append(pyx12.map_index.map_index())
    return _IDX[0]


# ------------------------------------------------------------------------------------ real context reader

def node_view(n, depth=0):
    """structure of a yielded node, read through public attributes only:
    plain segment -> ('S', text, seg_count, line);  tree -> ('L', id, [children])"""
    if depth > 200:
        raise common.Infra('data tree deeper than 200')
    if n.type == 'loop':
        return ('L', n.id, [node_view(c, depth + 1) for c in n.children if c.type is not None])
    its = list(n.iterate_segments())
    if len(its) != 1:
        return ('S?', len(its))
    d = its[0]
    return ('S', d['segment'].format(), d['seg_count'], d['cur_line_number'])


def real_iter(text, lid):
    """('ok', [views], [flat segments via iterate_segments()]) or ('raise', key, message, views so far)"""
    import pyx12.error_handler
    import pyx12.params
    import pyx12.x12context
    if not hasattr(pyx12.x12context, 'X12ContextReader'):
        raise common.Infra('pyx12.x12context.X12ContextReader is missing')
    views, flat = [], []
    try:
        param = pyx12.params.params()
        errh = pyx12.error_handler.errh_null()
        rd = pyx12.x12context.X12ContextReader(param, errh, io.StringIO(text))
        for d in rd.iter_segments(lid):
            views.append(node_view(d))
            for s in d.iterate_segments():
                flat.append((s['segment'].format(), s['seg_count'], s['cur_line_number']))
    except common.Infra:
        raise
    except Exception as ex:
        import traceback
        tb = traceback.extract_tb(ex.__traceback__)
        fr = [f for f in tb if '/pyx12/' in f.filename and '/harness/' not in f.filename]
        f = fr[-1] if fr else tb[-1]
        key = 'crash:%s:%s:%s' % (type(ex).__name__, os.path.basename(f.filename), f.name)
        return ('raise', key, '%s: %s' % (type(ex).__name__, str(ex)[:200]), views)
    return ('ok', views, flat)


# ------------------------------------------------------------------------------------ oracle (independent of the context reader)

def leaves(view, under=()):
    """[(text, seg_count, line, (loop ids from the tree root down to the segment's parent))]"""
    if view[0] == 'S':
        return [(view[1], view[2], view[3], under)]
    if view[0] == 'L':
        out = []
        for c in view[2]:
            out.extend(leaves(c, under + (view[1],)))
        return out
    return [('?', None, None, under)]


def expected_instances(wpaths, lid):
    """independent recount on the per-segment (map loop path, first-in-loop) list: an instance of `lid` starts at every
    segment that is the first segment of a loop named lid; it extends up to the next segment whose map path does not
    contain lid, or the next instance start.  Returns [(start, end exclusive)]."""
    spans = []
    start = None
    for i, (lp, first) in enumerate(wpaths):
        inside = lid in lp
        starts = inside and lp[-1] == lid and first
        if start is not None and (not inside or starts):
            spans.append((start, i))
            start = None
        if starts:
            start = i
    if start is not None:
        spans.append((start, len(wpaths)))
    return spans


def generator_instances(gsegs, lid):
    """the same count from the generator's (segment, map node) list (None when the generator's map is another one)"""
    n = 0
    for seg, node in gsegs:
        lp = seg_loop_path(node)
        if lp and lp[-1] == lid and kids(node.parent)[0] is node:
            n += 1
    return n


def oracle(lid, views, flat, rview, wpaths):
    """list of (rule key, message) the real output violates; empty = the property holds on this case"""
    bad = []
    want_flat = [(t, c, l) for (t, c, l) in rview]
    got_txt = [f[0] for f in flat]
    want_txt = [f[0] for f in want_flat]
    if got_txt != want_txt:
        if len(got_txt) < len(want_txt) and got_txt == want_txt[:len(got_txt)]:
            bad.append(('pred:partition:tail-lost', 'the last %d of %d segments are never yielded (first lost: %r)' % (
                len(want_txt) - len(got_txt), len(want_txt), want_txt[len(got_txt)][:40])))
        elif sorted(got_txt) == sorted(want_txt):
            bad.append(('pred:partition:reordered', 'segments yielded in a different order'))
        elif len(got_txt) > len(want_txt):
            bad.append(('pred:partition:duplicated', '%d segments yielded for %d read' % (len(got_txt), len(want_txt))))
        else:
            bad.append(('pred:partition:lost', '%d segments yielded for %d read' % (len(got_txt), len(want_txt))))
        if bad[0][0] != 'pred:partition:tail-lost':
            return bad
        want_flat = want_flat[:len(flat)]       # what was yielded is a prefix: keep checking it
    if [(f[1], f[2]) for f in flat] != [(f[1], f[2]) for f in want_flat]:
        k = next(i for i in range(len(flat)) if tuple(flat[i][1:]) != tuple(want_flat[i][1:]))
        bad.append(('pred:positions', 'segment %d %r carries (seg_count, line) %r, the reader had %r' % (
            k, flat[k][0][:30], tuple(flat[k][1:]), tuple(want_flat[k][1:]))))
    trees = [v for v in views if v[0] == 'L']
    odd = [v for v in views if v[0] not in ('L', 'S')]
    if odd:
        bad.append(('pred:node-kind', 'a yielded node is neither a segment nor a tree: %r' % (odd[0],)))
    if lid is None:
        if trees:
            bad.append(('pred:tree-without-loop-id', '%d trees yielded although no loop id was given' % len(trees)))
        return bad
    spans = expected_instances(wpaths, lid)
    if bad and bad[0][0] == 'pred:partition:tail-lost':
        spans = spans[:len(trees)]
    if len(trees) != len(spans):
        bad.append(('pred:tree-count', '%d trees yielded, the document has %d instances of %s' % (len(trees), len(spans), lid)))
    if any(t[1] != lid for t in trees):
        bad.append(('pred:tree-root', 'a tree is rooted at %r, requested %r' % (next(t[1] for t in trees if t[1] != lid), lid)))
    if [b for b in bad if b[0] != 'pred:partition:tail-lost']:
        return bad
    # extents and shape: walk the yields in order against the per-segment map paths
    pos = 0
    ti = 0
    for v in views:
        if v[0] == 'S':
            if lid in wpaths[pos][0]:
                bad.append(('pred:segment-of-instance-outside-tree', 'segment %d %r belongs to an instance of %s but is yielded plain' % (
                    pos, v[1][:30], lid)))
                return bad
            pos += 1
            continue
        lv = leaves(v)
        a, b = spans[ti]
        ti += 1
        if pos != a or len(lv) != b - a:
            bad.append(('pred:tree-extent', 'tree %d holds segments [%d,%d), the instance is [%d,%d)' % (ti - 1, pos, pos + len(lv), a, b)))
            return bad
        for k, (t, c, l, under) in enumerate(lv):
            lp = wpaths[pos + k][0]
            want_under = tuple(lp[lp.index(lid):])
            if want_under != tuple(under):
                bad.append(('pred:tree-shape:' + lid if lid in ENVELOPE else 'pred:tree-shape',
                            'segment %d %r matched %s but sits under %s' % (pos + k, t[:30], '/'.join(lp), '/'.join(under))))
                return bad
        pos += len(lv)
    return bad


# ------------------------------------------------------------------------------------ model side

class Interner:
    def __init__(self):
        self.ids = {}

    def __call__(self, s):
        if s not in self.ids:
            self.ids[s] = len(self.ids) + 1
        return self.ids[s]


def model_line(answers, rview, lids):
    """CTX op for one document; returns (line, interner).  Segment text is interned by source index."""
    I = Interner()
    nums = []
    for k, (txt, lp, first, pos, pops, pushes, _node) in enumerate(answers):
        ppos = _node.parent.pos
        nums += [k, rview[k][1], rview[k][2], len(lp)] + [I(x) for x in lp] + [1 if first else 0, pos, int(ppos), len(pops)]
        for p in pops:
            nums += [len(p)] + [I(x) for x in p]
        nums.append(len(pushes))
        for p, ppos2 in pushes:
            nums += [len(p)] + [I(x) for x in p] + [ppos2]
    for l in lids:
        if l is not None:
            I(l)
    lid_field = ' '.join('-' if l is None else str(I(l)) for l in lids)
    return 'CTX\t%s\t%s' % (lid_field, ' '.join(str(n) for n in nums)), I


def canon_view(v, text_index, I):
    """the model's reply syntax for a real view; text_index maps (seg text, occurrence cursor) -> source index"""
    if v[0] == 'S':
        return 's%s,%s,%s' % (text_index(v[1]), v[2], v[3])
    if v[0] == 'L':
        return '[%d %s]' % (I(v[1]), ''.join(canon_view(c, text_index, I) + ' ' for c in v[2]))
    return '?'


class TextIndex:
    """source index of the next yielded segment: the k-th yielded leaf is matched against the k-th source segment when
    the texts agree (the partition oracle reports the cases where they do not), else looked up by text"""

    def __init__(self, rview):
        self.rview = rview
        self.k = 0
        self.by_text = {}
        for i, r in enumerate(rview):
            self.by_text.setdefault(r[0], i)

    def __call__(self, txt):
        k = self.k
        self.k += 1
        if k < len(self.rview) and self.rview[k][0] == txt:
            return k
        return 'x%s' % self.by_text.get(txt, '?')


# ------------------------------------------------------------------------------------ one document

def pick_lids(all_ids, rnd, max_lids):
    """None, the envelope loops, and a seeded sample of the other segment-anchored loop ids"""
    env = [l for l in ENVELOPE if l in all_ids]
    rest = [l for l in all_ids if l not in ENVELOPE]
    if max_lids is not None and len(rest) > max_lids:
        rest = rnd.sample(rest, max_lids)
    return [None] + env + rest


def arrange(gsegs, copies):
    """1: as generated; 2: two interchanges in one file; 3: the functional group twice inside the interchange;
    4: the transaction set twice inside the group (trailer counts are not adjusted: reader errors, not structure)"""
    ids = [sg.get_seg_id() for sg, _ in gsegs]
    if copies == 2:
        return gsegs + gsegs
    if copies == 3 and 'GS' in ids and 'GE' in ids:
        a, b = ids.index('GS'), ids.index('GE') + 1
        return gsegs[:b] + gsegs[a:b] + gsegs[b:]
    if copies == 4 and 'ST' in ids and 'SE' in ids:
        a, b = ids.index('ST'), ids.index('SE') + 1
        return gsegs[:b] + gsegs[a:b] + gsegs[b:]
    return gsegs


def do_case(spec):
    """runs in a worker process: everything that touches pyx12 for one generated document"""
    import logging
    import warnings
    warnings.filterwarnings('ignore')
    logging.disable(logging.CRITICAL)
    from . import gendoc
    (m, sd, p_opt, max_rep, copies, lid_seed, max_lids) = spec
    g = gendoc.Gen(m['map_file'], m['icvn'], m['vriic'], m['fic'], seed=sd, p_opt=p_opt, max_rep=max_rep, tspc=m.get('tspc'),
                   p_perm=(0.5 if sd % 3 == 0 else 0.0))
    g.doc()
    gsegs = arrange(list(g.segs), copies)
    # now and then: a second functional group of ANOTHER transaction type with the same GS08 (270/271, 276/277, …) in the
    # same interchange - the map has to be re-selected on GS01 as well
    partners = [e for e in gendoc.index_entries() if e['icvn'] == m['icvn'] and e['vriic'] == m['vriic'] and e['fic'] != m['fic']]
    if partners and sd % 4 == 1:
        e = partners[sd % len(partners)]
        g2 = gendoc.Gen(e['map_file'], e['icvn'], e['vriic'], e['fic'], seed=sd + 1, p_opt=p_opt, max_rep=max_rep, tspc=e.get('tspc'))
        g2.doc()
        ids2 = [sg.get_seg_id() for sg, _ in g2.segs]
        grp = g2.segs[ids2.index('GS'):ids2.index('GE') + 1]
        ids1 = [sg.get_seg_id() for sg, _ in gsegs]
        ngs = ids1.count('GS')
        grp[0][0].set('GS06', str(ngs + 1))
        grp[-1][0].set('GE02', str(ngs + 1))
        k = len(ids1) - 1 - ids1[::-1].index('GE')
        gsegs = gsegs[:k + 1] + list(grp) + gsegs[k + 1:]
        for sg, _ in gsegs:
            if sg.get_seg_id() == 'IEA':
                sg.set('IEA01', str(ngs + 1))
    # a transaction set of the SIBLING map (same GS08 and GS01, other BHT02: 278 request / response) inside the same group: the
    # map has to be re-selected at every BHT, not once per group
    siblings = [e for e in gendoc.index_entries() if e['icvn'] == m['icvn'] and e['vriic'] == m['vriic'] and e['fic'] == m['fic']
                and e.get('tspc') != m.get('tspc')]
    if siblings and sd % 2 == 0:
        e = siblings[0]
        g3 = gendoc.Gen(e['map_file'], e['icvn'], e['vriic'], e['fic'], seed=sd + 2, p_opt=p_opt, max_rep=max_rep, tspc=e.get('tspc'))
        g3.doc()
        ids3 = [sg.get_seg_id() for sg, _ in g3.segs]
        st_set = list(g3.segs[ids3.index('ST'):ids3.index('SE') + 1])
        st_set[0][0].set('ST02', '7777')
        st_set[-1][0].set('SE02', '7777')
        ids1 = [sg.get_seg_id() for sg, _ in gsegs]
        k = ids1.index('SE') + 1
        if sd % 4 == 0:
            k = ids1.index('ST')        # the sibling first
        gsegs = gsegs[:k] + st_set + gsegs[k:]
    text = ''.join(sg.format('~', '*', ':') + '\n' for sg, _ in gsegs)
    out = {'spec': spec, 'text': text, 'nseg': len(gsegs), 'cases': []}
    rview = reader_view(text)
    try:
        answers, why = walker_answers(text)
    except (ImportError, AttributeError, TypeError) as ex:
        out['infra'] = 'cannot drive pyx12.map_walker.walk_tree: %s: %s' % (type(ex).__name__, ex)
        return out
    if why is None and len(answers) != len(rview):
        why = 'reader-length-mismatch'
    if why is not None:
        out['skip'] = why
        return out
    wpaths = [(a[1], a[2]) for a in answers]
    gpaths = [seg_loop_path(n) for (_, n) in gsegs]
    out['generator_walker_path_differences'] = sum(1 for a, b in zip(gpaths, wpaths) if a != b[0])
    out['enclosing_loop_path_differs'] = sum(1 for a in answers if loop_path(a[6].parent) != a[1])
    all_ids = anchored_loop_ids(g.map)
    lids = pick_lids(all_ids, random.Random(lid_seed), max_lids)
    out['n_anchored'] = len(all_ids)
    line, I = model_line(answers, rview, lids)
    out['line'] = line
    for lid in lids:
        r = real_iter(text, lid)
        case = {'lid': lid}
        if r[0] == 'raise':
            case['raise'] = (r[1], r[2])
            case['canon'] = None
            case['bad'] = [(r[1], 'iter_segments(%r) raised %s after %d yields' % (lid, r[2], len(r[3])))]
            case['stats'] = None
        else:
            views, flat = r[1], r[2]
            case['bad'] = oracle(lid, views, flat, rview, wpaths)
            ti = TextIndex(rview)
            case['canon'] = ' '.join(canon_view(v, ti, I) for v in views)
            spans = expected_instances(wpaths, lid) if lid is not None else []
            case['stats'] = {
                'trees': sum(1 for v in views if v[0] == 'L'),
                'instances': len(spans),
                'generator_instances': generator_instances(gsegs, lid) if lid is not None else 0,
                'back_to_back': sum(1 for x, y in zip(spans, spans[1:]) if x[1] == y[0]),
                'ends_file': 1 if spans and spans[-1][1] == len(wpaths) else 0,
                'max_depth': max([len(l[3]) for v in views if v[0] == 'L' for l in leaves(v)] or [0]),
            }
        out['cases'].append(case)
    return out


def doc_specs(tier, rnd):
    from . import gendoc
    entries = gendoc.index_entries()
    thorough = tier == 'thorough'
    ndocs = 2500 if thorough else 180
    max_lids = None if thorough else 45
    specs = []
    k = 0
    while len(specs) < ndocs:
        m = entries[k % len(entries)]
        rnd_i = k // len(entries)
        k += 1
        sd = rnd.randrange(1 << 30)
        if rnd_i == 0:
            p_opt, max_rep = 0.0, 1            # required-only document of every map
        else:
            p_opt = rnd.choice((0.15, 0.3, 0.5))
            max_rep = rnd.choice((1, 2, 3))
        copies = rnd.choice((2, 3, 4)) if rnd.random() < 0.2 else 1   # envelope loops back-to-back (see arrange)
        specs.append((m, sd, p_opt, max_rep, copies, rnd.randrange(1 << 30), max_lids))
    return specs


def run_model_parallel(lines, nproc):
    """common.run_model on interleaved slices in parallel driver processes (a CTX line costs documents x loop ids)"""
    from multiprocessing.pool import ThreadPool
    k = max(1, min(nproc, len(lines) // 4))
    parts = [lines[i::k] for i in range(k)]
    with ThreadPool(k) as tp:
        outs = tp.map(common.run_model, parts)
    res = [None] * len(lines)
    for i, o in enumerate(outs):
        res[i::k] = o
    return res


def run(tier):
    import multiprocessing
    res = common.Result('C09', tier)
    res.cov['rule'] = ('documents generated by harness/gendoc.py for every indexed map (required-only + seeded random situational '
                       'nodes and repeats; 20% repeat the interchange, the group or the set inside one file) x loop id in {None, ISA_LOOP, GS_LOOP, ST_LOOP, '
                       'segment-anchored loop ids of the map (all in thorough; seeded sample of 45 in quick)}; a case is '
                       '(map, generator seed, p_opt, max_rep, copies, loop id); non-trivial = a loop id with at least one instance')
    built = common.proof_stage(res, 'C09', targets=('Pyx12Verif', 'pyx12model', 'Pyx12Verif.Props.C09'))
    rnd = random.Random(common.seed() * 7907 + 9)
    specs = doc_specs(tier, rnd)
    nproc = min(16 if tier == 'thorough' else 8, os.cpu_count() or 2)
    ctx = multiprocessing.get_context('fork')
    with ctx.Pool(nproc) as pool:
        docs = pool.map(do_case, specs, chunksize=2)
    for d in docs:
        if 'infra' in d:
            raise common.Infra(d['infra'])
    lines = [d['line'] for d in docs if 'line' in d]
    model = run_model_parallel(lines, nproc) if (built and lines) else None
    if model is not None and any(x == 'bad-op' for x in model):
        raise common.Infra('the model driver does not know the CTX op (Drv/C09.lean not registered in Driver.lean)')
    mi = 0
    stat = {'documents': len(docs), 'skipped_documents': 0, 'iterations': 0, 'trees': 0, 'instances': 0, 'back_to_back_instances': 0,
            'instances_ending_the_file': 0, 'max_tree_depth': 0, 'documents_where_walker_and_generator_paths_differ': 0,
            'answers_not_Consistent': 0, 'segments': 0, 'files_with_repeated_envelope': 0}
    per_map = {}
    lid_seen = {}
    ndis = 0
    for d in docs:
        (m, sd, p_opt, max_rep, copies, lid_seed, max_lids) = d['spec']
        if 'skip' in d:
            stat['skipped_documents'] += 1
            res.notes.setdefault('skip_reasons', {}).setdefault(d['skip'], []).append([m['map_file'], sd])
            continue
        blocks = model[mi].split('|') if model is not None else None
        mi += 1
        stat['segments'] += d['nseg']
        stat['files_with_repeated_envelope'] += 1 if copies != 1 else 0
        per_map[m['map_file']] = per_map.get(m['map_file'], 0) + 1
        if d['generator_walker_path_differences']:
            stat['documents_where_walker_and_generator_paths_differ'] += 1
        if d['enclosing_loop_path_differs']:
            res.broke('assumption:x12path.loop_list-is-the-enclosing-loop-path',
                      '%s: %d segments whose x12path.loop_list differs from the ids of the enclosing loops' % (
                          m['map_file'], d['enclosing_loop_path_differs']))
        gen = {'map': m['map_file'], 'seed': sd, 'p_opt': p_opt, 'max_rep': max_rep, 'copies': copies,
               'icvn': m['icvn'], 'vriic': m['vriic'], 'fic': m['fic'], 'tspc': m.get('tspc')}
        for ci, case in enumerate(d['cases']):
            lid = case['lid']
            res.count()
            stat['iterations'] += 1
            st = case['stats']
            res.distinct((m['map_file'], sd, p_opt, max_rep, copies, lid), nontrivial=bool(st and st['instances'] > 0))
            lid_seen[lid or '-'] = lid_seen.get(lid or '-', 0) + 1
            if st:
                stat['trees'] += st['trees']
                stat['instances'] += st['instances']
                stat['back_to_back_instances'] += st['back_to_back']
                stat['instances_ending_the_file'] += st['ends_file']
                stat['max_tree_depth'] = max(stat['max_tree_depth'], st['max_depth'])
                if lid is not None and not d['generator_walker_path_differences'] and st['generator_instances'] != st['instances']:
                    res.broke('oracle:instance-count', '%s seed %d loop %s: generator says %d instances, walker trace says %d' % (
                        m['map_file'], sd, lid, st['generator_instances'], st['instances']))
            mblock = blocks[ci] if blocks is not None and ci < len(blocks) else None
            mcons, myields = (mblock.split(';', 1) + [''])[:2] if mblock is not None else (None, None)
            if mcons == '0':
                stat['answers_not_Consistent'] += 1
                res.broke('assumption:Consistent', '%s seed %d loop %s: the walker answers of this document do not satisfy Consistent' % (
                    m['map_file'], sd, lid))
            if len(res.cov['samples']) < 4 and st and st['instances'] > 1 and p_opt > 0:
                res.sample({'map': m['map_file'], 'seed': sd, 'loop_id': lid, 'segments': d['nseg'], 'stats': st,
                            'real': (case['canon'] or '')[:300], 'model': (myields or '')[:300]})
            for key, what in case['bad']:
                res.violation(key, '%s loop_id=%r: %s' % (m['map_file'], lid, what),
                              {'call': 'X12ContextReader(params(), errh_null(), StringIO(document)).iter_segments(loop_id)',
                               'generator': gen, 'document': d['text'], 'loop_id': lid,
                               'observed': [w for _, w in case['bad']], 'observed_yields': (case['canon'] or '')[:2000],
                               'required': 'segments of all yields == source segments; one tree per instance rooted at loop_id; '
                                           'nested loop ids == map path below the root; seg_count/line as read',
                               'model_yields': (myields or '')[:2000]})
            if not case['bad'] and myields is not None and case['canon'] != myields:
                ndis += 1
                res.broke('correspondence:Ctx.ctxRun', '%s seed %d p_opt %s max_rep %d copies %d loop %r: real %s | model %s' % (
                    m['map_file'], sd, p_opt, max_rep, copies, lid, first_diff(case['canon'], myields), ''))
    res.notes['input_distribution'] = stat
    res.notes['documents_per_map'] = per_map
    res.notes['loop_ids_exercised'] = len(lid_seen)
    res.notes['disagreements_checked'] = ndis
    res.notes['exhaustive'] = False
    res.assumptions = [
        'structurally valid documents = output of harness/gendoc.py (wrapper loops transparent; a loop instance starts with its first segment)',
        'per-segment map paths are those the real walker matched (a map ambiguity that makes the walker choose another node than the '
        'generator intended is a C02 matter; such documents are counted in documents_where_walker_and_generator_paths_differ)',
        'the first segment of any X12Reader stream is ISA (the "has no parent" assertion of the plain arm cannot fire)',
        'loop ids name loops that begin with a segment and occur at most once on any map path (checked per answer by Consistent)']
    if built:
        # context reader end to end: real iter_segments against Model/CtxDoc.lean (tokenizer + envelope + walker MODEL + tree
        # model), on generated, faulty and mutated documents, several loop ids each
        from . import doc as docmod, ctxdoc
        sample = docmod.small_corpus(common.seed() * 3 + 9, 60 if tier == 'thorough' else 20)
        lids = [[None, 'ISA_LOOP', 'ST_LOOP', 'GS_LOOP', 'DETAIL', '2000A', '2000', '2300'][: 5 + (i % 4)] for i in range(len(sample))]
        ctxdoc.attach(res, [t for _, t in sample], lids, 'c09-sample')
    return res.finish(trusted=common.TRUSTED_COMMON + [
        'modelled: X12ContextReader.iter_segments (after fixes C09-D10, C09-D11, C09-gs-loop-level), _add_segment, '
        'X12LoopDataNode._add_loop_node, _get_insert_idx, iterate_segments; the walker enters as abstract answers obtained by driving '
        'the real walk_tree as iter_segments does',
        'hypothesis Consistent of the theorems is evaluated by the driver on every real answer list'])


def first_diff(a, b):
    a, b = a or '', b or ''
    i = 0
    while i < min(len(a), len(b)) and a[i] == b[i]:
        i += 1
    return 'at char %d: real …%s model …%s' % (i, a[max(0, i - 30):i + 60], b[max(0, i - 30):i + 60])


def replay(d):
    r = d['replay']
    if 'document' not in r:
        print('nothing to replay: ' + json.dumps(r)[:500])
        return 1
    text, lid = r['document'], r['loop_id']
    rview = reader_view(text)
    answers, why = walker_answers(text)
    out = real_iter(text, lid)
    if out[0] == 'raise':
        print('iter_segments(%r) raised %s (%s) after %d yields' % (lid, out[2], out[1], len(out[3])))
        return 1
    if why is not None:
        print('walker trace incomplete: ' + why)
        return 2
    bad = oracle(lid, out[1], out[2], rview, [(a[1], a[2]) for a in answers])
    print('iter_segments(%r): %d yields, %d trees, %d of %d segments' % (
        lid, len(out[1]), sum(1 for v in out[1] if v[0] == 'L'), len(out[2]), len(rview)))
    for k, w in bad:
        print('  %s: %s' % (k, w))
    return 1 if bad else 0
