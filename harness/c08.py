"""
C08 - X12 -> XML -> X12 is the identity on structurally valid documents.

Theorems (lean/Pyx12Verif/Props/C08.lean) are about the Lean model of x12xml_simple.seg / XMLWriter /
xmlx12_simple.get_segment (Model/XmlOut.lean, Model/XmlIn.lean).  This harness ties the model to the code and
evaluates the property's own oracle on the real code:

  generated document of every map (loops repeating back to back and inside repeating parents, second transaction
  set, second interchange; `& < > ' "`, blanks and non-ASCII injected into AN values and the ISA id fields;
  non-default delimiters)
    -> real x12n_document(fd_xmldoc=...)                                   [observe_at 1: the XML text]
         (a) xml.etree parses it; element structure follows x12simple.dtd
         (b) every `seg` element sits inside `loop` elements whose ids spell the loop path of the map node the walker
             matched (callback node); consecutive segments share exactly the loop *instances* the map structure says
             (a segment that is the first of its loop, or a path that leaves and re-enters a loop, gets fresh elements)
         (c) every `ele` / `subele` carries the reference designator of the position its value was read from
    -> real xmlx12_simple.convert                                          [observe_at 2: the X12 text]
         (d) re-read with X12Reader = source re-read with X12Reader, modulo delimiters, ISA11/ISA16, not-used elements
    -> model (X8.DOC): (e) XML text identical, rebuilt segments identical to the lines convert wrote

Domain (stated restriction): data characters exclude C0 controls (not XML 1.0 characters) and `~ * :` (the fixed
output delimiters of xmlx12_simple) as well as the document's own delimiters.  Only documents in which every segment is
located in its map: a first run without XML sink decides that (walker node of every segment = the node the generator
wrote it for, and no segment-level error in the 997/999); the others are counted and skipped (D33-type ambiguities are
C02's findings, crashes of the sink on structurally invalid input are C07's).
"""
import hashlib
import io
import logging
import os
import random
import re
import traceback

from . import common

logging.disable(logging.CRITICAL)
ENVELOPE = ('ISA', 'GS', 'ST', 'SE', 'GE', 'IEA')

K_SEED = 1000003
FRAGS = ['&', '<', '>', "'", '"', '&amp;', '&lt;', '&apos;', '&#65;', '<b>', '</seg>', ']]>', '<!--', '-->', '<?x', "'>", '&&', '<<',
         ' ', '  ', 'A', 'b', '9', 'Z Z', 'é', 'ß', '€', '^', '%', '\\', '/', '=', '-', '.', '_', '#', '\x7f']
SEG_TERMS = ['~', '~', '\n', '!', '\x1c', '|']
ELE_TERMS = ['*', '*', '|', '+', '\x1d', '<', '&']
SUB_TERMS = [':', ':', '>', '\\', '\x1f', '<', '@', '"', "'", '&']
KEEP = {('GS', 0), ('GS', 7), ('ST', 0), ('ST', 1), ('ST', 2), ('SE', 1), ('HL', 0), ('HL', 1), ('BHT', 1), ('GE', 0), ('GE', 1),
        ('IEA', 0), ('IEA', 1), ('GS', 5)}
RE_DESIG = re.compile(r'^(\d\d)(?:-(\d+))?$')


# ------------------------------------------------------------------------------------ plain data helpers

def loop_path_of(node):
    """loop ids from the map root down to the loop enclosing a segment node (own split of the node's path string)"""
    return [x for x in node.parent.get_path().split('/') if x != '']


def is_first_in_loop(node):
    """independent of segment_if.is_first_seg_in_loop: first child of the parent in position order"""
    par = node.parent
    pm = getattr(par, 'pos_map', None)
    if not pm:
        return False
    first = pm[sorted(pm)[0]][0]
    return first is node


def node_desc(node):
    """the part of a segment node x12xml_simple reads: [(kind, seq, notUsed, xid or [sub xids])]"""
    out = []
    for c in node.children:
        if c.is_composite():
            out.append(('C', int(c.seq), c.usage == 'N', [s.id for s in c.children]))
        else:
            out.append(('E', int(c.seq), c.usage == 'N', c.id))
    return out


def trim_list(xs, empty):
    xs = list(xs)
    while xs and empty(xs[-1]):
        xs.pop()
    return xs


def norm_elems(elems):
    """trailing empty sub-elements and trailing empty elements dropped"""
    out = [trim_list(e, lambda v: v == '') or [''] for e in elems]
    return trim_list(out, lambda e: all(v == '' for v in e))


def read_x12(text):
    """segments as the real reader sees them: [(id, [[sub values]])]"""
    import pyx12.x12file
    src = pyx12.x12file.X12Reader(io.StringIO(text))
    out = []
    for seg in src:
        body = seg.format('\x01', '\x02', '\x03')
        assert body.endswith('\x01')
        parts = body[:-1].split('\x02')
        out.append((parts[0], [p.split('\x03') for p in parts[1:]]))
    return out


# ------------------------------------------------------------------------------------ case construction

def special(rnd, bad, maxlen=None):
    n = rnd.choice([1, 1, 2, 3, 4, 6])
    s = ''.join(rnd.choice(FRAGS) for _ in range(n))
    if rnd.random() < 0.25:
        s = ' ' * rnd.randint(1, 2) + s
    if rnd.random() < 0.25:
        s = s + ' ' * rnd.randint(1, 2)
    if maxlen and rnd.random() < 0.8:
        s = s[:maxlen]
    s = ''.join(ch for ch in s if ch not in bad)
    return s or 'A'


def build_case(cid, seed):
    """-> dict(text, desc, intended) or None"""
    from . import gendoc
    rnd = random.Random(seed * K_SEED + cid * 7919 + 8)
    ents = gendoc.index_entries()
    m = ents[cid % len(ents)]
    g = gendoc.Gen(m['map_file'], m['icvn'], m['vriic'], m['fic'], seed=rnd.randrange(1 << 30),
                   p_opt=rnd.choice([0.0, 0.1, 0.2, 0.4]), max_rep=rnd.choice([1, 2, 2, 3]), tspc=m.get('tspc'))
    g.doc()
    if len(g.segs) > 700:
        return None
    segs = []
    for s, _n in g.segs:
        body = s.format('\x01', '\x02', '\x03')[:-1].split('\x02')
        segs.append([body[0], [p.split('\x03') for p in body[1:]]])
    nodes = [n for _, n in g.segs]
    desc = {'map': m['map_file'], 'extras': []}
    # second transaction set (ST_LOOP repeats back to back)
    if rnd.random() < 0.25:
        st = [k for k, s in enumerate(segs) if s[0] == 'ST']
        se = [k for k, s in enumerate(segs) if s[0] == 'SE']
        ge = [k for k, s in enumerate(segs) if s[0] == 'GE']
        if len(st) == 1 and len(se) == 1 and len(ge) == 1 and len(segs) < 400:
            block = [[s[0], [list(e) for e in s[1]]] for s in segs[st[0]:se[0] + 1]]
            block[0][1][1] = ['0002']
            block[-1][1][1] = ['0002']
            segs[se[0] + 1:se[0] + 1] = block
            nodes[se[0] + 1:se[0] + 1] = nodes[st[0]:se[0] + 1]
            ge2 = [k for k, s in enumerate(segs) if s[0] == 'GE'][0]
            segs[ge2][1][0] = ['2']
            desc['extras'].append('second_set')
    # delimiters
    if rnd.random() < 0.5:
        se_t, el_t, su_t = rnd.choice(SEG_TERMS), rnd.choice(ELE_TERMS), rnd.choice(SUB_TERMS)
    else:
        se_t, el_t, su_t = '~', '*', ':'
    used = set(ch for s in segs for e in s[1] for v in e for ch in v) | set(ch for s in segs for ch in s[0])
    if len({se_t, el_t, su_t}) < 3 or (set([se_t, el_t, su_t]) & used) or (m['icvn'] == '00501' and '^' in (se_t, el_t, su_t)):
        se_t, el_t, su_t = '~', '*', ':'
    bad = set('~*:') | {se_t, el_t, su_t}
    desc['delims'] = se_t + el_t + su_t
    segs[0][1][15] = [su_t]

    def dtype(child):
        try:
            de = g.map.data_elements.get_by_elem_num(child.data_ele)
            return de['data_type'], int(de['max_len'])
        except Exception:
            return None, 0

    # special characters: AN elements and AN sub-elements that carry a value
    slots = []
    for k in range(1, len(segs)):
        node = nodes[k]
        for i, c in enumerate(node.children):
            if i >= len(segs[k][1]) or (segs[k][0], i) in KEEP or segs[k][0] in ENVELOPE:
                continue
            if c.is_composite():
                for j, sc in enumerate(c.children):
                    if j < len(segs[k][1][i]) and segs[k][1][i][j] != '' and dtype(sc)[0] == 'AN':
                        slots.append((k, i, j, dtype(sc)[1]))
            elif len(segs[k][1][i]) == 1 and segs[k][1][i][0] != '' and dtype(c)[0] == 'AN':
                slots.append((k, i, 0, dtype(c)[1]))
    rnd.shuffle(slots)
    nspec = rnd.choice([0, 2, 4, 8, 16])
    for (k, i, j, mx) in slots[:nspec]:
        segs[k][1][i][j] = special(rnd, bad, mx)
    desc['specials'] = min(nspec, len(slots))
    # a value in an element the map marks not-used, with filled used elements after it in the same segment: the segment stays
    # located (an element error is reported), and the round trip may drop that value only
    if rnd.random() < 0.35:
        cands = []
        for k in range(1, len(segs)):
            if segs[k][0] in ENVELOPE:
                continue
            for i, c in enumerate(nodes[k].children):
                if c.usage == 'N' and i < len(segs[k][1]) - 1 and (segs[k][0], i) not in KEEP \
                        and all(v == '' for v in segs[k][1][i]) and any(v != '' for e in segs[k][1][i + 1:] for v in e):
                    cands.append((k, i))
        rnd.shuffle(cands)
        for (k, i) in cands[:rnd.choice([1, 2, 4])]:
            segs[k][1][i] = [rnd.choice(['X', '1', 'NU'])]
        if cands:
            desc['extras'].append('not_used_filled')
    # ISA id fields (fixed width, blanks significant)
    if rnd.random() < 0.4:
        for i in (1, 3, 5, 7):
            w = len(segs[0][1][i][0])
            segs[0][1][i] = [(special(rnd, bad, w) + ' ' * w)[:w]]
        desc['extras'].append('isa_fields')
    lines = []
    for sid, elems in segs:
        if sid == 'ISA':
            lines.append(sid + el_t + el_t.join(e[0] for e in elems))
        else:
            lines.append(sid + (el_t + el_t.join(su_t.join(e) for e in elems) if elems else ''))
    if len(lines[0]) != 105:
        return None
    eol = '' if se_t == '\n' else rnd.choice(['\n', '\n', '', '\r\n'])
    intended = [n.get_path() for n in nodes]
    if rnd.random() < 0.1 and len(lines) < 300:
        lines = lines + lines
        intended = intended + intended
        desc['extras'].append('second_interchange')
    text = ''.join(l + se_t + eol for l in lines)
    return {'text': text, 'desc': desc, 'intended': intended}


# ------------------------------------------------------------------------------------ the real code

def call_document(text, with_xml, with_ack, map_path=None):
    """-> dict(status, exc, nodes=[map nodes per segment], xml, ack)"""
    import pyx12.x12n_document
    import pyx12.params
    nodes = []

    def cb(seg, src, node, valid):
        nodes.append(node)
    fx = io.StringIO() if with_xml else None
    fa = io.StringIO() if with_ack else None
    out = {'status': 'ok', 'exc': None, 'nodes': nodes, 'xml': None, 'ack': None}
    try:
        pyx12.x12n_document.x12n_document(pyx12.params.params(), io.StringIO(text), fa, None, fd_xmldoc=fx, map_path=map_path,
                                          callback=cb)
    except Exception as e:
        tb = traceback.extract_tb(e.__traceback__)
        site = [f for f in tb if '/pyx12/' in f.filename.replace('\\', '/')]
        f = site[-1] if site else tb[-1]
        out['status'] = 'raise'
        out['exc'] = 'crash:%s:%s:%s' % (type(e).__name__, os.path.basename(f.filename), f.name)
        out['exc_text'] = str(e)[:200]
    if fx is not None:
        out['xml'] = fx.getvalue()
    if fa is not None:
        out['ack'] = fa.getvalue()
    return out


def ack_structural(ack):
    """segment-level complaints in a 997/999: AK3/IK3 whose error code is not 8 ('segment has data element errors'),
    and set/group level codes other than 'one or more segments in error'"""
    if not ack:
        return []
    out = []
    for piece in ack.split('~'):
        f = piece.strip('\r\n').split('*')
        if f[0] in ('AK3', 'IK3') and len(f) > 4 and f[4] not in ('', '8'):
            out.append('%s:%s:%s' % (f[0], f[1], f[4]))
        if f[0] in ('AK5', 'IK5'):
            out.extend('%s:%s' % (f[0], c) for c in f[2:] if c not in ('', '5'))
        if f[0] == 'AK9':
            out.extend('AK9:%s' % c for c in f[5:] if c not in ('', '5'))
    return out


# ------------------------------------------------------------------------------------ oracle on one document

def spec_depth(last, cur, first):
    """number of leading loop instances a segment shares with its predecessor, from the map structure alone"""
    lcp = 0
    while lcp < len(last) and lcp < len(cur) and last[lcp] == cur[lcp]:
        lcp += 1
    own = len(cur) - 1 if first else len(cur)      # the first segment of a loop starts a new instance of that loop
    return min(lcp, own)


def xml_segments(root):
    """[(ancestor loop elements, seg element)] in document order + DTD shape complaints"""
    out = []
    bad = []

    def walk(el, chain):
        for ch in el:
            if ch.tag == 'loop':
                if el.tag not in ('x12simple', 'loop'):
                    bad.append('loop inside ' + el.tag)
                walk(ch, chain + [ch])
            elif ch.tag == 'seg':
                if el.tag != 'loop':
                    bad.append('seg inside ' + el.tag)
                out.append((chain, ch))
                for it in ch:
                    if it.tag == 'comp':
                        for su in it:
                            if su.tag != 'subele' or len(su):
                                bad.append('comp contains ' + su.tag)
                    elif it.tag != 'ele' or len(it):
                        bad.append('seg contains ' + it.tag)
            else:
                bad.append('%s inside %s' % (ch.tag, el.tag))
    walk(root, [])
    return out, bad


def expected_items(sid, desc, elems):
    """what a faithful rendering of the segment must carry: [((ele pos, sub pos or None), value)] for non-empty values of
    elements the map does not mark not-used; None when the data does not fit the node (not in the domain)"""
    items = []
    if len(elems) > len(desc):
        return None
    for i, e in enumerate(elems):
        kind, _seq, nu, ids = desc[i]
        if nu or all(v == '' for v in e):
            continue
        if kind == 'C':
            if len(e) > len(ids):
                return None
            for j, v in enumerate(e):
                if v != '':
                    items.append(((i + 1, j + 1), v))
        else:
            if len(e) != 1:
                return None
            items.append(((i + 1, None), e[0]))
    return items


def parse_label(sid, label):
    if label is None or not label.startswith(sid):
        return None
    m = RE_DESIG.match(label[len(sid):])
    if not m:
        return None
    return (int(m.group(1)), int(m.group(2)) if m.group(2) is not None else None)


def blank_not_used(desc, elems):
    out = []
    for i, e in enumerate(elems):
        if i < len(desc) and desc[i][2]:
            out.append([''])
        else:
            out.append(list(e))
    return out


def model_op(steps):
    f = ['X8.DOC']
    for path, first, sid, desc, seg_id, el_t, su_t, elems in steps:
        f.append(len(path))
        f.extend(path)
        f.append(1 if first else 0)
        f.append(sid)
        f.append(len(desc))
        for kind, seq, nu, ids in desc:
            if kind == 'E':
                f.extend(['E', seq, 1 if nu else 0, ids if ids is not None else '\x00none'])
            else:
                f.extend(['C', seq, 1 if nu else 0, len(ids)])
                f.extend([x if x is not None else '\x00none' for x in ids])
        f.extend([seg_id, el_t, su_t, len(elems)])
        for e in elems:
            f.append(el_t if seg_id == 'ISA' else su_t)
            f.append(len(e))
            f.extend(e)
    return common.line(*f)


def check_document(text, intended=None, map_path=None):
    """-> dict(status, viol=[(key, what)], op, real_xml, conv_lines, stats)"""
    import xml.etree.ElementTree as ET
    out = {'status': 'ok', 'viol': [], 'op': None, 'stats': {}}
    viol = out['viol']
    # ---- is every segment located in its map?  (run without the XML sink)
    first_run = call_document(text, with_xml=False, with_ack=True, map_path=map_path)
    if first_run['status'] != 'ok':
        out['status'] = 'skip:validation-raises:' + first_run['exc']
        return out
    try:
        src = read_x12(text)
    except Exception as e:
        out['status'] = 'skip:reader:' + type(e).__name__
        return out
    nodes = first_run['nodes']
    if len(nodes) != len(src) or any(n is None for n in nodes):
        out['status'] = 'skip:not-located:no-node'
        return out
    if intended is not None:
        for k, n in enumerate(nodes):
            if n.get_path() != intended[k]:
                out['status'] = 'skip:not-located:%s read as %s' % (intended[k], n.get_path())
                return out
    for k, n in enumerate(nodes):
        if n.id != src[k][0]:
            out['status'] = 'skip:not-located:%s read as %s' % (src[k][0], n.get_path())
            return out
    st = ack_structural(first_run['ack'])
    if st:
        out['status'] = 'skip:structural-error:' + st[0]
        return out
    # ---- the run under test
    run = call_document(text, with_xml=True, with_ack=False, map_path=map_path)
    if run['status'] != 'ok':
        viol.append((run['exc'], 'x12n_document with the XML sink raises on a structurally valid document: ' + run.get('exc_text', '')))
        return out
    if [n.get_path() for n in run['nodes']] != [n.get_path() for n in nodes]:
        out['status'] = 'skip:unstable-walk'
        return out
    xml = run['xml']
    out['real_xml'] = xml
    import pyx12.x12file
    rd = pyx12.x12file.X12Reader(io.StringIO(text))
    se_t, el_t, su_t = rd.seg_term, rd.ele_term, rd.subele_term
    descs = {}
    steps = []
    paths = []
    firsts = []
    for k, n in enumerate(nodes):
        if id(n) not in descs:
            descs[id(n)] = node_desc(n)
        p = loop_path_of(n)
        paths.append(p)
        firsts.append(is_first_in_loop(n))
        steps.append((p, firsts[-1], n.id, descs[id(n)], src[k][0], el_t, su_t, src[k][1]))
    in_domain = all(expected_items(s[2], s[3], s[7]) is not None for s in steps)
    if not in_domain:
        out['status'] = 'skip:data-does-not-fit-node'
        return out
    ctl = [v for s in src if s[0] == 'ISA' for e in s[1] for v in e if any(ord(ch) < 32 for ch in v)]
    if ctl:
        # ISA16 / ISA11 echo the component / repetition separator as *data*: a C0 control there is outside the stated domain
        try:
            ET.fromstring(xml)
            out['status'] = 'skip:domain:control-char-separator-in-ISA:xml-accepted'
        except ET.ParseError:
            out['status'] = 'skip:domain:control-char-separator-in-ISA:xml-not-well-formed'
        return out
    out['op'] = model_op(steps)
    repeats = sum(1 for k in range(1, len(steps)) if firsts[k] and paths[k - 1][:len(paths[k])] == paths[k])
    out['stats'] = {'nseg': len(steps), 'loop_repeats': repeats, 'max_depth': max(len(p) for p in paths),
                    'composites': sum(1 for s in steps for i, e in enumerate(s[7]) if s[3][i][0] == 'C' and any(e)),
                    'special_chars': sum(1 for s in src for e in s[1] for v in e if re.search('[&<>\'"]', v)),
                    'edge_blanks': sum(1 for s in src for e in s[1] for v in e if v != v.strip(' '))}
    # (a) well formed
    try:
        root = ET.fromstring(xml)
    except ET.ParseError as e:
        viol.append(('pred:xml-not-well-formed', 'xml.etree rejects the XML: %s' % e))
        return out
    if root.tag != 'x12simple':
        viol.append(('pred:xml-root', 'root element is %r' % root.tag))
    xsegs, bad = xml_segments(root)
    if bad:
        viol.append(('pred:xml-shape', 'not the x12simple shape: ' + '; '.join(sorted(set(bad))[:3])))
    # (b) nesting
    if len(xsegs) != len(steps):
        viol.append(('pred:seg-count', '%d seg elements for %d segments' % (len(xsegs), len(steps))))
        return out
    prev_chain = None
    for k, (chain, sel) in enumerate(xsegs):
        got = [c.get('id') for c in chain]
        if got != paths[k] or sel.get('id') != nodes[k].id:
            viol.append(('pred:seg-nesting', 'segment %d (%s): inside loops %r, map path of its node is %r'
                         % (k, nodes[k].get_path(), got, paths[k])))
            break
        if prev_chain is not None:
            shared = 0
            while shared < len(chain) and shared < len(prev_chain) and chain[shared] is prev_chain[shared]:
                shared += 1
            want = spec_depth(paths[k - 1], paths[k], firsts[k])
            if shared != want:
                viol.append(('pred:loop-instance', 'segment %d (%s, first-in-loop=%s) after %s shares %d loop elements with its '
                             'predecessor, the map structure says %d' % (k, nodes[k].get_path(), firsts[k],
                                                                       nodes[k - 1].get_path(), shared, want)))
                break
        prev_chain = chain
    # (c) labels and values
    comp_label_seg = 0
    for k, (chain, sel) in enumerate(xsegs):
        sid = nodes[k].id
        want = expected_items(sid, steps[k][3], steps[k][7])
        got = []
        ok = True
        pos_seen = []
        for it in sel:
            if it.tag == 'ele':
                lab = parse_label(sid, it.get('id'))
                if lab is None or lab[1] is not None:
                    ok = False
                got.append((lab, it.text or ''))
            elif it.tag == 'comp':
                sub_pos = set()
                for su in it:
                    lab = parse_label(sid, su.get('id'))
                    if lab is None or lab[1] is None:
                        ok = False
                    else:
                        sub_pos.add(lab[0])
                    if (su.text or '') != '':
                        got.append((lab, su.text))
                if it.get('id') == sid:
                    comp_label_seg += 1
                elif len(sub_pos) != 1 or parse_label(sid, it.get('id')) != (next(iter(sub_pos)), None):
                    ok = False
        if not ok or got != want:
            viol.append(('pred:label', 'segment %d (%s): XML carries %r, the data is %r' % (k, nodes[k].get_path(), got[:8], want[:8])))
            break
    out['stats']['comp_id_is_segment_id'] = comp_label_seg
    # (d) back to X12
    import pyx12.xmlx12_simple
    fo = io.StringIO()
    try:
        pyx12.xmlx12_simple.convert(io.StringIO(xml), fo)
    except Exception as e:
        tb = traceback.extract_tb(e.__traceback__)
        site = [f for f in tb if '/pyx12/' in f.filename.replace('\\', '/')]
        f = site[-1] if site else tb[-1]
        viol.append(('crash:%s:%s:%s' % (type(e).__name__, os.path.basename(f.filename), f.name),
                     'xmlx12_simple.convert raises: %s' % str(e)[:200]))
        return out
    back_text = fo.getvalue()
    out['conv_lines'] = [l for l in back_text.split('~\n')]
    try:
        back = read_x12(back_text)
    except Exception as e:
        viol.append(('pred:roundtrip-unreadable', 'X12Reader cannot read the converted document: %s' % type(e).__name__))
        return out

    def canon(sid, elems):
        e2 = [list(e) for e in elems]
        if sid == 'ISA':
            for i in (10, 15):
                if i < len(e2):
                    e2[i] = ['#']
        return (sid, norm_elems(e2))
    a = [canon(s[0], blank_not_used(steps[k][3], s[1])) for k, s in enumerate(src)]
    b = [canon(s[0], s[1]) for s in back]
    if a != b:
        k = next((i for i in range(min(len(a), len(b))) if a[i] != b[i]), min(len(a), len(b)))
        viol.append(('pred:roundtrip-differs', 'segment %d: source %r, after X12->XML->X12 %r (%d vs %d segments)'
                     % (k, a[k] if k < len(a) else None, b[k] if k < len(b) else None, len(a), len(b))))
    return out


def xml_events(text):
    """start / leaf / stop events of an x12simple document as a parser sees them (layout whitespace dropped)"""
    import xml.etree.ElementTree as ET
    out = []

    def walk(el):
        if el.tag in ('ele', 'subele') and len(el) == 0:
            out.append(('leaf', el.tag, el.get('id'), el.text or ''))
            return
        out.append(('start', el.tag, el.get('id')))
        for ch in el:
            walk(ch)
        out.append(('stop', el.tag))
    walk(ET.fromstring(text))
    return out


def compare_model(o, ans):
    """-> list of (name, detail) disagreements between the model's answer and the real outputs"""
    f = ans.split('\t')
    if f[0] != 'ok':
        return [('XmlOut.docEvents', 'model says %s, the code wrote a document' % ans[:80])]
    out = []
    mxml = common.unesc(f[1])
    o['text_identical'] = mxml == o['real_xml']
    if not o['text_identical']:
        # layout (indentation, quoting style, choice of entity) is not part of the property: compare what a parser sees
        try:
            a, b = xml_events(o['real_xml']), xml_events(mxml)
        except Exception as e:
            a, b = ['impl'], ['model: %s' % e]
        if a != b:
            i = next((i for i in range(min(len(a), len(b))) if a[i] != b[i]), min(len(a), len(b)))
            out.append(('XmlOut.docEvents', 'XML events differ at event %d: impl %r model %r' % (i, a[i:i + 3], b[i:i + 3])))
    if f[2][:1] != '1':
        out.append(('XmlSpec.wellFormed', 'model events are not well formed'))
    if f[2][1:2] != '1':
        out.append(('hypothesis:GoodFrom', 'a tested document does not satisfy the run hypothesis of the theorems (character-wise '
                    'commonprefix disagrees with the component-wise test, or a first-in-loop segment without loop path)'))
    if f[2][2:3] != '1':
        out.append(('hypothesis:wfIds-fits', 'a tested document has a node / data outside wfIds / fits, the hypotheses of rebuild_identity'))
    if 'conv_lines' in o:
        if len(f) < 4 or not f[3].isdigit():
            out.append(('XmlIn.convertSegs', 'model: %s' % '\t'.join(f[3:])[:80]))
        else:
            msegs = [common.unesc(x) for x in f[4:]]
            real = [l + '~' for l in o['conv_lines'] if l != '']
            skip = ('ISA', 'SE', 'GE', 'IEA')
            m2 = [s for s in msegs if s.split('*')[0] not in skip]
            r2 = [s for s in real if s.split('*')[0] not in skip]
            if m2 != r2:
                k = next((i for i in range(min(len(m2), len(r2))) if m2[i] != r2[i]), min(len(m2), len(r2)))
                out.append(('XmlIn.getSegment', 'rebuilt segment %d: impl %r model %r' % (k, r2[k:k + 1], m2[k:k + 1])))
    return out


# ------------------------------------------------------------------------------------ side checks

def map_files():
    from . import gendoc
    return sorted(set(m['map_file'] for m in gendoc.index_entries())) + ['x12.control.00401.xml', 'x12.control.00501.xml']


def check_maps(res, built):
    """per-map hypotheses of the theorems, for every shipped map: noSiblingLoopIdPrefix and wfIds (own statement vs model)"""
    from . import gendoc
    ops, wants, names = [], [], []
    nnodes = 0
    for mf in map_files():
        mp = gendoc.load(mf)
        paths = []
        sib_ok = True

        def loops(n, path):
            nonlocal sib_ok
            kids = [c for o in sorted(n.pos_map) for c in n.pos_map[o] if c.is_loop()]
            for a in kids:
                if a.id == '' or '/' in a.id:
                    sib_ok = False
                for b in kids:
                    if a.id != b.id and b.id.startswith(a.id):
                        sib_ok = False
                paths.append(path + [a.id])
                loops(a, path + [a.id])
        loops(mp, [])
        f = ['X8.SIB', len(paths)]
        for p in paths:
            f.append(len(p))
            f.extend(p)
        ops.append(common.line(*f)); wants.append(sib_ok); names.append(('sibling-loop-prefix', mf, ''))
        for n in mp.loop_segment_iterator():
            if not n.is_segment():
                continue
            nnodes += 1
            ok = re.match(r'^[A-Z][A-Z0-9]{1,2}$', n.id) is not None and len(n.children) <= 99
            for i, c in enumerate(n.children):
                des = '%s%02d' % (n.id, i + 1)
                if int(c.seq) != i + 1:
                    ok = False
                if c.is_composite():
                    for j, sc in enumerate(c.children):
                        m = re.match('^' + re.escape(des) + r'-([0-9]+)$', sc.id or '')
                        if not m or int(m.group(1)) != j + 1:
                            ok = False
                elif c.id != des:
                    ok = False
            d = node_desc(n)
            f = ['X8.WFIDS', n.id, len(d)]
            for kind, seq, nu, ids in d:
                if kind == 'E':
                    f.extend(['E', seq, 1 if nu else 0, ids if ids is not None else '\x00none'])
                else:
                    f.extend(['C', seq, 1 if nu else 0, len(ids)])
                    f.extend([x if x is not None else '\x00none' for x in ids])
            ops.append(common.line(*f)); wants.append(ok); names.append(('ids', mf, n.get_path()))
    for (what, mf, path), w in zip(names, wants):
        res.count()
        if not w:
            res.violation('map:%s:%s:%s' % (mf, what, path), 'per-map hypothesis of C08 does not hold: %s %s %s' % (what, mf, path),
                          {'map': mf, 'node': path, 'hypothesis': what})
    if built:
        ans = common.run_model(ops)
        for (what, mf, path), w, a in zip(names, wants, ans):
            if a != ('1' if w else '0'):
                res.broke('correspondence:XmlOut.' + ('noSiblingLoopIdPrefix' if what != 'ids' else 'wfIds'),
                          '%s %s: harness %s model %s' % (mf, path, w, a))
                break
    res.notes['per_map_hypotheses'] = {'maps': len(map_files()), 'segment_nodes': nnodes, 'exhaustive': True,
                                       'all_hold': all(wants)}


def check_escape(res, rnd, built):
    """model escaping against a real XML parser: parse(<e id='escAttr(s)'>escText(s)</e>) gives s back; model unescape agrees"""
    import xml.etree.ElementTree as ET
    if not built:
        return
    alpha = ['&', '<', '>', "'", '"', ';', 'a', 'm', 'p', 'l', 't', 'g', 'o', 's', 'q', 'u', '#', 'x', ' ', 'é', '6', '5']
    cases = [''.join(FRAGS)] + FRAGS + [''.join(rnd.choice(alpha) for _ in range(rnd.randint(0, 10))) for _ in range(2500)]
    t = common.run_model([common.line('X8.ESC', 't', c) for c in cases])
    a = common.run_model([common.line('X8.ESC', 'a', c) for c in cases])
    ut = common.run_model([common.line('X8.UNESC', common.unesc(x)) for x in t])
    ua = common.run_model([common.line('X8.UNESC', common.unesc(x)) for x in a])
    for c, et_, ea, u1, u2 in zip(cases, t, a, ut, ua):
        res.count()
        et_, ea = common.unesc(et_), common.unesc(ea)
        try:
            el = ET.fromstring("<e id='%s'>%s</e>" % (ea, et_))
            back = ((el.text or ''), el.get('id'))
        except ET.ParseError as e:
            back = ('parse error: %s' % e, None)
        if back != (c, c) or common.unesc(u1) != c or common.unesc(u2) != c:
            res.broke('correspondence:XmlOut.escape', 'escape(%r): text %r attr %r; xml.etree reads %r; model unescape %r %r'
                      % (c, et_, ea, back, common.unesc(u1), common.unesc(u2)))
            break
    res.notes['escape_cases'] = len(cases)


def check_rootpath(res, rnd, built):
    """the model's `_path_list(commonprefix(...))` and match index against Python's own os.path.commonprefix"""
    if not built:
        return
    ids = ['A', 'AB', 'ABC', 'B', '2000', '2000A', '2000AB', '2010', '20', 'ISA_LOOP']
    cases = []
    for _ in range(4000):
        cur = [rnd.choice(ids) for _ in range(rnd.randint(0, 4))]
        if rnd.random() < 0.6:
            k = rnd.randint(0, len(cur))
            last = cur[:k] + [rnd.choice(ids) for _ in range(rnd.randint(0, 3))]
        else:
            last = [rnd.choice(ids) for _ in range(rnd.randint(0, 4))]
        cases.append((cur, last, rnd.random() < 0.5))
    ops = []
    for cur, last, first in cases:
        ops.append(common.line('X8.ROOT', 1 if first else 0, len(cur), *cur, len(last), *last))
    ans = common.run_model(ops)
    for (cur, last, first), a in zip(cases, ans):
        res.count()
        rootp = [x for x in os.path.commonprefix(['/'.join(cur), '/'.join(last)]).split('/') if x != '']
        mi = 0
        for i in range(min(len(cur), len(last))):
            if cur[i] != last[i]:
                break
            mi += 1
        dec = mi - 1 if (first and rootp == cur) else mi
        want = '%s\t%d\t%d' % (common.esc('/'.join(rootp)), mi, dec)
        if a != want:
            res.broke('correspondence:XmlOut.rootPath', 'cur %r last %r first %s: python %r model %r' % (cur, last, first, want, a))
            break
    res.notes['rootpath_cases'] = len(cases)


def check_misfire(res, built):
    """What the code does when the per-map side condition fails (no shipped map does): a copy of the 837 5010 map in which loop
    2010AB is renamed 2010A, so that sibling 2010AA textually extends it.  Expected: the real code closes and re-opens the parent
    loop 2000A (the oracle objects), and the model - which keeps the character-wise commonprefix - writes the same events."""
    import glob
    import shutil
    from . import gendoc
    src_dir = os.path.join(common.REPO, 'pyx12', 'map')
    name = '837.5010.X222.A1.xml'
    if not os.path.exists(os.path.join(src_dir, name)):
        res.notes['misfire_selftest'] = 'map not found: skipped'
        return
    tmp = os.path.join(common.WORK, 'c08_maps_%d' % os.getpid())
    shutil.rmtree(tmp, ignore_errors=True)
    os.makedirs(tmp)
    try:
        for f in glob.glob(os.path.join(src_dir, '*.xml')):
            shutil.copy(f, tmp)
        body = open(os.path.join(tmp, name), encoding='utf-8').read()
        if body.count('<loop xid="2010AB">') != 1:
            res.notes['misfire_selftest'] = 'loop 2010AB not found: skipped'
            return
        open(os.path.join(tmp, name), 'w', encoding='utf-8').write(body.replace('<loop xid="2010AB">', '<loop xid="2010A">'))
        m = [e for e in gendoc.index_entries() if e['map_file'] == name][0]
        text = None
        for k in range(40):
            g = gendoc.Gen(m['map_file'], m['icvn'], m['vriic'], m['fic'], seed=common.seed() * 977 + k, p_opt=0.5, max_rep=1)
            t = g.doc()
            if any('/2010AB/' in n.get_path() for _, n in g.segs) and len(g.segs) < 400:
                text = t
                break
        if text is None:
            res.notes['misfire_selftest'] = 'no document with loop 2010AB generated: skipped'
            return
        o = check_document(text, None, map_path=tmp)
        res.count()
        keys = [k for k, _ in o['viol']]
        note = {'status': o['status'], 'oracle': keys}
        if o['status'] == 'ok' and built and o.get('op'):
            diffs = compare_model(o, common.run_model([o['op']])[0])
            note['model_vs_code'] = [d[0] for d in diffs]
            if [d[0] for d in diffs] != ['hypothesis:GoodFrom']:
                res.broke('correspondence:XmlOut.rootPath-misfire', 'renamed-loop map: model vs code: %r' % (diffs[:2],))
            elif keys != ['pred:loop-instance']:
                res.broke('correspondence:XmlOut.rootPath-misfire', 'renamed-loop map: the code no longer re-opens the parent loop '
                          '(oracle says %r) although the model does' % (keys,))
        res.notes['misfire_selftest'] = note
    finally:
        shutil.rmtree(tmp, ignore_errors=True)


# ------------------------------------------------------------------------------------ driver of the check

def do_case(args):
    cid, seed, built = args
    out = {'cid': cid, 'status': 'ok', 'viol': [], 'desc': None, 'stats': {}, 'model_diffs': None}
    try:
        case = build_case(cid, seed)
    except common.Infra:
        raise
    except Exception as e:
        out['status'] = 'generator:%s' % type(e).__name__
        return out
    if case is None:
        out['status'] = 'generator:none'
        return out
    r = check_document(case['text'], case['intended'])
    r['cid'] = cid
    r['desc'] = case['desc']
    r['digest'] = hashlib.blake2b(case['text'].encode('utf-8', 'surrogatepass'), digest_size=12).hexdigest()
    r['model_diffs'] = None
    if built and r['status'] == 'ok' and r.get('op') is not None and 'real_xml' in r:
        ans = common.run_model([r['op']])[0]
        r['model_diffs'] = compare_model(r, ans)
    if r['viol'] or r['model_diffs']:
        r['text'] = case['text']
    for k in ('op', 'real_xml', 'conv_lines'):      # keep the result small (thorough tier: 10 000 documents through a pool)
        r.pop(k, None)
    return r


def run(tier):
    res = common.Result('C08', tier)
    res.cov['rule'] = ('a case is one generated document (map, seeded structure and values, injected characters, delimiters); distinct by '
                       'text; non-trivial = at least one loop repeat (a first-in-loop segment whose loop path is a prefix of its '
                       'predecessor\'s) ')
    built = common.proof_stage(res, 'C08')
    try:
        import pyx12.x12n_document
        import pyx12.xmlx12_simple
        import pyx12.x12file
        pyx12.x12n_document.x12n_document, pyx12.xmlx12_simple.convert, pyx12.x12file.X12Reader
    except (ImportError, AttributeError) as e:
        raise common.Infra('entry point missing: %s' % e)
    seed = common.seed()
    n = 10000 if tier == 'thorough' else 300
    todo = [(cid, seed, built) for cid in range(n)]
    if tier == 'thorough':
        import multiprocessing
        with multiprocessing.get_context('fork').Pool(min(16, os.cpu_count() or 2)) as pool:
            outs = pool.map(do_case, todo, chunksize=10)
    else:
        outs = [do_case(a) for a in todo]
    status, skipped, delims, extras, maps = {}, {}, {}, {}, set()
    tot = {'nseg': 0, 'loop_repeats': 0, 'composites': 0, 'special_chars': 0, 'edge_blanks': 0, 'comp_id_is_segment_id': 0}
    maxdepth = 0
    ncmp = 0
    nident = 0
    for o in outs:
        st = o['status']
        cls = st if st == 'ok' else ':'.join(st.split(':')[:4 if st.startswith('skip:domain') else 2])
        status[cls] = status.get(cls, 0) + 1
        if st != 'ok':
            if st.startswith('skip:'):
                key = (o.get('desc') or {}).get('map', '?') + ' ' + st[5:]
                skipped[key] = skipped.get(key, 0) + 1
            continue
        res.count()
        d = o['desc']
        maps.add(d['map'])
        delims[d['delims']] = delims.get(d['delims'], 0) + 1
        for x in d['extras']:
            extras[x] = extras.get(x, 0) + 1
        for k2 in tot:
            tot[k2] += o['stats'].get(k2, 0)
        maxdepth = max(maxdepth, o['stats'].get('max_depth', 0))
        res.distinct(o['digest'], nontrivial=o['stats'].get('loop_repeats', 0) > 0)
        res.sample({'map': d['map'], 'delims': d['delims'], 'extras': d['extras'], 'specials': d['specials'],
                    'segments': o['stats'].get('nseg'), 'loop_repeats': o['stats'].get('loop_repeats'),
                    'violations': [v[0] for v in o['viol']]})
        for key, what in o['viol']:
            res.violation(key, what, {'call': 'x12n_document(params(), StringIO(text), None, None, fd_xmldoc=StringIO()); '
                                              'xmlx12_simple.convert(StringIO(xml), out)',
                                      'text': o['text'], 'case': d, 'key': key})
        if o['model_diffs'] is not None:
            ncmp += 1
            nident += 1 if o.get('text_identical') else 0
            for name, detail in o['model_diffs']:
                if not o['viol']:
                    res.broke('correspondence:' + name, 'case %d (%s): %s' % (o['cid'], d['map'], detail))
    rnd = random.Random(seed * 31 + 8)
    check_maps(res, built)
    check_escape(res, rnd, built)
    check_rootpath(res, rnd, built)
    check_misfire(res, built)
    res.notes['input_distribution'] = {'status': status, 'delimiters': delims, 'extras': extras, 'maps': len(maps),
                                       'max_loop_depth': maxdepth}
    res.notes['totals'] = tot
    res.notes['model_comparisons'] = ncmp
    res.notes['xml_text_identical_to_model'] = nident
    res.notes['disagreements_checked'] = ncmp
    res.notes['skipped'] = dict(sorted(skipped.items(), key=lambda kv: -kv[1])[:40])
    res.assumptions = [
        'domain: data characters exclude C0 controls, the output delimiters ~ * : of xmlx12_simple and the document\'s own delimiters',
        'scope: documents in which every segment is located in its map (walker node = generator node, no segment-level error in the '
        '997/999, decided by a run without XML sink); the others are counted in the note "skipped"; ISA16/ISA11 echo the component/repetition separator as data, so a C0 control there is outside the domain (counted; the XML is then not well formed)',
        'data fits the node (no more elements / sub-elements than the node defines, one value in a simple element): otherwise C07 (D18)',
        'xml.etree is trusted to invert well-formed serialisation',
    ]
    if built:
        # sinks end to end: the XML (byte for byte) and HTML of the real x12n_document against Model/DocSinks.lean
        from . import doc as docmod, docsinks
        docsinks.attach(res, [t for _, t in docmod.small_corpus(seed * 3 + 8, 60 if tier == 'thorough' else 24)], 'c08-sample')
        from . import c08text
        c08text.attach(res, tier)
    return res.finish(trusted=common.TRUSTED_COMMON + [
        'modelled: XMLWriter.push/elem/pop/_escape_*/_indent, x12xml._path_list/_get_path_match_idx, x12xml_simple.__init__/seg/__del__, '
        'xmlx12_simple.convert/get_segment, Segment.set/get/format; not modelled: X12Writer (trailers are regenerated by it; oracle only), '
        'the walker (its node is an input)',
        'per-map hypotheses (noSiblingLoopIdPrefix, wfIds) are evaluated for every shipped map by the compiled model and by an '
        'independent Python statement, not kernel-decided'])


def replay(d):
    r = d['replay']
    if 'text' not in r:
        print('no document in this replay: %s' % d.get('what'))
        for b in r.get('broken', []):
            print('  %s: %s' % (b['name'], b['detail'][:400]))
        return 1
    o = check_document(r['text'])
    print('status: %s' % o['status'])
    for key, what in o['viol']:
        print('%s: %s' % (key, what))
    keys = [k for k, _ in o['viol']]
    return 1 if (r.get('key') in keys or (keys and r.get('key') is None)) else 0
