"""
C07 - validation is total: any input yields a verdict or a documented refusal.

Proof side (Props/C07.lean, PARTIAL): `pipeline_total` - the composed model `readAndCheck` (tokeniser C01 -> segment
construction -> envelope bookkeeping C04 -> per-segment element / composite / syntax-note validation C13-C15 over an
abstract matched-node oracle) never ends in `crash`, for every text, read-size oracle and oracle.  NOT in that
composition: the walker-to-validation glue of x12n_document (node is None fallback, map switching), the error tree
(err_handler), the 997/999 visitors, the HTML and XML sinks, the context reader's tree building, logging.  Those are
covered only by the fuzz below.

Tie / search (this file): structural mutation fuzz.  A directed corpus (DIRECTED: the minimised inputs of every crash
class found so far, run through every entry point, all 8 sink subsets x both charsets) and then conformant documents of
every indexed map (harness/gendoc.py) x mutation kinds (MUTATIONS, one or two composed) plus arbitrary strings, through
three entry points (quick: two complementary sink/charset configurations and two loop ids sampled per input, seeded;
thorough: all 8 sink subsets with alternating charset, four loop ids; multiprocessing):
  x12n   pyx12.x12n_document.x12n_document   x sink subsets (997, HTML, XML) x charset B / E
  reader pyx12.x12file.X12Reader: iteration, pop_errors() after every segment, cleanup(), pop_errors()
  ctx    pyx12.x12context.X12ContextReader(...).iter_segments(loop_id) for loop_id None and a few loop ids
Oracle: outcome in {bool verdict / iteration completed, documented refusal}.  Documented refusals: X12Error raised by
rawx12file.py / x12file.py (input that is not an interchange, malformed ISA); EngineError("Map not found ...") raised
by x12n_document.py / x12context.py.  Anything else is a violation keyed crash:<ExceptionType>:<innermost pyx12
file>:<function> (or hang:<entry point>), with a delta-debugged replay (segments, then elements, then long values are
dropped while the same key reproduces).  Exceptions x12n_document swallows inside the acknowledgement visitors are
C06's business and are not counted here.
When the model driver offers the op `C07R`, the reader-level part of the composed model is also run on every mutant
and its outcome class (refused / raised at segment k / completed with n segments) is compared with the real reader.
"""
import io
import multiprocessing
import os
import random
import signal
import time
import traceback

from . import common

SINKS = [(a, h, x) for a in (False, True) for h in (False, True) for x in (False, True)]
GENERIC_LOOPS = ['ISA_LOOP', 'GS_LOOP', 'ST_LOOP', 'HEADER', 'DETAIL', '2000A', '2000', '2300', '2400', '1000A', '2100', 'NOPE']
TIMEOUT_S = 60


class Hang(BaseException):
    pass


def _alarm(signum, frame):
    raise Hang()


# ------------------------------------------------------------------------------------ entry points

def where(tb):
    """innermost frame inside pyx12: (file, function)"""
    loc = ('?', '?')
    for fr in traceback.extract_tb(tb):
        fn = fr.filename.replace('\\', '/')
        if '/pyx12/' in fn:
            loc = (fn.split('/pyx12/')[-1], fr.name)
    return loc


def exc_info(ex):
    f, fn = where(ex.__traceback__)
    return (type(ex).__name__, f, fn, str(ex)[:160])


def run_x12n(text, sinks, charset):
    """('verdict', bool) | ('exc', (type, file, func, msg)) | ('notbool', repr)"""
    from . import pipeline
    r = pipeline.validate(text, sinks[0], sinks[1], sinks[2], charset)
    if r.exc is not None:
        return ('exc', tuple(r.exc))
    if r.verdict is True or r.verdict is False:
        return ('verdict', r.verdict)
    return ('notbool', repr(r.verdict))


def run_reader(text):
    """('done', number of segments) | ('exc', ...)"""
    try:
        import pyx12.x12file
        reader_cls = pyx12.x12file.X12Reader
    except (ImportError, AttributeError) as e:
        raise common.Infra('entry point pyx12.x12file.X12Reader missing: %r' % (e,))
    n = 0
    try:
        src = reader_cls(io.StringIO(text))
        for seg in src:
            n += 1
            src.pop_errors()
        src.cleanup()
        src.pop_errors()
    except Exception as ex:
        return ('exc', exc_info(ex), n)
    return ('done', n)


def run_ctx(text, loop_id):
    """('done', number of yielded nodes) | ('exc', ...)"""
    try:
        import pyx12.error_handler
        import pyx12.params
        import pyx12.x12context
        ctx_cls = pyx12.x12context.X12ContextReader
    except (ImportError, AttributeError) as e:
        raise common.Infra('entry point pyx12.x12context.X12ContextReader missing: %r' % (e,))
    n = 0
    try:
        param = pyx12.params.params()
        errh = pyx12.error_handler.errh_null()
        src = ctx_cls(param, errh, io.StringIO(text))
        for node in src.iter_segments(loop_id):
            n += 1
    except Exception as ex:
        return ('exc', exc_info(ex), n)
    return ('done', n)


def judge(entry, out):
    """-> (outcome kind, violation key or None)"""
    if out[0] == 'verdict':
        return ('verdict:%s' % out[1], None)
    if out[0] == 'done':
        return ('completed', None)
    if out[0] == 'notbool':
        return ('not-a-bool', 'pred:verdict-not-a-bool')
    if out[0] == 'hang':
        return ('hang', 'hang:%s' % entry)
    t, f, fn, msg = out[1]
    if t == 'X12Error' and f in ('rawx12file.py', 'x12file.py'):
        return ('refusal:not-x12', None)
    if t == 'EngineError' and msg.startswith('Map not found') and f in ('x12n_document.py', 'x12context.py') \
            and entry in ('x12n', 'ctx'):
        return ('refusal:map-not-found', None)
    return ('crash', 'crash:%s:%s:%s' % (t, f, fn))


def call(entry, text, cfg, limit=None):
    """run one entry point under the watchdog; cfg = (sinks, charset) or loop id or None.
    No answer within TIMEOUT_S is retried once with four times the limit before it is called a hang."""
    limit = limit or TIMEOUT_S
    old = signal.signal(signal.SIGALRM, _alarm)
    signal.setitimer(signal.ITIMER_REAL, limit)
    try:
        if entry == 'x12n':
            return run_x12n(text, cfg[0], cfg[1])
        if entry == 'reader':
            return run_reader(text)
        return run_ctx(text, cfg)
    except Hang:
        pass
    finally:
        signal.setitimer(signal.ITIMER_REAL, 0)
        signal.signal(signal.SIGALRM, old)
    if limit == TIMEOUT_S:
        return call(entry, text, cfg, 4 * TIMEOUT_S)
    return ('hang',)


# ------------------------------------------------------------------------------------ mutations
# every mutation works on S = list of segment strings in canonical form (separator *, component :, no terminator)
# and returns either None (S changed in place) or the complete text

def _fields(s):
    return s.split('*')


def _pos(S, r, lo=1):
    return r.randrange(lo, len(S)) if len(S) > lo else 0


def _find(S, sid):
    return [i for i, s in enumerate(S) if s.split('*')[0] == sid]


def _setf(S, i, k, v):
    f = _fields(S[i])
    while len(f) <= k:
        f.append('')
    f[k] = v
    S[i] = '*'.join(f)


def _text(S):
    return ''.join(s + '~\n' for s in S)


def m_delete(S, r):
    del S[_pos(S, r, 0 if r.random() < 0.05 else 1)]


def m_delete_block(S, r):
    j = _pos(S, r)
    del S[j:j + r.randrange(2, 12)]


def m_duplicate(S, r):
    j = _pos(S, r, 0 if r.random() < 0.1 else 1)
    for _ in range(r.choice((1, 1, 1, 2, 30))):
        S.insert(j, S[j])


def m_swap(S, r):
    j = _pos(S, r)
    k = min(len(S) - 1, j + 1)
    S[j], S[k] = S[k], S[j]


def m_move(S, r):
    x = S.pop(_pos(S, r))
    S.insert(_pos(S, r), x)


def m_reverse_block(S, r):
    j = _pos(S, r)
    k = j + r.randrange(2, 15)
    S[j:k] = S[j:k][::-1]


def m_shuffle(S, r):
    body = S[1:]
    r.shuffle(body)
    S[1:] = body


def m_truncate(S, r):
    t = _text(S)
    return t[:r.randrange(0, len(t))]


def m_truncate_header(S, r):
    t = _text(S)
    return t[:r.randrange(0, 120)]


RETAGS = ['ZZZ', 'zz', 'A', 'ABCD', '123', '', ' NM1', 'N M', 'ISA', 'IEA', 'GS', 'GE', 'ST', 'SE', 'HL', 'LX', 'BHT', 'CLM', 'TA1', 'LS', 'LE',
          'NM1', 'REF', 'DTP', 'Né1', 'I\x00A']


def m_retag(S, r):
    j = _pos(S, r)
    f = _fields(S[j])
    f[0] = r.choice(RETAGS) if r.random() < 0.6 else _fields(S[_pos(S, r)])[0]
    S[j] = '*'.join(f)


def m_unknown_segment(S, r):
    S.insert(_pos(S, r), r.choice(('ZZZ*1', 'ZZZ', 'XX*A*B*C:D', 'QTY*QQ*1')))


def m_orphan_trailer(S, r):
    sid = r.choice(('SE', 'GE', 'IEA'))
    src = _find(S, sid)
    s = S[src[0]] if src and r.random() < 0.7 else r.choice((sid + '*1*0001', sid + '*1*1', sid))
    S.insert(_pos(S, r), s)


def m_duplicate_trailer(S, r):
    for sid in r.sample(('SE', 'GE', 'IEA'), r.randrange(1, 4)):
        for i in _find(S, sid)[::-1]:
            S.insert(i, S[i])


def m_trailer_first(S, r):
    sid = r.choice(('SE', 'GE', 'IEA'))
    for i in _find(S, sid)[:1]:
        S.insert(r.choice((1, 1, 2, 3)), S.pop(i))


def m_delete_header(S, r):
    for sid in r.sample(('GS', 'ST'), r.choice((1, 1, 2))):
        for i in _find(S, sid)[::-1]:
            del S[i]


def m_delete_trailer(S, r):
    for sid in r.sample(('SE', 'GE', 'IEA'), r.randrange(1, 4)):
        for i in _find(S, sid)[::-1]:
            del S[i]


def m_duplicate_header(S, r):
    sid = r.choice(('ISA', 'GS', 'ST'))
    for i in _find(S, sid)[:1]:
        S.insert(r.choice((i, i, _pos(S, r))), S[i])


def m_second_interchange(S, r):
    T = list(S)
    if r.random() < 0.5:
        for i in _find(T, 'ISA'):
            _setf(T, i, 13, '000000002')
        for i in _find(T, 'IEA'):
            _setf(T, i, 2, '000000002')
    S.extend(T)


def m_second_group(S, r):
    a, b = _find(S, 'GS'), _find(S, 'GE')
    if a and b and a[0] < b[0]:
        blk = S[a[0]:b[0] + 1]
        if r.random() < 0.5:
            blk = [s for s in blk]
            _setf(blk, 0, 6, '2')
            _setf(blk, len(blk) - 1, 2, '2')
        S[b[0] + 1:b[0] + 1] = blk
        for i in _find(S, 'IEA'):
            if r.random() < 0.7:
                _setf(S, i, 1, '2')


def m_second_set(S, r):
    a, b = _find(S, 'ST'), _find(S, 'SE')
    if a and b and a[0] < b[0]:
        blk = list(S[a[0]:b[0] + 1])
        if r.random() < 0.6:
            _setf(blk, 0, 2, '0002')
            _setf(blk, len(blk) - 1, 2, '0002')
        S[b[0] + 1:b[0] + 1] = blk
        for i in _find(S, 'GE'):
            if r.random() < 0.7:
                _setf(S, i, 1, '2')


BAD_NUMBERS = ['X', '', '1.0', '-1', ' 1', '1 ', '+1', '0', '00', '1e3', '1_0', '١', '9' * 30, '9' * 5000, '0x1', 'None', '²', '1:2', '*']
COUNT_ELEMS = [('SE', 1), ('GE', 1), ('IEA', 1), ('HL', 1), ('HL', 2), ('LX', 1), ('HL', 3), ('HL', 4)]
CTL_ELEMS = [('ISA', 13), ('IEA', 2), ('GS', 6), ('GE', 2), ('ST', 2), ('SE', 2), ('ST', 1)]


def m_count_nonnumeric(S, r):
    cands = [(i, k) for sid, k in COUNT_ELEMS for i in _find(S, sid)]
    if cands:
        i, k = r.choice(cands)
        v = r.choice(BAD_NUMBERS)
        if v == '*':
            S[i] = S[i] + '***'
        else:
            _setf(S, i, k, v)


def m_count_absent(S, r):
    cands = [i for sid in ('SE', 'GE', 'IEA', 'HL', 'LX', 'ST', 'GS') for i in _find(S, sid)]
    if cands:
        i = r.choice(cands)
        f = _fields(S[i])
        S[i] = '*'.join(f[:r.choice((1, 1, 2))]) + r.choice(('', '', '*'))


def m_control_number(S, r):
    cands = [(i, k) for sid, k in CTL_ELEMS for i in _find(S, sid)]
    if cands:
        i, k = r.choice(cands)
        v = r.choice(BAD_NUMBERS + ['000000001', '0001', '1', '2'])
        if _fields(S[i])[0] == 'ISA' and k == 13:
            v = (v + ' ' * 9)[:9] if r.random() < 0.8 else v
        if v != '*':
            _setf(S, i, k, v)


def _long_value(S, r, n):
    j = _pos(S, r)
    f = _fields(S[j])
    k = r.randrange(1, len(f)) if len(f) > 1 else 1
    _setf(S, j, k, r.choice('A1 9') * n if r.random() < 0.8 else ('AB:' * (n // 3)))


def m_long_segment_8k(S, r):
    _long_value(S, r, r.choice((8100, 8192, 9000, 20000)))


def m_long_segment_64k(S, r):
    _long_value(S, r, r.choice((66000, 70000, 140000)))


def m_many_elements(S, r):
    j = _pos(S, r)
    S[j] = S[j] + '*' + '*'.join(r.choice(('A', '', '1', 'A:B')) for _ in range(r.choice((1, 2, 5, 40, 100, 300))))


def m_many_subelements(S, r):
    j = _pos(S, r)
    f = _fields(S[j])
    k = r.randrange(1, len(f)) if len(f) > 1 else 1
    _setf(S, j, k, ':'.join(r.choice(('A', '', '1', 'HC')) for _ in range(r.choice((2, 3, 8, 12, 60)))))


def m_empty_segment(S, r):
    S.insert(_pos(S, r), r.choice(('', '', '\n', '\r\n', '*', '**', ':', '*:')))


def m_blank_segment(S, r):
    S.insert(_pos(S, r), r.choice((' ', '   ', '\t', ' \t ', '\x0b', '\xa0', ' *', '  *A')))


def m_id_only(S, r):
    j = _pos(S, r)
    S[j] = _fields(S[j])[0] + r.choice(('', '*', '***', '*:', '*::*:'))


def m_blank_elements(S, r):
    j = _pos(S, r)
    f = _fields(S[j])
    for k in range(1, len(f)):
        if r.random() < 0.7:
            f[k] = r.choice(('', '', ' ', ':', '::'))
    S[j] = '*'.join(f)


def m_blank_component(S, r):
    """one component of a composite blanked, the others kept (`HI*BK:317*:4280`); or a simple element given an empty first component"""
    cands = [(j, k) for j in range(1, len(S)) for k, v in enumerate(_fields(S[j])) if k > 0 and ':' in v and v.strip(':')]
    if cands and r.random() < 0.8:
        j, k = r.choice(cands)
        f = _fields(S[j])
        c = f[k].split(':')
        i = 0 if r.random() < 0.6 else r.randrange(len(c))
        c[i] = r.choice(('', '', ' '))
        f[k] = ':'.join(c)
        S[j] = '*'.join(f)
    else:
        j = _pos(S, r)
        f = _fields(S[j])
        if len(f) > 1:
            k = r.randrange(1, len(f))
            f[k] = ':' + f[k]
            S[j] = '*'.join(f)


def m_leading_space(S, r):
    j = _pos(S, r, 0 if r.random() < 0.1 else 1)
    S[j] = r.choice((' ', '   ', ' \t', '\t')) + S[j]


def m_trailing_separator(S, r):
    j = _pos(S, r)
    S[j] = S[j] + r.choice(('*', '**', '*:', ':', ' '))


def m_isa_length(S, r):
    f = _fields(S[0])
    k = r.randrange(1, len(f))
    f[k] = r.choice((f[k][:-1], f[k] + ' ', '', f[k] * 2))
    S[0] = '*'.join(f)


def m_isa_elements(S, r):
    """ISA of the right length with 15 or 17 elements (a separator lost or gained)"""
    s = S[0]
    idx = [i for i, c in enumerate(s) if c == '*']
    if r.random() < 0.5 and len(idx) > 2:
        i = r.choice(idx[1:])
        s = s[:i] + 'X' + s[i + 1:]
    else:
        cand = [i for i, c in enumerate(s) if c == ' ']
        if cand:
            i = r.choice(cand)
            s = s[:i] + '*' + s[i + 1:]
    S[0] = s


def m_isa_inside(S, r):
    """a second ISA inside the document, well-formed or with a wrong element count"""
    s = S[0]
    if r.random() < 0.6:
        cand = [i for i, c in enumerate(s) if c == ' ']
        if cand:
            i = r.choice(cand)
            s = s[:i] + '*' + s[i + 1:]
    S.insert(_pos(S, r), r.choice((s, 'ISA', 'ISA*00', s[:50])))


def m_garbage_header(S, r):
    t = _text(S)
    k = r.choice(('prefix', 'isa-random', 'lower', 'bom', 'newline', 'short'))
    if k == 'prefix':
        return ''.join(chr(r.randrange(32, 127)) for _ in range(r.randrange(1, 8))) + t
    if k == 'isa-random':
        return 'ISA' + ''.join(chr(r.randrange(32, 127)) for _ in range(103)) + t[106:]
    if k == 'lower':
        return 'isa' + t[3:]
    if k == 'bom':
        return '﻿' + t
    if k == 'newline':
        return r.choice(('\n', '\r\n', ' ')) + t
    return t[:r.randrange(0, 106)]


def m_version_unknown(S, r):
    _setf(S, 0, 12, r.choice(('00999', '00200', '00400', '00501', '00401', '     ', '0040A', '00502')))


def m_gs08_unknown(S, r):
    for i in _find(S, 'GS'):
        _setf(S, i, 8, r.choice(('009999', '004010', '005010', '', '004010X999', '005010X222', '004010X098A1', '005010X231A1', 'X' * 40, '004010X094A1')))


def m_gs01_unknown(S, r):
    for i in _find(S, 'GS'):
        _setf(S, i, 1, r.choice(('ZZ', '', 'HC', 'FA', 'HP', 'HS', 'hc', 'H')))


def m_st01_unknown(S, r):
    for i in _find(S, 'ST'):
        if r.random() < 0.5:
            _setf(S, i, 1, r.choice(('999', '837', '835', '', '000', 'ABC', '997')))
        else:
            _setf(S, i, 3, r.choice(('009999', '005010X222A1', '', '004010X098A1', 'X')))


def m_bht02_unknown(S, r):
    c = _find(S, 'BHT')
    if c:
        _setf(S, c[0], 2, r.choice(('ZZ', '', '11', '13', '00', '18', 'X' * 10)))
    else:
        S.insert(min(len(S), 3), r.choice(('BHT*0010*13*1*20200101', 'BHT*0078*11*A*20200101*1200', 'BHT')))


NON_ASCII = ['é', 'üß', ' ', '\U0001f600', '\xa0', '١٢', 'Á', '​', 'Ａ', '\x85']
CONTROL = ['\x00', '\x07', '\x1b', '\t', '\x7f', '\r', '\n', '\x0c', '\x1c', '\x01\x02']
MARKUP = ['<', '&', '>', '"', "'", ']]>', '<b>x</b>', '&amp;', '<!--', '\\', '%s', '{0}', '%(x)s']


def _char_value(S, r, pool):
    j = _pos(S, r, 0 if r.random() < 0.05 else 1)
    f = _fields(S[j])
    k = r.randrange(0 if r.random() < 0.1 else 1, len(f)) if len(f) > 1 else 0
    c = r.choice(pool)
    v = f[k]
    if j == 0:
        f[k] = (c + v)[:len(v)] if r.random() < 0.8 else c + v
    else:
        f[k] = r.choice((c, v + c, c + v, v[:1] + c + v[1:]))
    S[j] = '*'.join(f)


def m_non_ascii(S, r):
    _char_value(S, r, NON_ASCII)


def m_control_char(S, r):
    _char_value(S, r, CONTROL)


def m_markup_char(S, r):
    _char_value(S, r, MARKUP)


def m_alt_delimiters(S, r):
    from .c12 import TRIPLES, BREAKS, reencode
    term, ele, sub = r.choice(TRIPLES[1:] + [('\x1c', '\x1d', '\x1f'), ('~', '*', '\\'), ('\r', '*', ':'), ('~', '|', '^')])
    icvn = _fields(S[0])[12] if len(_fields(S[0])) > 12 else ''
    try:
        return reencode(_text(S), term, ele, sub, r.choice(BREAKS), icvn)
    except IndexError:
        return _text(S)


def m_delimiter_clash(S, r):
    """delimiters that coincide with each other or with data characters"""
    t = _text(S)
    if len(t) < 106:
        return t
    k = r.choice(('sub=ele', 'term=ele', 'sub=term', 'ele=A', 'term=0', 'sub=space', 'term=space', 'rep=ele'))
    h = list(t[:106])
    if k == 'sub=ele':
        h[104] = h[3]
    elif k == 'term=ele':
        h[105] = h[3]
    elif k == 'sub=term':
        h[104] = h[105]
    elif k == 'ele=A':
        return t.replace('*', 'A')
    elif k == 'term=0':
        return t.replace('~', '0')
    elif k == 'sub=space':
        h[104] = ' '
    elif k == 'term=space':
        return t.replace('~', ' ')
    elif k == 'rep=ele':
        h[82] = h[3]
    return ''.join(h) + t[106:]


def m_no_line_breaks(S, r):
    return ''.join(s + '~' for s in S) + r.choice(('', '\n', '\x1a', ' ', '~~~'))


def m_fault_values(S, r):
    from .c12 import inject
    return inject(_text(S), r)[0]


MUTATIONS = [
    ('delete', m_delete), ('delete-block', m_delete_block), ('duplicate', m_duplicate), ('reorder-swap', m_swap),
    ('reorder-move', m_move), ('reorder-reverse', m_reverse_block), ('reorder-shuffle', m_shuffle),
    ('truncate', m_truncate), ('truncate-header', m_truncate_header), ('retag', m_retag), ('unknown-segment', m_unknown_segment),
    ('orphan-trailer', m_orphan_trailer), ('duplicate-trailer', m_duplicate_trailer), ('trailer-first', m_trailer_first),
    ('delete-header', m_delete_header), ('delete-trailer', m_delete_trailer), ('duplicate-header', m_duplicate_header),
    ('second-interchange', m_second_interchange), ('second-group', m_second_group), ('second-set', m_second_set),
    ('count-nonnumeric', m_count_nonnumeric), ('count-absent', m_count_absent), ('control-number', m_control_number),
    ('long-segment-8k', m_long_segment_8k), ('long-segment-64k', m_long_segment_64k), ('many-elements', m_many_elements),
    ('many-subelements', m_many_subelements), ('empty-segment', m_empty_segment), ('blank-segment', m_blank_segment),
    ('id-only', m_id_only), ('blank-elements', m_blank_elements), ('leading-space', m_leading_space),
    ('trailing-separator', m_trailing_separator), ('isa-length', m_isa_length), ('isa-elements', m_isa_elements),
    ('isa-inside', m_isa_inside), ('garbage-header', m_garbage_header), ('version-unknown', m_version_unknown),
    ('gs08-unknown', m_gs08_unknown), ('gs01-unknown', m_gs01_unknown), ('st01-st03-unknown', m_st01_unknown),
    ('bht02-unknown', m_bht02_unknown), ('non-ascii', m_non_ascii), ('control-char', m_control_char),
    ('markup-char', m_markup_char), ('alt-delimiters', m_alt_delimiters), ('delimiter-clash', m_delimiter_clash),
    ('no-line-breaks', m_no_line_breaks), ('fault-values', m_fault_values), ('blank-component', m_blank_component),
]
MUT = dict(MUTATIONS)
SEGMENT_LEVEL = [k for k, _ in MUTATIONS if k not in ('truncate', 'truncate-header', 'garbage-header', 'alt-delimiters',
                                                      'delimiter-clash', 'no-line-breaks', 'fault-values')]


def apply_mutation(kind, text, r):
    """canonical text -> mutated text; kind 'a+b' applies a (segment level) then b"""
    S = [s[:-1] if s.endswith('~') else s for s in text.strip('\n').split('\n')]
    for k in kind.split('+'):
        if len(S) < 2:
            break
        out = MUT[k](S, r)
        if out is not None:
            return out
    return _text(S)


ALPHABET_X12 = 'ISAGETHLNM1REF*~:^|>\n 0123456789'


def arbitrary(r):
    """arbitrary strings: (sub-kind, text)"""
    k = r.choice(('empty', 'random-unicode', 'random-ascii', 'x12-alphabet', 'isa-prefix', 'isa-106-random', 'header-only',
                  'header-garbage', 'header-x12-alphabet', 'header-no-terminator', 'whitespace', 'binary'))
    hdr = 'ISA*00*          *00*          *ZZ*SENDER         *ZZ*RECEIVER       *200101*1200*U*00401*000000001*0*P*:~'
    if r.random() < 0.5:
        hdr = hdr.replace('*U*00401*', '*^*00501*')
    n = r.choice((0, 1, 3, 50, 105, 106, 107, 300, 3000))
    if k == 'empty':
        return k, ''
    if k == 'random-unicode':
        return k, ''.join(chr(r.choice((r.randrange(32, 127), r.randrange(0, 0x3000), r.randrange(0x10000, 0x10400)))) for _ in range(n))
    if k == 'random-ascii':
        return k, ''.join(chr(r.randrange(0, 128)) for _ in range(n))
    if k == 'x12-alphabet':
        return k, ''.join(r.choice(ALPHABET_X12) for _ in range(n))
    if k == 'isa-prefix':
        return k, 'ISA' + ''.join(r.choice(ALPHABET_X12) for _ in range(n))
    if k == 'isa-106-random':
        v = r.choice(('00401', '00501'))
        body = [chr(r.randrange(32, 127)) for _ in range(103)]
        body[81:86] = list(v)
        return k, 'ISA' + ''.join(body) + ''.join(r.choice(ALPHABET_X12) for _ in range(n))
    if k == 'header-only':
        return k, hdr + r.choice(('', '\n', '~', 'IEA*0*000000001~', 'GS~', 'ST~', 'SE~', 'GE~IEA~', 'GS*HC*A*B*20200101*1200*1*X*004010X098A1~'))
    if k == 'header-garbage':
        return k, hdr + ''.join(chr(r.randrange(32, 127)) for _ in range(n))
    if k == 'header-x12-alphabet':
        return k, hdr + ''.join(r.choice(ALPHABET_X12) for _ in range(n))
    if k == 'header-no-terminator':
        return k, hdr + 'GS*HC*A*B*20200101*1200*1*X*004010X098A1' + 'A' * n
    if k == 'whitespace':
        return k, ''.join(r.choice(' \n\r\t') for _ in range(n))
    return k, ''.join(chr(r.randrange(0, 256)) for _ in range(n))


# ------------------------------------------------------------------------------------ directed corpus
# minimised inputs of crash classes found earlier (delta-debugged replays): run first in every tier, through every entry
# point, all 8 sink subsets x both charsets and a fixed list of loop ids, so that a known crash site is reported
# deterministically and not only when a random mutant happens to reach it

HDR4 = 'ISA*00*          *00*          *ZZ*SENDER         *ZZ*RECEIVER       *200101*1200*U*00401*000000001*0*P*:~'
HDR5 = 'ISA*00*          *00*          *ZZ*SENDER         *ZZ*RECEIVER       *200101*1200*^*00501*000000001*0*P*:~'
DIRECTED_LOOPS = [None, 'DETAIL', 'ISA_LOOP', 'GS_LOOP', 'ST_LOOP', '2000A']
DIRECTED = [
    ('header-only', HDR4), ('header-only-5010', HDR5),
    ('orphan-GE-bare', HDR4 + 'GE~'), ('orphan-SE-bare', HDR4 + 'SE~'), ('orphan-IEA-bare', HDR4 + 'IEA~'),
    ('orphan-GE', HDR5 + 'GE*1*1~'), ('orphan-SE', HDR4 + 'SE*1*0001~IEA*0*000000001~'),
    ('TA1-bare', HDR4 + 'TA1~'), ('TA1-bad-element', HDR4 + 'TA1*000000001*200101*1200*X*000~IEA*0*000000001~'),
    ('GS-blank', HDR4 + 'GS********~'), ('GS-bare', HDR4 + 'GS~'), ('GS-blank-GE', HDR4 + 'GS********~GE*0*~IEA*1*000000001~'),
    ('GE-count-absent', HDR4 + 'GS*FA*******004010~GE~'), ('GE-count-empty', HDR4 + 'GS*FA*******004010~GE*~'),
    ('GE-count-nonnumeric', HDR4 + 'GS*FA*A*B*20200101*1200*1*X*004010~GE*X*1~IEA*1*000000001~'),
    ('hundred-elements', HDR4 + 'IEA' + '*' * 100 + 'A~'), ('hundred-elements-in-set', HDR4 + 'GS*HB*A*B*20200101*1200*1*X*004010X092A1~ST*271*0001~BHT' + '*' * 100 + 'A~'),
    ('surplus-element-after-IEA', HDR4 + 'IEA~AK9***1~'), ('surplus-subelements', HDR4 + 'GS*HB:1:2:3*A*B*20200101*1200*1*X*004010X092A1~'),
    ('HL-without-loop-start', HDR4 + 'GS*HB*******004010X092A1~ST*271~HL***20~'),
    ('IEA-inside-set', HDR4 + 'GS*HN*******004010X093A1~ST*277~IEA~'),
    ('278-BHT-map-switch', HDR4 + 'GS*HI*******004010X094A1~ST*278~BHT*0078*13~'),
    ('278-BHT-unknown-purpose', HDR4 + 'GS*HI*******004010X094A1~ST*278~BHT*0078*ZZ~'),
    ('element-separator-is-A', HDR4.replace('*', 'A') + 'GS~'),
    ('ST-without-GS', HDR4 + 'ST*837*0001~SE*1*0001~IEA*0*000000001~'),
    ('segment-between-GS-and-ST', HDR4 + 'GS*HC*A*B*20200101*1200*1*X*004010X098A1~REF*1~ST*837*0001~SE*2*0001~GE*1*1~IEA*1*000000001~'),
    ('second-ISA-short', HDR4 + 'ISA*1~'), ('unknown-GS08', HDR4 + 'GS*HC*A*B*20200101*1200*1*X*009999~'),
    ('830-second-interchange-00400', HDR4 + 'IEA*0*000000001~' + HDR4.replace('*00401*000000001', '*00400*000000002') +
     'GS*PS*S*R*20200101*1200*1*X*004010~ST*830*0001~CTT*1~SE*3*0001~GE*1*1~IEA*1*000000002~'),
]


def directed_runs():
    out = []
    for name, text in DIRECTED:
        for s in SINKS:
            for cs in ('B', 'E'):
                out.append((name, text, 'x12n', (s, cs)))
        out.append((name, text, 'reader', None))
        for lid in DIRECTED_LOOPS:
            out.append((name, text, 'ctx', lid))
    return out


# ------------------------------------------------------------------------------------ cases

_ENTRIES = None
_DOCS = {}


def entries():
    global _ENTRIES
    if _ENTRIES is None:
        from . import gendoc
        _ENTRIES = gendoc.index_entries()
    return _ENTRIES


def base_doc(mi, gseed, p_opt, max_rep):
    """(canonical text, loop ids on the paths of its segments) - cached per process"""
    key = (mi, gseed, p_opt, max_rep)
    if key not in _DOCS:
        from . import gendoc
        m = entries()[mi]
        g = gendoc.Gen(m['map_file'], m['icvn'], m['vriic'], m['fic'], seed=gseed, p_opt=p_opt, max_rep=max_rep, tspc=m.get('tspc'))
        text = g.doc()
        loops = []
        for _, node in g.segs:
            for part in node.get_path().split('/')[1:-1]:
                if part not in loops:
                    loops.append(part)
        if len(_DOCS) > 400:
            _DOCS.clear()
        _DOCS[key] = (text, loops)
    return _DOCS[key]


def make_case(spec):
    """spec = (case index, seed, tier flag, 'doc'|'arb', map index, gen seed, p_opt, max_rep, mutation kind) -> (label dict, text, loop ids)"""
    idx, seed, kindsel = spec[0], spec[1], spec[3]
    r = random.Random(seed * 1000003 + idx * 7919 + 7)
    if kindsel == 'arb':
        sub, text = arbitrary(r)
        return {'map': '-', 'mutation': 'arbitrary:' + sub}, text, []
    mi, gseed, p_opt, max_rep, kind = spec[4:9]
    text, loops = base_doc(mi, gseed, p_opt, max_rep)
    m = entries()[mi]
    if kind == 'none':
        mt = text
    else:
        mt = apply_mutation(kind, text, r)
    return {'map': m['map_file'], 'mutation': kind, 'generator': [gseed, p_opt, max_rep]}, mt, loops


def configs_for(spec, loops):
    """the runs of one case: list of (entry, cfg)"""
    idx, seed, thorough = spec[0], spec[1], spec[2]
    r = random.Random(seed * 2000003 + idx * 104729 + 11)
    runs = []
    if thorough:
        cs = r.choice(('B', 'E'))
        for s in SINKS:
            runs.append(('x12n', (s, cs)))
            cs = 'E' if cs == 'B' else 'B'
    else:
        s = r.choice(SINKS)
        cs = r.choice(('B', 'E'))
        runs.append(('x12n', (s, cs)))
        runs.append(('x12n', (tuple(not x for x in s), 'E' if cs == 'B' else 'B')))
    runs.append(('reader', None))
    runs.append(('ctx', None))
    pool = [l for l in loops if l not in ('ISA_LOOP',)] + GENERIC_LOOPS
    for lid in r.sample(pool, min(len(pool), 3 if thorough else 1)):
        runs.append(('ctx', lid))
    return runs


def cfg_label(entry, cfg):
    if entry == 'x12n':
        s, cs = cfg
        return '%s%s%s/%s' % ('A' if s[0] else '-', 'H' if s[1] else '-', 'X' if s[2] else '-', cs)
    if entry == 'ctx':
        return 'loop=%s' % (cfg,)
    return ''


def work(specs):
    """worker: run a chunk of cases; returns per case (idx, label, size, [(entry, cfg label, outcome kind, key, exc)], bad [(entry, cfg, key, exc)], text if bad)"""
    out = []
    for spec in specs:
        label, text, loops = make_case(spec)
        rows = []
        bad = []
        rd = None
        for entry, cfg in configs_for(spec, loops):
            o = call(entry, text, cfg)
            kind, key = judge(entry, o)
            rows.append((entry, cfg_label(entry, cfg), kind))
            if entry == 'reader':
                rd = o
            if key is not None:
                bad.append((entry, cfg, key, o[1] if o[0] == 'exc' else None))
        out.append((spec[0], label, len(text), rows, bad, text if bad else None, (text, rd) if spec[9] else None))
    return out


# ------------------------------------------------------------------------------------ shrinking

def same_key(entry, cfg, text, key):
    o = call(entry, text, cfg)
    return judge(entry, o)[1] == key


def shrink(entry, cfg, text, key, budget_s=45.0, max_calls=1500):
    """delta debugging on the text: chunks between terminators, then elements, then long values"""
    t0 = time.time()
    calls = [0]

    def test(t):
        if calls[0] >= max_calls or time.time() - t0 > budget_s:
            return False
        calls[0] += 1
        return same_key(entry, cfg, t, key)

    if text.startswith('ISA') and len(text) >= 106:
        term, ele, sub = text[105], text[3], text[104]
    else:
        term, ele, sub = '~', '*', ':'

    def split(t):
        parts = t.split(term)
        return [p + term for p in parts[:-1]] + ([parts[-1]] if parts[-1] != '' else [])

    chunks = split(text)
    # 1. remove blocks of chunks (halving), then single chunks
    n = max(1, len(chunks) // 2)
    while n >= 1:
        i = 0
        changed = False
        while i < len(chunks):
            cand = chunks[:i] + chunks[i + n:]
            if cand != chunks and test(''.join(cand)):
                chunks = cand
                changed = True
            else:
                i += n
        if n == 1 and not changed:
            break
        n = n // 2 if n > 1 else (1 if changed else 0)
    # 2. line breaks and elements
    for ci in range(len(chunks)):
        c = chunks[ci]
        stripped = c.lstrip('\r\n')
        if stripped != c and test(''.join(chunks[:ci] + [stripped] + chunks[ci + 1:])):
            chunks[ci] = c = stripped
        if ci == 0 and c.startswith('ISA'):
            continue
        body, tail = (c[:-1], term) if c.endswith(term) else (c, '')
        f = body.split(ele)
        k = len(f) - 1
        while k >= 1:
            cand = f[:k] + f[k + 1:] if k == len(f) - 1 else f[:k] + [''] + f[k + 1:]
            if cand != f and test(''.join(chunks[:ci] + [ele.join(cand) + tail] + chunks[ci + 1:])):
                f = cand
            k -= 1
            k = min(k, len(f) - 1)
        # 3. long values
        for k in range(1, len(f)):
            while len(f[k]) > 8:
                cand = f[:k] + [f[k][:len(f[k]) // 2]] + f[k + 1:]
                if test(''.join(chunks[:ci] + [ele.join(cand) + tail] + chunks[ci + 1:])):
                    f = cand
                else:
                    break
        chunks[ci] = ele.join(f) + tail
    return ''.join(chunks), calls[0]


# ------------------------------------------------------------------------------------ model tie (reader level)

def model_reader_lines(texts):
    return [common.line('C07R', t) for t in texts]


def reader_class(o):
    """outcome class of the real plain reader, comparable with the model's answer"""
    if o[0] == 'done':
        return 'ok:%d' % o[1]
    if o[0] == 'exc':
        t, f, fn, msg = o[1]
        if t == 'X12Error' and f == 'rawx12file.py':
            return 'refused'
        if t == 'X12Error' and f == 'x12file.py':
            return 'raised:%d' % o[2]
        return 'crash:%d' % o[2]
    return 'hang'


# ------------------------------------------------------------------------------------ run

def plan(tier, seed):
    """list of case specs"""
    thorough = tier == 'thorough'
    r = random.Random(seed * 86028121 + 7)
    n_entries = len(entries())
    specs = []
    idx = 0
    docs_per_map = 6 if thorough else 2
    per_doc = 90 if thorough else 60
    kinds = [k for k, _ in MUTATIONS]
    for mi in range(n_entries):
        for d in range(docs_per_map):
            gseed = r.randrange(1 << 30)
            p_opt = 0.0 if d == 0 else r.choice((0.15, 0.3, 0.5))
            max_rep = 1 if d == 0 else r.choice((1, 2))
            specs.append((idx, seed, thorough, 'doc', mi, gseed, p_opt, max_rep, 'none', True))
            idx += 1
            order = list(kinds)
            r.shuffle(order)
            for j in range(per_doc):
                if j < len(order):
                    kind = order[j]
                else:
                    a = r.choice(SEGMENT_LEVEL)
                    kind = a + '+' + r.choice(kinds)
                specs.append((idx, seed, thorough, 'doc', mi, gseed, p_opt, max_rep, kind, True))
                idx += 1
    for _ in range(2400 if thorough else 320):
        specs.append((idx, seed, thorough, 'arb', None, None, None, None, None, True))
        idx += 1
    return specs


def describe(entry, cfg):
    if entry == 'x12n':
        s, cs = cfg
        return ("pyx12.x12n_document.x12n_document(params(charset=%r), StringIO(document), fd_997=%s, fd_html=%s, fd_xmldoc=%s)"
                % (cs, 'StringIO()' if s[0] else None, 'StringIO()' if s[1] else None, 'StringIO()' if s[2] else None))
    if entry == 'reader':
        return 'src = pyx12.x12file.X12Reader(StringIO(document)); for seg in src: src.pop_errors(); src.cleanup(); src.pop_errors()'
    return 'for node in pyx12.x12context.X12ContextReader(params(), errh_null(), StringIO(document)).iter_segments(%r): pass' % (cfg,)


def run(tier):
    res = common.Result('C07', tier)
    res.cov['rule'] = ('a case is one (input text, entry point, configuration) run; texts are conformant documents of every indexed map under one '
                       'structural mutation kind (or two composed), and arbitrary strings; non-trivial = the text is not the unmutated document; '
                       'distinct by (map, generator seed, mutation kind, case seed, entry point, configuration)')
    built = common.proof_stage(res, 'C07', targets=('Pyx12Verif', 'pyx12model', 'Pyx12Verif.Props.C07'))
    thorough = tier == 'thorough'
    seed = common.seed()
    for name in ('pyx12.x12n_document', 'pyx12.x12file', 'pyx12.x12context'):
        try:
            __import__(name)
        except ImportError as e:
            raise common.Infra('entry point module missing: %s (%r)' % (name, e))
    specs = plan(tier, seed)
    nproc = max(1, min(16, (os.cpu_count() or 2)))
    chunk = 8
    chunks = [specs[i:i + chunk] for i in range(0, len(specs), chunk)]
    ctx = multiprocessing.get_context('fork')
    results = []
    with ctx.Pool(nproc) as pool:
        for part in pool.imap(work, chunks):
            results.extend(part)
    results.sort(key=lambda x: x[0])

    dist_kind, dist_map, dist_entry, dist_cfg, outcomes = {}, {}, {}, {}, {}
    by_key = {}
    # ---- directed corpus (minimised inputs of earlier findings)
    ndirected = 0
    for name, text, entry, cfg in directed_runs():
        o = call(entry, text, cfg)
        kind, key = judge(entry, o)
        res.count()
        ndirected += 1
        res.distinct(('directed', name, entry, cfg_label(entry, cfg)))
        oc = outcomes.setdefault(entry, {})
        oc[kind] = oc.get(kind, 0) + 1
        if key is not None:
            by_key.setdefault(key, []).append((-1, {'map': '-', 'mutation': 'directed:' + name}, entry, cfg, o[1] if o[0] == 'exc' else None, text))
    res.notes['directed_corpus'] = {'documents': len(DIRECTED), 'runs': ndirected}
    # hypothesis EnvNested of doc_total_sharp_holds / doc_envelope_order, evaluated by the model on the loaded maps
    from . import docnest
    docnest.attach(res)
    sizes = [0, 0, 0, 0]
    reader_obs = []
    for idx, label, size, rows, bad, text, rd in results:
        mk = label['mutation'].split(':')[0] if label['mutation'].startswith('arbitrary') else label['mutation']
        for part in mk.split('+'):
            dist_kind[part] = dist_kind.get(part, 0) + 1
        dist_map[label['map']] = dist_map.get(label['map'], 0) + 1
        sizes[0 if size < 1000 else 1 if size < 8192 else 2 if size < 65536 else 3] += 1
        for entry, cl, kind in rows:
            res.count()
            res.distinct((label['map'], label.get('generator'), label['mutation'], idx, entry, cl), nontrivial=label['mutation'] != 'none')
            dist_entry[entry] = dist_entry.get(entry, 0) + 1
            if entry == 'x12n':
                dist_cfg[cl] = dist_cfg.get(cl, 0) + 1
            o = outcomes.setdefault(entry, {})
            o[kind] = o.get(kind, 0) + 1
        for entry, cfg, key, exc in bad:
            by_key.setdefault(key, []).append((idx, label, entry, cfg, exc, text))
        if rd is not None:
            reader_obs.append((idx, label, rd[0], rd[1]))
        if len(res.cov['samples']) < 4 and label['mutation'] not in ('none',) and idx % 97 == 5:
            res.sample({'map': label['map'], 'mutation': label['mutation'], 'chars': size,
                        'runs': [[e, c, k] for e, c, k in rows]})

    # ---- reader-level tie with the composed model
    ndis = 0
    compared = 0
    if built:
        probe = common.run_model([common.line('C07R', 'ISA')])
        if probe and probe[0] != 'bad-op':
            outs = common.run_model(model_reader_lines([t for _, _, t, _ in reader_obs]))
            for (idx, label, t, o), mo in zip(reader_obs, outs):
                compared += 1
                rc = reader_class(o)
                if rc.startswith('crash') or rc == 'hang':
                    continue        # already a violation of the property; the model is of the guarded code
                if mo != rc:
                    ndis += 1
                    if ndis <= 5:
                        res.broke('correspondence:Pipeline.readEnvelope', 'case %d (%s, %s): real reader %s, model %s; text %r' % (
                            idx, label['map'], label['mutation'], rc, mo, t[:300]))
        else:
            res.notes['model_tie'] = 'driver has no C07R op: reader-level tie skipped'
    res.notes['reader_model_compared'] = compared
    res.notes['disagreements_checked'] = ndis

    # ---- violations
    known = set(k.key for k in common.load_known() if k.prop == 'C07')
    for key in sorted(by_key):
        cases = sorted(by_key[key], key=lambda c: (len(c[5]), c[0]))
        idx, label, entry, cfg, exc, text = cases[0]
        n_maps = len(set(c[1]['map'] for c in cases))
        kinds = sorted(set(c[1]['mutation'] for c in cases))
        what = '%s via %s [%s]: %s (%d case(s), %d map(s), mutation kinds %s)' % (
            key, entry, cfg_label(entry, cfg), (exc or ('', '', '', 'no answer within %d s' % TIMEOUT_S))[3][:100], len(cases), n_maps, ', '.join(kinds[:8]))
        if key in known or key.startswith('hang:'):
            small, ncalls = text, 0
        else:
            small, ncalls = shrink(entry, cfg, text, key)
        replay = {'entry': entry, 'sinks': list(cfg[0]) if entry == 'x12n' else None, 'charset': cfg[1] if entry == 'x12n' else None,
                  'loop_id': cfg if entry == 'ctx' else None, 'document': small,
                  'original_document': text if len(text) < 20000 else text[:20000] + '...[%d chars]' % len(text),
                  'map': label['map'], 'mutation': label['mutation'], 'generator': label.get('generator'), 'case': idx, 'seed': seed,
                  'call': describe(entry, cfg), 'observed': {'exception': list(exc) if exc else 'hang'},
                  'required': 'a boolean verdict / completed iteration, or a documented refusal (X12Error for input that is not an interchange, '
                              'EngineError("Map not found...") for an unknown version/type)',
                  'key': key, 'shrink_calls': ncalls, 'mutation_kinds_of_this_key': kinds[:20]}
        res.violation(key, what, replay)
        for c in cases[1:]:
            res.violation(key, what, {'case': c[0]})

    if built:
        # end-to-end tie on a sample of the mutants: outcome class, matched nodes, errors and acknowledgement of the real
        # x12n_document against the composed Lean model (theorem doc_total is about that model)
        from . import doc as docmod
        sample = [r[6][0] for r in results if r[6] is not None and r[2] < 20000]
        random.Random(seed * 31 + 7).shuffle(sample)
        docmod.attach(res, sample, 'mutants', limit=(400 if tier == 'thorough' else 40))
        from . import ctxdoc
        ctxdoc.attach(res, sample[:(200 if tier == 'thorough' else 25)], [None, 'ST_LOOP'], 'mutants-ctx')
    res.notes['mutation_kinds'] = dict(sorted(dist_kind.items()))
    res.notes['maps'] = dict(sorted(dist_map.items()))
    res.notes['entry_points'] = dist_entry
    res.notes['sink_subsets_charset'] = dict(sorted(dist_cfg.items()))
    res.notes['outcome_kinds'] = outcomes
    res.notes['text_sizes'] = {'<1000': sizes[0], '<8192': sizes[1], '<65536': sizes[2], '>=65536': sizes[3]}
    res.notes['inputs'] = len(results)
    res.notes['crash_classes'] = {k: len(v) for k, v in sorted(by_key.items())}
    res.notes['claim'] = ('PARTIAL: proof (pipeline_total) for the modelled core only - tokeniser, segment construction, envelope bookkeeping, '
                          'element/composite/syntax validation over an abstract matched-node oracle; the walker-to-validation glue, error tree, '
                          'acknowledgement visitors, HTML/XML sinks, context-reader tree building and logging are covered by this fuzz only')
    res.assumptions = ['documented refusals: X12Error from rawx12file.py/x12file.py; EngineError("Map not found...") from x12n_document.py/x12context.py',
                       'exceptions swallowed by x12n_document around the 997/999 visitors are not observed here (C06)',
                       'input is a str delivered by an in-memory stream; opening and decoding files is not exercised',
                       'per run watchdog: no answer within %d s, and again within %d s, is reported as hang:<entry point>' % (TIMEOUT_S, 4 * TIMEOUT_S)]
    return res.finish(trusted=common.TRUSTED_COMMON + [
        'the proof covers only the composed model; absence of crashes in the unmodelled parts rests on the mutation fuzz of this run '
        '(sampled inputs, not all inputs)'])


def replay(d):
    r = d['replay']
    if 'document' not in r:
        print('nothing to re-execute: %s' % d.get('what'))
        return 1
    entry = r['entry']
    cfg = (tuple(r['sinks']), r['charset']) if entry == 'x12n' else r.get('loop_id')
    o = call(entry, r['document'], cfg)
    kind, key = judge(entry, o)
    print('call     : %s' % describe(entry, cfg))
    print('document : %r' % (r['document'][:600],))
    print('observed : %s %s' % (kind, o[1] if len(o) > 1 else ''))
    print('required : %s' % r.get('required'))
    return 1 if key is not None else 0
