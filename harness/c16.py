"""
C16 - shipped maps, index and code tables are consistent and fully addressable.

Proof side: tools/xlate.py regenerates one Lean term per map file from /repo's CURRENT XML, plus
`theorem <map>_violations : sameSet (violations … <map>) <known list> = true := by decide +kernel`
(kernel evaluation of the hand-written predicates of Model/MapSkel.lean: usages, repeats, element
references, seqs, syntax notes, same-position siblings distinguishable, path components unique, every
loop/segment fetched by the path it reports) and the index-key theorem.  Generic theorems in Props/C16.lean.

Tie: (1) translator tree == pyx12's loaded tree, node by node; (2) the same rules evaluated by an
independent Python oracle on the REAL loaded tree (real getnodebypath / getnodebypath2 / get_path);
(3) both ways of locating the map directory give the same tree; (4) every index entry loads.
"""
import io
import json
import os
import re
import subprocess
import sys

from . import common

RULE_NAMES = {1: 'usage', 2: 'repeat', 3: 'elem', 4: 'seq', 5: 'note', 6: 'sibling', 7: 'pathdup', 8: 'fetch', 9: 'pos'}


def run_xlate():
    p = subprocess.run(['/venv/bin/python', os.path.join(common.VERIF, 'tools', 'xlate.py')],
                       stdout=subprocess.PIPE, stderr=subprocess.STDOUT, text=True,
                       env=dict(os.environ, VERIF_REPO=common.REPO, VERIF_LEAN=common.LEAN))
    if p.returncode != 0:
        raise common.Infra('translator failed: ' + p.stdout[-2000:])
    return json.load(open(os.path.join(common.WORK, 'gen', 'tables.json')))


# ------------------------------------------------------------------------------- real tree helpers

def children_of(n):
    return [c for o in sorted(n.pos_map) for c in n.pos_map[o]]


def walk(n, ip=()):
    """yield (index path, node) for loops and segments in loader order"""
    for i, c in enumerate(children_of(n)):
        yield ip + (i,), c
        if c.is_loop():
            for x in walk(c, ip + (i,)):
                yield x


def key_of(sn):
    """match key of a segment node, read off segment_if.is_match: (id, set of codes | None = any)"""
    c = sn.children
    if not c:
        return (sn.id, None)
    if c[0].is_element() and c[0].get_data_type() == 'ID' and c[0].usage == 'R' and len(c[0].valid_codes) > 0:
        return (sn.id, frozenset(c[0].valid_codes))
    if c[0].is_element():
        if sn.id == 'ENT' and len(c) > 1 and c[1].is_element() and c[1].get_data_type() == 'ID' and len(c[1].valid_codes) > 0:
            return (sn.id, frozenset(c[1].valid_codes))
        if sn.id == 'HL' and len(c) > 2 and c[2].is_element() and len(c[2].valid_codes) > 0:
            return (sn.id, frozenset(c[2].valid_codes))
        return (sn.id, None)
    s0 = c[0].children[0] if c[0].children else None
    if s0 is not None:
        if sn.id == 'CTX' and s0.get_data_type() == 'AN' and len(s0.valid_codes) > 0:
            return (sn.id, frozenset(s0.valid_codes))
        if s0.get_data_type() == 'ID' and len(s0.valid_codes) > 0:
            return (sn.id, frozenset(s0.valid_codes))
    return (sn.id, None)


def entry_keys(n):
    if n.is_segment():
        return [key_of(n)]
    ch = children_of(n)
    return entry_keys(ch[0]) if ch else []


def overlap(a, b):
    return a[0] == b[0] and (a[1] is None or b[1] is None or bool(a[1] & b[1]))


def safe_dtype(e):
    try:
        return e.get_data_type()
    except Exception:
        return None


def oracle_violations(m):
    """the C16 rules evaluated on the real loaded tree; returns a set of (rule name, node path[#k])"""
    from pyx12.errors import EngineError
    out = []
    seen_paths = {}

    def label(node):
        p = node.get_path()
        return p

    def elem_bad(e):
        if e.usage not in ('R', 'S', 'N'):
            return True
        if safe_dtype(e) is None:
            return True
        if e.external_codes and e.external_codes not in m.ext_codes.codes:
            return True
        return False
    nodes = list(walk(m))
    for ip, n in nodes:
        p = label(n)
        k = seen_paths.get(p, 0)
        seen_paths[p] = k + 1
        lab = p if k == 0 else '%s#%d' % (p, k)
        n._verif_label = lab
    if [c.pos for c in children_of(m)] != sorted(c.pos for c in children_of(m)):
        out.append(('pos', ''))
    for ip, n in nodes:
        lab = n._verif_label
        if n.usage not in ('R', 'S', 'N'):
            out.append(('usage', lab))
        rep = n.max_use if n.is_segment() else n.repeat
        if not (rep is None or rep in ('>1', '&gt;1') or (re.fullmatch('[0-9]+', rep) and int(rep) >= 1)):
            out.append(('repeat', lab))
        if n.is_segment():
            bad = False
            seqbad = False
            for i, c in enumerate(n.children):
                if c.seq != i + 1:
                    seqbad = True
                if c.is_composite():
                    if c.usage not in ('R', 'S', 'N'):
                        bad = True
                    for j, s in enumerate(c.children):
                        if s.seq != j + 1:
                            seqbad = True
                        if elem_bad(s):
                            bad = True
                elif elem_bad(c):
                    bad = True
            if bad:
                out.append(('elem', lab))
            if seqbad:
                out.append(('seq', lab))
            for syn in n.syntax:
                if not (syn[0] in ('P', 'R', 'E', 'C', 'L') and len(syn) >= 3 and all(1 <= x <= len(n.children) for x in syn[1:])):
                    out.append(('note', lab))
                    break
        else:
            ch = children_of(n)
            if [c.pos for c in ch] != sorted(c.pos for c in ch):
                out.append(('pos', lab))
    # sibling rules per parent
    parents = [m] + [n for _, n in nodes if n.is_loop()]
    for par in parents:
        ch = children_of(par)
        for i, a in enumerate(ch):
            later = ch[i + 1:]
            if any(b.pos == a.pos and any(overlap(x, y) for x in entry_keys(a) for y in entry_keys(b)) for b in later):
                out.append(('sibling', a._verif_label))
            if any(b.is_segment() == a.is_segment() and b.path == a.path for b in later):
                out.append(('pathdup', a._verif_label))
    # fetch by own path (real getnodebypath)
    for ip, n in nodes:
        try:
            got = m.getnodebypath(n.get_path())
        except EngineError:
            got = None
        if got is not n:
            out.append(('fetch', n._verif_label))
    return set(out)


def tree_signature(m):
    """canonical serialisation of a loaded map tree (used to compare the two ways of locating maps)"""
    out = []
    for ip, n in walk(m):
        if n.is_segment():
            kids = []
            for c in n.children:
                if c.is_composite():
                    kids.append(('C', c.id, c.seq, c.usage, c.data_ele, tuple((s.id, s.seq, s.usage, s.data_ele, tuple(s.valid_codes), s.external_codes, s.res) for s in c.children)))
                else:
                    kids.append(('E', c.id, c.seq, c.usage, c.data_ele, tuple(c.valid_codes), c.external_codes, c.res))
            out.append((ip, 'S', n.id, n.path, n.get_path(), n.pos, n.usage, n.max_use, tuple(tuple(s) for s in n.syntax), tuple(kids)))
        else:
            out.append((ip, 'L', n.id, n.path, n.get_path(), n.pos, n.usage, n.repeat, n.type))
    return out


def compare_translation(res, f, mx, m, strings):
    """translator's node list vs the loader's tree: index paths, kinds, ids, reported paths"""
    real = [(list(ip), n.get_path(), 'segment' if n.is_segment() else 'loop', n.id) for ip, n in walk(m)]
    mine = [(ip, sp, kind, nid) for ip, sp, kind, nid in mx['nodes']]
    res.count(len(real))
    if real != mine:
        for a, b in zip(real, mine):
            if a != b:
                res.broke('correspondence:translator-vs-loader', '%s: loader %r translator %r' % (f, a, b))
                return False
        res.broke('correspondence:translator-vs-loader', '%s: %d loader nodes vs %d translated' % (f, len(real), len(mine)))
        return False
    # the syntax notes the loader keeps for each segment are those written in the XML (own parse)
    notes = mx.get('notes', {})
    for ip, n in walk(m):
        if not n.is_segment():
            continue
        want = notes.get('.'.join(str(i) for i in ip))
        if want is None:
            continue
        got = [list(x) for x in n.syntax]
        res.count()
        if got != want:
            res.violation('map:%s:notes:%s' % (f, n.get_path()),
                          '%s: segment %s is loaded with syntax notes %r, the map file declares %r' % (f, n.get_path(), got, want),
                          {'map': f, 'call': 'load_map_file(map) -> segment_if.syntax', 'node': n.get_path(), 'observed': repr(got), 'required': repr(want)})
    return True


def run(tier):
    import pyx12.map_if
    import pyx12.map_index
    import pyx12.params
    from pyx12.errors import EngineError
    res = common.Result('C16', tier)
    res.cov['rule'] = ('every map file on disk and every maps.xml entry; every loop/segment/element node; a case is '
                       '(map file, node, rule); non-trivial = all (finite domain enumerated completely)')
    side = run_xlate()
    strings = side['strings']
    ok, log = common.lean_build(('Pyx12Verif', 'pyx12model', 'Gen'))
    failed_mods = set(re.findall(r'- (Gen\.[A-Za-z0-9_.]+)', log)) if not ok else set()
    if not ok and not failed_mods:
        res.broke('lake build', '\n'.join(l for l in log.split('\n') if 'error' in l)[:1500])
    hits = common.grep_forbidden(common.lean_files_of('C16'))
    if hits:
        res.broke('forbidden-token', '; '.join(hits[:10]))
    axioms = {}
    if ok:
        gaxioms, gmissing, _ = common.lean_audit('C16')       # generic theorems (Props/C16.lean)
        for thm, ax in sorted(gaxioms.items()):
            res.obligations.append(thm)
            if set(ax) <= common.STD_AXIOMS:
                res.discharged.append(thm)
            else:
                res.broke('axioms:' + thm, 'depends on ' + ', '.join(ax))
        for mth in gmissing:
            res.obligations.append(mth)
            res.broke('theorem:' + mth, 'not found by the audit')
        axioms, missing, (arc, tail) = common.lean_audit('C16', os.path.join('Gen', 'AuditC16.lean'))
        for thm, ax in axioms.items():
            if not set(ax) <= common.STD_AXIOMS:
                res.broke('axioms:' + thm, 'depends on ' + ', '.join(ax))
        for mth in missing:
            res.broke('theorem:' + mth, 'not found by the audit')
    known = {}
    for k in common.load_known():
        if k.prop == 'C16':
            known[k.key] = k
    param = pyx12.params.params()
    mapdir = os.path.join(common.REPO, 'pyx12', 'map')
    nmaps = 0
    viols_by_file = {}
    unloadable = set()
    for f in side['files']:
        mod = side['maps'].get(f, {}).get('module')
        thm = 'Gen.%s_violations' % mod
        res.obligations.append(thm)
        lean_ok = (ok and thm in axioms) or (not ok and ('Gen.Checks.' + str(mod)) not in failed_mods and ('Gen.Maps.' + str(mod)) not in failed_mods)
        try:
            m = pyx12.map_if.load_map_file(f, param)
        except Exception as ex:
            res.count()
            res.violation('map:%s:load:' % f, 'map file %s does not load: %r' % (f, ex),
                          {'call': 'pyx12.map_if.load_map_file', 'args': [f], 'observed': repr(ex), 'required': 'loads'})
            if lean_ok:
                res.discharged.append(thm)
            unloadable.add(f)
            continue
        nmaps += 1
        compare_translation(res, f, side['maps'][f], m, strings)
        viols = oracle_violations(m)
        viols_by_file[f] = viols
        nodes = list(walk(m))
        res.count(len(nodes) * len(RULE_NAMES))
        for ip, n in nodes:
            res.distinct((f, ip))
        for rule, lab in sorted(viols):
            key = 'map:%s:%s:%s' % (f, rule, lab)
            res.violation(key, '%s: rule "%s" fails at node %s' % (f, rule, lab),
                          {'map': f, 'rule': rule, 'node': lab, 'check': 'harness.c16.oracle_violations on pyx12.map_if.load_map_file(%r)' % f})
        # the Lean obligation states: violations == known list.  It must agree with the oracle.
        exp = set((RULE_NAMES[r], None) for r, _ in side['maps'][f]['expected'])
        known_here = set((k.split(':')[2], k.split(':', 3)[3]) for k in known if k.startswith('map:%s:' % f) and k.split(':')[2] in RULE_NAMES.values())
        if lean_ok:
            res.discharged.append(thm)
            if known_here != viols and not (viols - known_here):
                # Lean proved "violations = known" yet the real tree shows fewer: model and code disagree
                res.broke('correspondence:MapSkel.violations', '%s: Lean theorem holds for %s, real tree shows %s' % (f, sorted(known_here), sorted(viols)))
        else:
            if not (viols - known_here):
                res.broke('theorem:' + thm, 'decide +kernel failed; oracle on the real tree finds only the known findings %s' % sorted(viols))
        # loops and segments through the X12Path-based fetcher as well
        for ip, n in nodes:
            res.count()
            p = n.get_path()
            try:
                got = m.getnodebypath2(p)
            except Exception as ex:
                got = ex
            if got is not n and ('fetch', n._verif_label) not in viols:
                import pyx12.path
                xp = pyx12.path.X12Path(p)
                if n.is_loop() and xp.seg_id is not None:
                    key = 'pred:loop-id-reads-as-designator'
                    what = 'loop id of segment-id shape: %s %r is parsed as a segment designator and not fetched' % (f, p)
                else:
                    key = 'map:%s:fetch2:%s' % (f, n._verif_label)
                    what = '%s: getnodebypath2(%r) returns %r, not the node that reports this path' % (f, p, got)
                res.violation(key, what, {'map': f, 'call': 'load_map_file(map).getnodebypath2', 'args': [p], 'observed': repr(got)[:200],
                                          'required': 'the node whose get_path() is this path'})
        # element / composite / sub-element nodes: fetched by the path they report for themselves (getnodebypath2)
        nel = 0
        for ip, n in nodes:
            if not n.is_segment():
                continue
            sibs = [x for x in children_of(n.parent) if x.is_segment() and x.id == n.id]
            for c in n.children:
                for node in [c] + (list(c.children) if c.is_composite() else []):
                    nel += 1
                    p = node.get_path()
                    try:
                        got = m.getnodebypath2(p)
                    except Exception as ex:
                        got = ex
                    if got is node:
                        continue
                    if node.is_composite() and got is n:
                        key = 'pred:composite-reports-segment-path'
                        what = 'a composite reports its segment\'s path (composite_if.path is empty), e.g. %s %r' % (f, p)
                    elif len(sibs) > 1 and sibs[0] is not n:
                        key = 'pred:element-path-omits-segment-qualifier'
                        what = 'elements of same-id sibling segments report one path (no qualifier), e.g. %s %r fetches %r' % (f, p, got)
                    elif len(sibs) > 1 and node.is_composite() is False and c.is_composite() and getattr(c, 'id', None) is None:
                        key = 'pred:element-path-omits-segment-qualifier'
                        what = 'e.g. %s %r fetches %r' % (f, p, got)
                    else:
                        key = 'map:%s:fetch2:%s' % (f, p)
                        what = '%s: getnodebypath2(%r) returns %r, not the node that reports this path' % (f, p, got)
                    res.violation(key, what, {'map': f, 'call': 'load_map_file(map).getnodebypath2', 'args': [p], 'observed': repr(got)[:200],
                                              'required': 'the node whose get_path() is this path'})
        res.count(nel)
        # explicit map directory gives the same tree
        # (loaded with the package logger at DEBUG: the tree must not depend on the logging level either)
        import logging
        lg = logging.getLogger('pyx12')
        old_level, old_prop = lg.level, lg.propagate
        nh = logging.NullHandler()
        lg.addHandler(nh)
        lg.setLevel(logging.DEBUG)
        lg.propagate = False
        try:
            m2 = pyx12.map_if.load_map_file(f, param, mapdir)
            sig2 = tree_signature(m2)
        finally:
            lg.setLevel(old_level)
            lg.propagate = old_prop
            lg.removeHandler(nh)
        res.count(2)
        if tree_signature(m) != sig2:
            m3 = pyx12.map_if.load_map_file(f, param, mapdir)
            if tree_signature(m) != tree_signature(m3):
                res.violation('pred:mapdir-differs:%s' % f, '%s: tree loaded from explicit map directory differs from packaged resource' % f,
                              {'map': f, 'call': 'load_map_file(f, params, map_path) vs load_map_file(f, params)'})
            else:
                bad = [(a[1:5], b[1:5]) for a, b in zip(tree_signature(m), sig2) if a != b][:1]
                res.violation('pred:loglevel-differs:%s' % f, '%s: tree loaded with the pyx12 logger at DEBUG differs from the default-level load, e.g. %r' % (f, bad),
                              {'map': f, 'call': "logging.getLogger('pyx12').setLevel(DEBUG); load_map_file(f, params, map_path) vs default level",
                               'observed': repr(bad), 'required': 'identical trees and reported paths'})
    # index
    res.obligations.append('Gen.index_keys_unambiguous')
    if (ok and 'Gen.index_keys_unambiguous' in axioms) or (not ok and 'Gen.Checks.Index' not in failed_mods):
        res.discharged.append('Gen.index_keys_unambiguous')
    idx = pyx12.map_index.map_index()
    idx2 = pyx12.map_index.map_index(mapdir)
    if idx.maps != idx2.maps:
        res.violation('pred:index-mapdir-differs', 'index loaded from explicit directory differs', {})
    seen = {}
    for i, e in enumerate(idx.maps):
        res.count()
        res.distinct(('index', i))
        k = (e['icvn'], e['vriic'], e['fic'])
        for j, t in seen.get(k, []):
            if t == e['tspc'] or t is None or e['tspc'] is None:
                res.violation('map:maps.xml:indexkey:%d' % j, 'index entries %d and %d share the key %r' % (j, i, k), {'entries': [idx.maps[j], e]})
        seen.setdefault(k, []).append((i, e['tspc']))
        if not os.path.exists(os.path.join(mapdir, e['map_file'])):
            res.violation('map:maps.xml:missingfile:%s' % e['map_file'], 'index names %s which does not exist' % e['map_file'], {'entry': e})
        else:
            try:
                pyx12.map_if.load_map_file(e['map_file'], param)
            except Exception as ex:
                pass  # reported above per file
            # a listed defect of a draft map on disk (unloadable, malformed repeat / usage) is one thing; the INDEX naming such a
            # map makes documents reach it
            broken_rules = sorted(r for r, _ in viols_by_file.get(e['map_file'], ()) if r in ('repeat', 'usage'))
            if broken_rules:        # (an indexed map that does not load is reported by the per-file load rule)
                res.violation('pred:index-names-unusable-map:%s' % e['map_file'],
                              'index entry %r names %s, which %s' % ((e['icvn'], e['vriic'], e['fic'], e['tspc']), e['map_file'],
                                                                      'does not load' if e['map_file'] in unloadable else 'has malformed %s values' % '/'.join(broken_rules)),
                              {'entry': e, 'required': 'every map the index names loads and has well-formed usages and repeat limits'})
        got = idx.get_filename(e['icvn'], e['vriic'], e['fic'], e['tspc'])
        if got != e['map_file']:
            res.violation('map:maps.xml:lookup:%d' % i, 'get_filename%r returns %r, the entry names %r' % ((e['icvn'], e['vriic'], e['fic'], e['tspc']), got, e['map_file']), {'entry': e})
    res.notes['exhaustive'] = True
    res.notes['maps_loaded'] = nmaps
    res.notes['map_files'] = len(side['files'])
    res.sample({'map': side['files'][0], 'nodes': side['maps'][side['files'][0]]['nodes'][:3]})
    res.assumptions = ['identifier comparison is case-sensitive in the model (the loader lower/upper-cases loop ids); all shipped ids are upper case',
                       'element-level code lists are carried into Lean only for match-key candidates']
    return res.finish(checker_cmd='python tools/xlate.py && cd lean && lake build Gen && lake env lean Audit/C16.lean',
                      trusted=common.TRUSTED_COMMON + ['tools/xlate.py (own xml.etree parse of the map files), cross-checked node by node against pyx12.map_if.load_map_file on every run',
                                                       'per-map obligations are kernel evaluations (decide +kernel) of Model/MapSkel.lean predicates on the regenerated terms'])


def replay(d):
    print(json.dumps(d, indent=1))
    return 1
