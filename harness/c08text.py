"""
Text-level round trip X12 -> XML -> X12 (C08 down to the bytes `xmlx12_simple.convert` leaves on its output stream):
real `x12n_document(param, text, None, None, fd_xmldoc)` followed by real `xmlx12_simple.convert(StringIO(xml), out)`
versus the composed Lean model `Convert.convertText (Doc.docXml ms ctx text)` (lean/Pyx12Verif/Model/Convert.lean =
XML sink of Model/DocSinks.lean, `xml.etree` as `Xml.buildTree`, `get_segment` of Model/XmlIn.lean, `X12Writer.Write` of
Model/Writer.lean with the FIXED delimiters `~ * :`, eol `\\n`, repetition separator `^`, no `Close()`; driver op CVTXT of
Drv/C08Text.lean on top of the maps loaded by the ops of Drv/Doc.lean).

    compare_text(res, docs) -> disagreements        docs = [(label, text)]; list of (index, class, detail); property
                                                    violations of the real code are reported through `res.violation`
    attach(res, tier)                               the call for harness/c08.py

compared   : the X12 text byte for byte; whether the XML sink completes; whether `convert` completes (real raises <=> the
             model's outcome is not `ok`);
oracle     : independent Python statements on the REAL code only (Props/C08Text.lean says the same of the model):
             (t) `text_roundtrip_generated`: a source accepted without any error whose text is in the writer's canonical
                 layout (= what `Segment.format('~','*',':') + '\\n'` prints for the segments the real reader yields for it,
                 ISA11 `^` for 00501) and whose trailer counts are written as the writer writes them (`'{:d}'`: no sign,
                 no leading zero) comes back IDENTICAL                                         - `pred:text-roundtrip-differs`
             (s) the segments the real reader yields for the converted text are those of the source, trailers included,
                 modulo ISA11 / ISA16 and trailing empties, for every accepted source with such counts; with counts
                 written otherwise (`SE*007`) the same modulo `int()` of SE01 / GE01 / IEA01 (counted in the note
                 `count_rewritten`: the writer regenerates every trailer)                      - `pred:text-segments-differ`
             (r) `text_roundtrip_repairs_counts`: an accepted canonical source with its SE01 / GE01 / IEA01 overwritten by
                 wrong numbers comes back as the ORIGINAL text                                 - `pred:counts-not-repaired`
variants   : every generated document is also run without line breaks, with CR LF, with other delimiters (`|`, `>`, `!`
             where the data allows), with wrong trailer counts, and with a zero-padded SE01.

Self test:  cd /verif && /venv/bin/python -m harness.c08text [quick|thorough] [seed]
"""
import io
import os
import random
import re
import sys
import time
import traceback

from . import common


# ------------------------------------------------------------------------------------------------ model side

class ModelText:
    pass


def run_model(texts, charset=None, chunk=150):
    from . import doc
    L = doc.loaded()
    ext = 0 if charset == 'B' else 1
    out = []
    for a in range(0, len(texts), chunk):
        ops = []
        for t in texts[a:a + chunk]:
            h = L.hits(t)
            f = ['CVTXT', ext, len(h)]
            for p, v in h:
                f.extend([p, v])
            f.append(t)
            ops.append(common.line(*f))
        res = common.run_model(L.lines + ops)
        for x in res[:len(L.lines)]:
            if not x.startswith('ok'):
                raise common.Infra('c08text: loading the maps into the driver: ' + x[:200])
        for x in res[len(L.lines):]:
            f = x.split('\t')
            if len(f) != 3:
                raise common.Infra('c08text: model driver: ' + x[:200])
            m = ModelText()
            m.xml = f[0] == '+'
            m.outcome = f[1]
            m.text = common.unesc(f[2]) if f[1] == 'ok' else None
            out.append(m)
    return out


# ------------------------------------------------------------------------------------------------ real side

class RealText:
    pass


def run_real(text, charset=None):
    """real x12n_document with an XML sink only, then real xmlx12_simple.convert on the XML"""
    from . import pipeline
    import pyx12.xmlx12_simple
    r = RealText()
    q = pipeline.validate(text, want_997=False, want_html=False, want_xml=True, charset=charset)
    r.verdict, r.errors, r.exc = q.verdict, q.errors, q.exc
    r.xml = q.xml if q.exc is None and q.xml else None
    r.text, r.conv_exc = None, None
    if r.xml is None:
        return r
    fo = io.StringIO()
    try:
        pyx12.xmlx12_simple.convert(io.StringIO(r.xml), fo)
        r.text = fo.getvalue()
    except Exception as e:
        tb = traceback.extract_tb(e.__traceback__)
        site = [f for f in tb if '/pyx12/' in f.filename.replace('\\', '/')]
        f = site[-1] if site else tb[-1]
        r.conv_exc = (type(e).__name__, os.path.basename(f.filename), f.name)
    return r


def read_x12(text):
    """(delimiters, [(id, [[sub values]])]) as the real reader sees the text"""
    import pyx12.x12file
    src = pyx12.x12file.X12Reader(io.StringIO(text))
    out = []
    for seg in src:
        body = seg.format('\x01', '\x02', '\x03')
        parts = body[:-1].split('\x02')
        out.append((parts[0], [p.split('\x03') for p in parts[1:]]))
    return (src.seg_term, src.ele_term, src.subele_term, src.repetition_term, src.icvn), out


def canonical_text(text):
    """the text X12Writer('~','*',':','\\n','^') prints for the segments the real reader yields for `text`
    (`Segment.format` + eol per segment), or None when the text is not readable / has other delimiters"""
    import pyx12.x12file
    try:
        src = pyx12.x12file.X12Reader(io.StringIO(text))
        if (src.seg_term, src.ele_term, src.subele_term) != ('~', '*', ':'):
            return None
        return ''.join(seg.format('~', '*', ':') + '\n' for seg in src)
    except Exception:
        return None


def _trim(xs, empty):
    xs = list(xs)
    while xs and empty(xs[-1]):
        xs.pop()
    return xs


_DEC = re.compile(r'^(0|[1-9][0-9]*)$')


def counts_as_written(segs):
    """every SE01 / GE01 / IEA01 is a decimal numeral as `'{:d}'.format(n)` prints it"""
    return all(len(e) >= 1 and len(e[0]) == 1 and _DEC.match(e[0][0]) for sid, e in segs if sid in ('SE', 'GE', 'IEA'))


def canon_segs(segs, int_counts=False):
    out = []
    for sid, elems in segs:
        e2 = [_trim(e, lambda v: v == '') or [''] for e in elems]
        if int_counts and sid in ('SE', 'GE', 'IEA') and e2 and len(e2[0]) == 1:
            try:
                e2[0] = [str(int(e2[0][0]))]
            except ValueError:
                pass
        if sid == 'ISA':
            for i in (10, 15):
                if i < len(e2):
                    e2[i] = ['#']
        out.append((sid, _trim(e2, lambda e: all(v == '' for v in e))))
    return out


def first_diff(a, b):
    k = next((i for i in range(min(len(a), len(b))) if a[i] != b[i]), min(len(a), len(b)))
    return 'at %d (lengths %d / %d): real …%r model …%r' % (k, len(a), len(b), a[max(0, k - 50):k + 50], b[max(0, k - 50):k + 50])


# ------------------------------------------------------------------------------------------------ variants

_COUNT = re.compile(r'(^|~\n?)(SE|GE|IEA)\*([^*~]*)\*')


def variants(text, rnd):
    """[(kind, text, original or None)]: `original` is set when the variant only differs from a canonical text in its
    trailer counts (oracle r)"""
    out = [('plain', text, None)]
    if '\n' in text:
        out.append(('nonl', text.replace('\n', ''), None))
        out.append(('crlf', text.replace('\n', '\r\n'), None))
    if not any(ch in text for ch in '|>!') and text.startswith('ISA*'):
        out.append(('delims', text.replace('*', '|').replace(':', '>').replace('~', '!'), None))
    if _COUNT.search(text):
        bad = _COUNT.sub(lambda m: '%s%s*%d*' % (m.group(1), m.group(2), rnd.choice((0, 1, 7, 99, 12345))), text)
        if bad != text:
            out.append(('badcounts', bad, text))
        pad = re.sub(r'(^|~\n?)SE\*(\d+)\*', lambda m: '%sSE*00%s*' % (m.group(1), m.group(2)), text, count=1)
        if pad != text:
            out.append(('padcount', pad, None))
    return out


# ------------------------------------------------------------------------------------------------ comparison

def compare_text(res, docs, charset=None, stats=None):
    """docs: [(label, text)] or [(label, text, original)].  -> list of (index, class, detail); violations of the property by
    the real code go to res.violation (key = rule-like class)"""
    docs = [d if len(d) == 3 else (d[0], d[1], None) for d in docs]
    models = run_model([d[1] for d in docs], charset)
    dis = []
    if stats is None:
        stats = {}
    accepted_cache = {}

    def accepted_text(t):
        if t not in accepted_cache:
            q = run_real(t, charset)
            accepted_cache[t] = q.verdict is True and not q.errors
        return accepted_cache[t]
    for i, ((label, text, original), m) in enumerate(zip(docs, models)):
        r = run_real(text, charset)
        kind = label.split(':')[0]
        stats.setdefault('by_kind', {})
        stats['by_kind'][kind] = stats['by_kind'].get(kind, 0) + 1
        # the XML sink
        if (r.xml is not None) != m.xml:
            if r.exc is None and not r.xml and not m.xml:
                pass
            else:
                dis.append((i, 'xml-completes', '%s: real %s, model %s' % (label, 'XML' if r.xml is not None else 'no XML (exc %r)' % (r.exc,),
                                                                          'XML' if m.xml else 'no XML')))
                continue
        if r.xml is None:
            stats['no_xml'] = stats.get('no_xml', 0) + 1
            continue
        # convert completes
        if (r.text is not None) != (m.outcome == 'ok'):
            dis.append((i, 'convert-completes', '%s: real %s, model %s' % (label, 'completes' if r.text is not None else 'raises %r' % (r.conv_exc,), m.outcome)))
            continue
        if r.text is None:
            stats.setdefault('convert_raises', {})
            k = '%s / model %s' % (r.conv_exc[0], m.outcome)
            stats['convert_raises'][k] = stats['convert_raises'].get(k, 0) + 1
            continue
        stats['converted'] = stats.get('converted', 0) + 1
        stats['bytes'] = stats.get('bytes', 0) + len(r.text)
        if r.text != m.text:
            dis.append((i, 'x12-text', '%s: %s' % (label, first_diff(r.text, m.text))))
        # oracles on the real code
        accepted = r.verdict is True and not r.errors
        accepted_cache[text] = accepted
        as_written = False
        if accepted:
            stats['accepted'] = stats.get('accepted', 0) + 1
            try:
                _, a = read_x12(text)
                _, b = read_x12(r.text)
                as_written = counts_as_written(a)
                if not as_written:
                    stats['count_rewritten'] = stats.get('count_rewritten', 0) + 1
                    ca, cb = canon_segs(a), canon_segs(b)
                    k = next((j for j in range(min(len(ca), len(cb))) if ca[j] != cb[j]), None)
                    if k is not None and ca[k][0] in ('SE', 'GE', 'IEA'):
                        res.violation('pred:text-count-rewritten', '%s: an accepted source writes the count %r; after X12->XML->X12 it is %r '
                                      '(X12Writer discards every supplied trailer and prints its own)' % (label, ca[k], cb[k]),
                                      {'call': 'x12n_document(...fd_xmldoc); xmlx12_simple.convert', 'text': text, 'key': 'pred:text-count-rewritten'})
                a, b = canon_segs(a, not as_written), canon_segs(b, not as_written)
            except Exception as e:
                a, b = None, 'unreadable: %s' % type(e).__name__
            if a != b:
                k = next((j for j in range(min(len(a), len(b))) if a[j] != b[j]), min(len(a), len(b))) if a is not None else 0
                what = '%s: segment %d: source %r, after X12->XML->X12 %r' % (label, k, a[k] if a and k < len(a) else None,
                                                                            b[k] if isinstance(b, list) and k < len(b) else b)
                res.violation('pred:text-segments-differ', what, {'call': 'x12n_document(params(), StringIO(text), None, None, fd_xmldoc); '
                                                                  'xmlx12_simple.convert(StringIO(xml), out)', 'text': text,
                                                                  'key': 'pred:text-segments-differ'})
            if as_written and canonical_text(text) == text:
                stats['canonical'] = stats.get('canonical', 0) + 1
                if r.text != text:
                    res.violation('pred:text-roundtrip-differs', '%s: %s' % (label, first_diff(r.text, text)),
                                  {'call': 'x12n_document(...fd_xmldoc); xmlx12_simple.convert', 'text': text,
                                   'key': 'pred:text-roundtrip-differs'})
        if original is not None and canonical_text(original) == original and accepted_text(original):
            stats['count_repairs'] = stats.get('count_repairs', 0) + 1
            if r.text != original:
                res.violation('pred:counts-not-repaired', '%s: %s' % (label, first_diff(r.text, original)),
                              {'call': 'x12n_document(...fd_xmldoc); xmlx12_simple.convert', 'text': text,
                               'key': 'pred:counts-not-repaired'})
    return dis


def corpus(seed, n):
    """generated documents (harness/doc.py small_corpus without injected faults) and their layout / delimiter / count variants"""
    from . import doc as docmod
    rnd = random.Random(seed * 7919 + 13)
    out = []
    for mf, text in docmod.small_corpus(seed * 5 + 11, n, faulty=0.1):
        for kind, t, orig in variants(text, rnd):
            out.append(('%s:%s' % (kind, mf), t, orig))
    return out


def attach(res, tier, n=None):
    """Text tie for C08: theorems of Props/C08Text.lean are audited through Audit/C08.lean; here the correspondence of
    `Convert.convertText ∘ Doc.docXml` with the real code and the three oracles on the real code."""
    seed = common.seed()
    if n is None:
        n = 45 if tier == 'thorough' else 8
    docs = corpus(seed, n)
    stats = {}
    dis = compare_text(res, docs, stats=stats)
    res.count(len(docs))
    res.notes['text_roundtrip'] = dict(stats, documents=len(docs), generated=n, disagreements=len(dis))
    for (i, cls, detail) in dis[:20]:
        res.broke('correspondence:C08Text:' + cls, str(detail)[:500])


# ------------------------------------------------------------------------------------------------ self test

def main(argv):
    tier = argv[1] if len(argv) > 1 else 'quick'
    seed = int(argv[2]) if len(argv) > 2 else common.seed()
    n = int(argv[3]) if len(argv) > 3 else (45 if tier == 'thorough' else 8)
    t0 = time.time()
    ok, log = common.lean_build()
    if not ok:
        print(log[-3000:])
        return 2
    res = common.Result('C08', tier)
    docs = corpus(seed, n)
    stats = {}
    dis = compare_text(res, docs, stats=stats)
    print('documents: %d (from %d generated)' % (len(docs), n))
    print('stats:', stats)
    print('disagreements: %d' % len(dis))
    classes = {}
    for i, cls, detail in dis:
        classes.setdefault(cls, []).append((i, detail))
    for cls, items in sorted(classes.items()):
        print('  %-20s %4d   e.g. %s' % (cls, len(items), items[0][1][:700]))
    print('violations: %d' % len(res.violations))
    seen = set()
    for key, what, rep in res.violations:
        if key not in seen:
            seen.add(key)
            print('  %s   %s' % (key, what[:700]))
    print('%.1fs' % (time.time() - t0))
    return 1 if (dis or res.violations) else 0


if __name__ == '__main__':
    sys.exit(main(sys.argv))
