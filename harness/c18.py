"""
C18 - results are a function of the document and the parameters alone.

Proof side: Model/Globals.lean (the mutable default-argument cells and the read-only uses of the names bound to them),
Props/C18.lean: `inv_preserved`, `run_independent_of_history`, `history_independent`.
Tie (the model's claim "these are all the cells and they are never written" is CHECKED on every run):
 (1) introspection of every function in the pyx12 package for mutable default arguments == the modelled cell list;
 (2) AST scan: a name bound to such a default (or a field it is assigned to) is never mutated in place;
 (3) after the histories below every default cell is still empty and no module-level container has changed;
 (4) histories of 3-8 documents of mixed types/versions, with reused params objects and repeated documents, every result
     (verdict, errors, XML, HTML body, acknowledgement body, context-reader iteration) compared with a FRESH interpreter.
PARTIAL: interpreter-level state outside the model (logging, sys.path, stdlib caches) is only exercised.
"""
import ast
import copy
import importlib
import inspect
import io
import json
import os
import pkgutil
import random
import re
import subprocess
import sys

from . import common, gendoc

MODELLED_CELLS = sorted([
    'pyx12.map_if.element_if.is_valid:type_list',
    'pyx12.map_walker.walk_tree.setCountState:initialCounts',
    'pyx12.x12context.X12LoopDataNode.__init__:end_loops',
    'pyx12.x12context.X12SegmentDataNode.__init__:start_loops',
    'pyx12.x12context.X12SegmentDataNode.__init__:end_loops',
    'pyx12.xmlwriter.XMLWriter.push:attrs',
    'pyx12.xmlwriter.XMLWriter.elem:attrs',
    'pyx12.xmlwriter.XMLWriter.empty:attrs',
])
MUTATORS = {'append', 'extend', 'insert', 'remove', 'pop', 'clear', 'sort', 'reverse', 'update', 'setdefault', 'popitem', 'add', 'discard'}


def package_modules():
    import pyx12
    mods = []
    for info in pkgutil.iter_modules(pyx12.__path__):
        if info.ispkg:
            continue
        try:
            mods.append(importlib.import_module('pyx12.' + info.name))
        except Exception:
            pass
    return mods


def default_cells(mods):
    """{qualified name:param -> default object} for every mutable default in the package"""
    cells = {}
    for m in mods:
        for cname, obj in list(vars(m).items()):
            funcs = []
            if inspect.isfunction(obj) and obj.__module__ == m.__name__:
                funcs.append((obj.__qualname__, obj))
            elif inspect.isclass(obj) and obj.__module__ == m.__name__:
                for fname, f in vars(obj).items():
                    if isinstance(f, (staticmethod, classmethod)):
                        f = f.__func__
                    if inspect.isfunction(f):
                        funcs.append((f.__qualname__, f))
            for qn, f in funcs:
                try:
                    sig = inspect.signature(f)
                except (TypeError, ValueError):
                    continue
                for p in sig.parameters.values():
                    if isinstance(p.default, (list, dict, set)):
                        cells['%s.%s:%s' % (m.__name__, qn, p.name)] = p.default
    return cells


def module_containers(mods):
    out = {}
    for m in mods:
        for k, v in vars(m).items():
            if k.startswith('__'):
                continue
            if isinstance(v, (list, dict, set)):
                try:
                    out['%s.%s' % (m.__name__, k)] = repr(v)
                except Exception:
                    pass
    return out


def class_containers(mods):
    """class-level mutable containers (shared by every instance of the class in the process)"""
    out = {}
    for m in mods:
        for cname, obj in list(vars(m).items()):
            if inspect.isclass(obj) and obj.__module__ == m.__name__:
                for k, v in vars(obj).items():
                    if k.startswith('__'):
                        continue
                    if isinstance(v, (list, dict, set)):
                        try:
                            out['%s.%s.%s' % (m.__name__, cname, k)] = repr(v)
                        except Exception:
                            pass
    return out


def private_map_dir():
    """a map directory whose maps.xml sends 004010X098A1/HC to the institutional map (all other files are the shipped ones)"""
    src = os.path.join(common.REPO, 'pyx12', 'map')
    dst = os.path.join(common.WORK, 'c18-maps-%d' % os.getpid())
    import shutil
    shutil.rmtree(dst, ignore_errors=True)
    os.makedirs(dst)
    for f in os.listdir(src):
        if f == 'maps.xml':
            t = open(os.path.join(src, f), encoding='utf-8').read()
            t2 = t.replace('<map vriic="004010X098A1" fic="HC" abbr="837P">837.4010.X098.A1.xml</map>',
                           '<map vriic="004010X098A1" fic="HC" abbr="837P">837.4010.X096.A1.xml</map>')
            if t2 == t:
                raise common.Infra('maps.xml: entry 004010X098A1/HC not found')
            open(os.path.join(dst, f), 'w', encoding='utf-8').write(t2)
        else:
            os.symlink(os.path.join(src, f), os.path.join(dst, f))
    return dst


def config_file():
    p = os.path.join(common.WORK, 'c18-conf-%d.xml' % os.getpid())
    open(p, 'w').write('<?xml version="1.0"?>\n<pyx12conf>\n <param name="charset"><value>B</value><type>string</type></param>\n'
                       ' <param name="exclude_external_codes"><value>states</value><type>string</type></param>\n</pyx12conf>\n')
    return p


def ast_mutations(mods):
    """in-place mutations of a default-bound parameter or of a field it is assigned to (same class)"""
    hits = []
    for m in mods:
        try:
            tree = ast.parse(inspect.getsource(m))
        except Exception:
            continue
        for cls in [n for n in ast.walk(tree) if isinstance(n, ast.ClassDef)] + [tree]:
            aliased = set()
            funcs = [n for n in ast.walk(cls) if isinstance(n, ast.FunctionDef)]
            for f in funcs:
                params = f.args.args
                defaults = f.args.defaults
                dparams = set()
                for a, d in zip(params[len(params) - len(defaults):], defaults):
                    if isinstance(d, (ast.List, ast.Dict, ast.Set)):
                        dparams.add(a.arg)
                if not dparams:
                    continue
                for n in ast.walk(f):
                    if isinstance(n, ast.Call) and isinstance(n.func, ast.Attribute) and n.func.attr in MUTATORS \
                            and isinstance(n.func.value, ast.Name) and n.func.value.id in dparams:
                        hits.append('%s:%s: %s.%s()' % (m.__name__, f.name, n.func.value.id, n.func.attr))
                    if isinstance(n, (ast.Assign, ast.AugAssign)):
                        tgts = n.targets if isinstance(n, ast.Assign) else [n.target]
                        for t in tgts:
                            if isinstance(t, ast.Subscript) and isinstance(t.value, ast.Name) and t.value.id in dparams:
                                hits.append('%s:%s: %s[...] = ' % (m.__name__, f.name, t.value.id))
                            if isinstance(n, ast.AugAssign) and isinstance(t, ast.Name) and t.id in dparams:
                                hits.append('%s:%s: %s += ' % (m.__name__, f.name, t.id))
                            if isinstance(n, ast.Assign) and isinstance(t, ast.Attribute) and isinstance(n.value, ast.Name) and n.value.id in dparams:
                                aliased.add(t.attr)
            if aliased and isinstance(cls, ast.ClassDef):
                for n in ast.walk(cls):
                    if isinstance(n, ast.Call) and isinstance(n.func, ast.Attribute) and n.func.attr in MUTATORS \
                            and isinstance(n.func.value, ast.Attribute) and n.func.value.attr in aliased:
                        hits.append('%s:%s: self.%s.%s()' % (m.__name__, cls.name, n.func.value.attr, n.func.attr))
                    if isinstance(n, ast.AugAssign) and isinstance(n.target, ast.Attribute) and n.target.attr in aliased:
                        hits.append('%s:%s: self.%s += ' % (m.__name__, cls.name, n.target.attr))
                    if isinstance(n, ast.Assign):
                        for t in n.targets:
                            if isinstance(t, ast.Subscript) and isinstance(t.value, ast.Attribute) and t.value.attr in aliased:
                                hits.append('%s:%s: self.%s[...] = ' % (m.__name__, cls.name, t.value.attr))
    return hits


# ----------------------------------------------------------------------------- observing one document

def mask_ack(ack):
    if not ack or len(ack) < 106 or ack[:3] != 'ISA':
        return ack
    ele, term = ack[3], ack[105]
    out = []
    for s in [x.strip('\r\n') for x in ack.split(term) if x.strip('\r\n')]:
        f = s.split(ele)
        if f[0] == 'ISA':
            for i in (9, 10, 13):
                f[i] = '#'
        elif f[0] == 'GS':
            for i in (4, 5, 6):
                if i < len(f):
                    f[i] = '#'
        elif f[0] in ('IEA', 'GE'):
            f[2] = '#'
        elif f[0] in ('ST', 'SE') and len(f) > 2:
            f[2] = '#' if f[0] == 'ST' else f[2]
            if f[0] == 'SE':
                f[2] = '#'
        out.append(ele.join(f))
    return '\n'.join(out)


def observe(text, params=None, loop_id=None, map_path=None, settings=None):
    """everything C18 compares, as one JSON-able dict (timestamps and generated control numbers masked)"""
    import pyx12.error_handler
    import pyx12.params
    import pyx12.x12context
    import pyx12.x12n_document
    from . import pipeline
    import pyx12.params as _pp
    if params is None:
        params = _pp.params()
    if settings:
        for k, v in settings.items():
            params.set(k, v)      # the caller's own choice for this run (charset, exclude_external_codes)
    r = pipeline.validate(text, want_997=True, want_html=True, want_xml=True, param=params, map_path=map_path)
    html = re.sub(r'Analysis Date: [0-9/: ]+', 'Analysis Date: #', r.html or '')
    out = {'verdict': r.verdict, 'exc': list(r.exc[:3]) if r.exc else None,
           'errors': [list(map(str, e)) for e in r.errors], 'ack': mask_ack(r.ack), 'html': html, 'xml': r.xml}
    if r.exc:
        # an escaped exception is C07's business; how far the sinks got closed then depends on the cycle collector
        out['html'] = out['xml'] = out['ack'] = 'n/a (exception escaped)'
    ctx = []
    try:
        p = params
        rd = pyx12.x12context.X12ContextReader(p, pyx12.error_handler.errh_null(), io.StringIO(text))
        for node in rd.iter_segments(loop_id):
            if node.id == loop_id or getattr(node, 'type', None) == 'loop' or hasattr(node, 'iterate_segments') and node.__class__.__name__ == 'X12LoopDataNode':
                ctx.append([s['segment'].format() if isinstance(s, dict) else str(s) for s in node.iterate_segments()])
            else:
                ctx.append(node.seg_data.format())
    except Exception as ex:
        ctx.append('EXC:' + type(ex).__name__)
    out['ctx'] = ctx
    return out


def fresh(text, loop_id, settings=None, hashseed=None):
    """the same observation in a fresh interpreter"""
    env = dict(os.environ)
    if hashseed is not None:
        env['PYTHONHASHSEED'] = str(hashseed)
    p = subprocess.run(['/venv/bin/python', '-W', 'ignore', '-c',
                        'import sys, json; sys.path.insert(0, %r); sys.path.insert(0, %r)\n'
                        'from harness import c18\n'
                        'd = json.load(sys.stdin)\n'
                        'print(json.dumps(c18.observe(d["text"], None, d["loop_id"], None, d["settings"])))' % (common.VERIF, common.REPO)],
                       input=json.dumps({'text': text, 'loop_id': loop_id, 'settings': settings}), stdout=subprocess.PIPE, stderr=subprocess.PIPE, text=True, env=env, timeout=600)
    if p.returncode != 0:
        raise common.Infra('fresh interpreter failed: ' + p.stderr[-1500:])
    return json.loads(p.stdout.strip().split('\n')[-1])


def run(tier):
    import pyx12.params
    res = common.Result('C18', tier)
    res.cov['rule'] = ('histories of 3-8 generated documents (mixed maps and versions, valid and faulty, repeated documents, reused params '
                       'object; every third history starts with a run configured from a file, every third with a run on a private map directory) processed in one process by validation with all sinks and by the context reader; every result compared with a '
                       'fresh interpreter; a case is a history; non-trivial = at least two different maps or a repeated document')
    built = common.proof_stage(res, 'C18')
    mods = package_modules()
    cells = default_cells(mods)
    res.count(len(cells))
    # the model's premise is that there is no cross-run cell BEYOND the modelled ones; a cell that disappeared is harmless
    if not set(cells) <= set(MODELLED_CELLS):
        res.broke('correspondence:Globals.cells', 'mutable default cells in the package that are not modelled: %r (modelled: %r)' % (
            sorted(set(cells) - set(MODELLED_CELLS)), MODELLED_CELLS))
    muts = ast_mutations(mods)
    if muts:
        res.broke('correspondence:Globals.ops', 'in-place mutation of a default-bound name or alias: %r' % muts[:5])
    before = module_containers(mods)
    cbefore = class_containers(mods)
    pdir = private_map_dir()
    conf = config_file()
    thorough = tier == 'thorough'
    rnd = random.Random(common.seed() * 982451653 + 18)
    entries = gendoc.index_entries()
    nhist = 80 if thorough else 12
    from . import c12
    ndocs = 0
    hist_texts = []
    for h in range(nhist):
        n = rnd.randrange(3, 9) if thorough else rnd.randrange(3, 6)
        docs = []
        for _ in range(n):
            if docs and rnd.random() < 0.25:
                docs.append(rnd.choice(docs))
                continue
            m = rnd.choice(entries)
            g = gendoc.Gen(m['map_file'], m['icvn'], m['vriic'], m['fic'], seed=rnd.randrange(1 << 30), p_opt=rnd.choice((0.0, 0.5)), max_rep=2, tspc=m.get('tspc'))
            text = g.doc()
            if rnd.random() < 0.5:
                text, _ = c12.inject(text, rnd)
            if rnd.random() < 0.35:
                # a state code that is not in the external code set: the outcome then depends on exclude_external_codes
                text = re.sub(r'^(N4\*[^*~]*\*)[A-Z]{2}', r'\1ZZ', text, count=1, flags=re.M)
            lid = rnd.choice((None, 'ST_LOOP', '2000A', '2000', '2300', 'ISA_LOOP'))
            docs.append((m['map_file'], text, lid))
        prelude = None
        if h % 3 == 1:
            # an earlier run in this process configured from a FILE (charset B, states excluded); later documents are validated
            # with brand-new default params objects and must not see it
            prelude = 'config-file'
            m0, t0, l0 = docs[0]
            observe(t0, pyx12.params.params(conf), l0)
        elif h % 3 == 2:
            # an earlier run used a private map directory whose maps.xml names another map for 004010X098A1/HC; a later
            # professional claim validated with the shipped maps must not see it
            prelude = 'private-map-dir'
            e0 = [e for e in entries if e['vriic'] == '004010X098A1' and e['fic'] == 'HC'][0]
            g0 = gendoc.Gen(e0['map_file'], e0['icvn'], e0['vriic'], e0['fic'], seed=rnd.randrange(1 << 30), p_opt=0.3, max_rep=2, tspc=e0.get('tspc'))
            t0 = g0.doc()
            observe(t0, pyx12.params.params(), None, map_path=pdir)
            docs.insert(rnd.randrange(0, len(docs) + 1), (e0['map_file'], t0, rnd.choice((None, '2300', '2000A'))))
        params = pyx12.params.params()
        maps = set(d[0] for d in docs)
        res.count()
        res.distinct(tuple((d[0], hash(d[1]), d[2]) for d in docs), nontrivial=(len(maps) > 1 or len(set(docs)) < len(docs)))
        psnap = copy.deepcopy(params.params)
        mapdir = os.path.join(common.REPO, 'pyx12', 'map')
        used_settings = []
        for i, (mf, text, lid) in enumerate(docs):
            # every third document is validated with the map directory named explicitly (same files as the packaged ones)
            settings = {'charset': 'B' if (h + 2 * i) % 4 == 1 else 'E',
                        'exclude_external_codes': 'states' if (h + i) % 5 == 2 else None}
            psnap.update(settings)
            used_settings.append(settings)
            got = observe(text, params, lid, map_path=(mapdir if (h + i) % 3 == 0 else None), settings=settings)
            if params.params != psnap:
                res.violation('pred:params-object-mutated', 'the caller\'s params object was changed by a run: %r -> %r' % (
                    {k: v for k, v in psnap.items() if params.params.get(k) != v}, {k: v for k, v in params.params.items() if psnap.get(k) != v}),
                    {'history': [{'map': d[0], 'loop_id': d[2], 'document': d[1]} for d in docs[:i + 1]],
                     'call': 'x12n_document(params, ..., map_path=<explicit map directory>) then inspect params.params'})
                params.params = copy.deepcopy(psnap)
            want = fresh(text, lid, settings)
            ndocs += 1
            res.count()
            if got != want:
                diff = [k for k in want if got.get(k) != want.get(k)]
                res.violation('pred:history-dependent:%s' % '-'.join(diff),
                              'document %d of a history (%s) gives a different %s than in a fresh process' % (i, mf, diff),
                              {'history': [{'map': d[0], 'loop_id': d[2], 'document': d[1], 'settings': used_settings[j]} for j, d in enumerate(docs[:i + 1])],
                               'call': 'harness.c18.observe on each document in order with its settings, reusing one params object; compare the last with a fresh interpreter',
                               'observed': {k: repr(got.get(k))[:600] for k in diff}, 'required': {k: repr(want.get(k))[:600] for k in diff}})
            if prelude is not None and (i % 2 == 0 or prelude == 'private-map-dir' and mf == '837.4010.X098.A1.xml'):
                # the same document with a brand-new default params object and no explicit settings
                got = observe(text, None, lid)
                want = fresh(text, lid, None)
                ndocs += 1
                res.count()
                if got != want:
                    diff = [k for k in want if got.get(k) != want.get(k)]
                    res.violation('pred:history-dependent:%s' % '-'.join(diff),
                                  'document %d of a history (%s, default params) after an earlier run with a %s gives a different %s than in a fresh process' % (
                                      i, mf, prelude, diff),
                                  {'history': [{'prelude': prelude}] + [{'map': d[0], 'loop_id': d[2], 'document': d[1], 'settings': None} for j, d in enumerate(docs[:i + 1])],
                                   'call': 'harness.c18.observe(document, params(), loop_id) after the prelude run (params(config file) / map_path=private directory); compare with a fresh interpreter',
                                   'observed': {k: repr(got.get(k))[:600] for k in diff}, 'required': {k: repr(want.get(k))[:600] for k in diff}})
        for d in docs:
            if len(d[1]) < 20000 and len(hist_texts) < (150 if thorough else 30) and d[1].isascii():
                hist_texts.append(d[1])
        if len(res.cov['samples']) < 3:
            res.sample({'history': [(d[0], d[2], len(d[1])) for d in docs], 'prelude': prelude})
    cells_after = default_cells(mods)
    for k, v in cells_after.items():
        res.count()
        if len(v) != 0:
            res.violation('pred:default-cell-mutated:%s' % k, 'mutable default %s now holds %r' % (k, v), {'cell': k, 'value': repr(v)})
    after = module_containers(mods)
    for k in sorted(set(before) | set(after)):
        if after.get(k) != before.get(k, '<absent>') and not k.endswith('logger'):
            # a premise of the model ("these are all the cross-run cells") no longer checks; whether the property fails is
            # decided by the histories above (different settings for the same map in one process)
            res.broke('correspondence:Globals.module-containers', 'module-level container %s changed during the histories: %s -> %s' % (
                k, before.get(k, '<absent>')[:120], (after.get(k) or '')[:120]))
    # run-to-run differences other than timestamps and control numbers: one document whose segment carries two different
    # segment-level codes (leading blank + trailing separator), in fresh interpreters that differ only in the string hash seed
    m0 = [e for e in entries if e['map_file'].startswith('834')][0]
    g0 = gendoc.Gen(m0['map_file'], m0['icvn'], m0['vriic'], m0['fic'], seed=7, p_opt=0.0, max_rep=1, tspc=m0.get('tspc'))
    lines0 = g0.doc().strip().split('\n')
    j0 = next(i for i, l in enumerate(lines0) if l.startswith('N1*'))
    lines0[j0] = ' ' + lines0[j0].rstrip('~') + '*~'
    t0 = '\n'.join(lines0) + '\n'
    obs = [fresh(t0, None, None, hashseed=hs) for hs in ((0, 1, 2, 3, 6) if not thorough else range(12))]
    res.count(len(obs))
    for o in obs[1:]:
        if o != obs[0]:
            diff = [k for k in o if o.get(k) != obs[0].get(k)]
            res.violation('pred:hash-seed-dependent:%s' % '-'.join(diff),
                          'the same document gives a different %s in two fresh processes that differ only in PYTHONHASHSEED' % diff,
                          {'history': [{'map': m0['map_file'], 'loop_id': None, 'document': t0, 'settings': None}],
                           'call': 'harness.c18.observe in fresh interpreters with PYTHONHASHSEED=0 / 1 / 2 / 3 / 6',
                           'observed': {k: repr(o.get(k))[:500] for k in diff}, 'required': {k: repr(obs[0].get(k))[:500] for k in diff}})
            break
    if built:
        # the documents of the histories once more, in THIS process (after everything above ran in it), against the pure
        # end-to-end model (Props/C18Doc.lean: a session is the map of validateDoc over the requests)
        from . import doc as docmod
        docmod.attach(res, hist_texts, 'after-histories', audit=False)
    cafter = class_containers(mods)
    for k in sorted(set(cbefore) | set(cafter)):
        if cafter.get(k) != cbefore.get(k, '<absent>'):
            res.broke('correspondence:Globals.class-containers', 'class-level container %s changed during the histories: %s -> %s' % (
                k, cbefore.get(k, '<absent>')[:120], (cafter.get(k) or '')[:120]))
    import shutil
    shutil.rmtree(pdir, ignore_errors=True)
    if os.path.exists(conf):
        os.remove(conf)
    res.notes['class_containers_watched'] = len(cbefore)
    res.notes['documents'] = ndocs
    res.notes['histories'] = nhist
    res.notes['default_cells'] = sorted(cells)
    res.notes['module_containers_watched'] = len(before)
    res.notes['disagreements_checked'] = 0
    res.assumptions = ['interpreter-level state outside the model (logging handlers, sys.path, stdlib caches) is exercised, not modelled',
                       'timestamps, generated control numbers and the HTML date line are masked before comparison']
    return res.finish(trusted=common.TRUSTED_COMMON + ['the AST scan for in-place mutation is syntactic (mutator method calls, item assignment, augmented assignment on the bound name or an aliased field of the same class)'])


def replay(d):
    hist = d['replay']['history']
    import pyx12.params
    params = pyx12.params.params()
    got = None
    docs = [h for h in hist if 'document' in h]
    for h in hist:
        if h.get('prelude') == 'config-file':
            observe(docs[0]['document'], pyx12.params.params(config_file()), docs[0]['loop_id'])
            params = None
            continue
        if h.get('prelude') == 'private-map-dir':
            t0 = [x for x in docs if x['map'] == '837.4010.X098.A1.xml'][0]['document']
            observe(t0, pyx12.params.params(), None, map_path=private_map_dir())
            params = None
            continue
        got = observe(h['document'], params, h['loop_id'], None, h.get('settings'))
    want = fresh(hist[-1]['document'], hist[-1]['loop_id'], hist[-1].get('settings'))
    print('same' if got == want else 'different')
    return 0 if got == want else 1
