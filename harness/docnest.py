"""
Envelope nesting of the loaded maps (hypothesis `EnvNested` of Props/DocTotalFull.lean: `doc_envelope_order`,
`doc_total_sharp_holds`), evaluated by the model driver (op NESTOK, Drv/DocNest.lean) on exactly the maps the end-to-end
tie loads (harness/doc.py), and the real-code witness for a map that fails it.

nesting() -> ({map file: (set_ok, ctl_ok or None)}, all_ok)
attach(res) : notes the result in `res`; for every map that fails the static condition and has a directed witness below,
              runs the witness through the real `x12n_document` and reports the escaping exception as a C07 violation
              keyed crash:<Exception>:<file>:<function> (so a listed finding / an applied repair is matched by class).

Why a map can fail: `830.4010.PS.xml` gives GS the position of ST_LOOP and ST the position of HEADER / DETAIL / FOOTER; the
loader orders loops before segments where positions tie, so ST is never matched, a segment of a wrapper loop is, and the SE
that follows is matched with no set open: `err_handler.close_st_loop` raises AttributeError.  The map is selected by a
second interchange whose ISA12 is 00400 (the constructor only checks the first ISA).
"""
from . import common

ISA_401 = 'ISA*00*          *00*          *ZZ*SENDER         *ZZ*RECEIVER       *200101*1200*U*00401*000000001*0*P*:~'
ISA_400 = 'ISA*00*          *00*          *ZZ*SENDER         *ZZ*RECEIVER       *200101*1200*U*00400*000000002*0*P*:~'

# directed witnesses: map file -> document on which the real code leaves the documented error classes
WITNESS = {
    '830.4010.PS.xml': ISA_401 + 'IEA*0*000000001~' + ISA_400 +
                       'GS*PS*S*R*20200101*1200*1*X*004010~ST*830*0001~CTT*1~SE*3*0001~GE*1*1~IEA*1*000000002~',
}


def nesting():
    from . import doc
    L = doc.loaded()
    f = common.run_model(L.lines + [common.line('NESTOK')])[-1].split('\t')
    if f[0] == 'bad-op':
        return None, None
    n = int(f[0])
    per = {}
    for i in range(n):
        name = common.unesc(f[1 + 3 * i])
        c = f[3 + 3 * i]
        per[name] = (f[2 + 3 * i] == '1', None if c == '-' else c == '1')
    return per, f[2 + 3 * n] == '1'


def real_key(text):
    """exception class of the real x12n_document on `text`, as a C07 key (None: verdict or documented refusal)"""
    from . import pipeline
    r = pipeline.validate(text, want_997=True)
    if r.exc is None:
        return None, r
    name, f, fn, msg = r.exc
    if name == 'X12Error' and f in ('rawx12file.py', 'x12file.py'):
        return None, r
    if name == 'EngineError' and msg.startswith('Map not found'):
        return None, r
    return 'crash:%s:%s:%s' % (name, f, fn), r


def attach(res):
    per, allok = nesting()
    if per is None:
        res.notes['envelope_nesting'] = 'driver has no NESTOK op'
        return
    bad = sorted(f for f, (s, c) in per.items() if not s or c is False)
    res.notes['envelope_nesting'] = {'maps': len(per), 'all': allok, 'failing': bad}
    for f in bad:
        text = WITNESS.get(f)
        key = None
        if text is not None:
            key, r = real_key(text)
        if key is None:
            # the theorem's hypothesis no longer holds for this map and no crashing document is at hand
            res.broke('hypothesis:EnvNested:' + f, 'map %s does not satisfy the envelope nesting condition (NESTOK) that doc_total_sharp_holds '
                      'and doc_envelope_order assume: an ST / SE / GS may be matched with no enclosing loop open' % f)
            continue
        if key is not None:
            res.violation(key, '%s: envelope nesting violated by the map (%s): %s' % (key, f, r.exc[3][:100]),
                          {'entry': 'x12n', 'sinks': [True, False, False], 'charset': None, 'loop_id': None, 'document': text,
                           'map': f, 'mutation': 'directed:envelope-nesting', 'key': key,
                           'required': 'a boolean verdict or a documented refusal'})
