"""
C19 - HTML report complete and escaped.

Theorems (lean/Pyx12Verif/Props/C19.lean) are about the Lean model of pyx12/error_html.py *after* the fixes
D16 (messages escaped) and D39 (segment identifier and delimiters escaped): escaped text carries no markup,
strip + decode of a segment line gives back the segment as read, the markup of a line depends on its shape only,
one segment line per reader segment in order.

Tie / oracle (this file): generated documents of every selectable map, 0-3 injected faults, `< > & " '` and blanks in
AN values, odd segment identifiers, exotic delimiters  ->  pyx12.x12n_document.x12n_document(fd_html=...)  ->  own HTML
tokenizer  ->
  (a) the document is complete and well formed (balanced tags, one segment list),
  (b) every source segment is listed once, in order, with its number; strip markup + decode = the segment as read,
  (c) every error that reached the error tree (recorded by a subclass of err_handler substituted in-process) is shown
      next to the segment being processed when it was raised,
  (d) no markup and no bare `&` comes from the input (only the template's tags occur, in the template's arrangement),
and the escaped segment / message lines are compared with the model (`segLineM`, `msgLine`).
impl = real HTML, model = Lean driver (ops H19*), want = the statement above evaluated on the source text.

Out of scope (skipped and counted): runs in which x12n_document raises (C07) - with or without the HTML sink.

Cursor tie (lean/Pyx12Verif/Model/ErrIter.lean, Props/C19Iter.lean, driver op I19R): the err_handler call sequence of every run
is captured the way harness/c05.py does it, with a `dr <segment id>` marker at the end of each loop body; the model replays
the calls on the ErrTree model, drains its `err_iter` cursor at every marker and lists what `gen_seg` / `footer` write.  The
sequence (segment line | "Segment Error Code: c" | "Element Error Code: c") read from the real HTML must be the model's
sequence: which error is shown next to which segment - including the errors that are *not* shown (the five known
`pred:error-not-next-to-its-segment:*` classes) - is then a consequence of the proved cursor model, not only an observation.
A disagreement is `correspondence:ErrIter.report`.
"""
import io
import os
import random
import re
import traceback

from . import common

SPECIALS = ['<b>', 'a<b', 'x>y', 'A&B', 'R&amp;D', '"q"', "it's", 'two  blanks', ' lead', 'trail ', '<script>alert(1)</script>',
            '</span>', '<span class="seg">', '<span class="error">x</span>', '&lt;', '&nbsp;', '&#60;', '<!--', '-->', '<', '>', '&',
            '<i>', '<br />', '& &', '<<>>', '&amp;amp;', 'a b c', '<a href="x">', "'", '"', '</div>', '</html>', '&gt', 'lt;']
SEG_IDS = ['ZZZ', '<i>', 'A&B', '<b', 'X>', '&lt', 'Z9', 'Q"Q', "X'Y", '</p']
DELIM_POOL = ['~', '*', ':', '<', '>', '&', '|', '!', '\x1c', '\x1d', '\x1f', '"', "'", '\n', '+', '=']
TEMPLATE_OPEN = {'<span class="error">': 'error', '<span class="info">': 'info', '<span class="seg">': 'seg'}
ERR_OPEN = '<span class="ele_err">'
VOID = ('link', 'br', 'meta', 'hr', 'img')
ENTITIES = (('&amp;', '&'), ('&nbsp;', ' '), ('&gt;', '>'), ('&lt;', '<'))


# ------------------------------------------------------------------------------------ own reading of the source

def split_source(text):
    """own tokenizer of the source text: delimiters from the ISA, pieces between terminators (leading CR/LF dropped)
    -> (seg_term, ele_term, sub_term, [raw segment text])"""
    se, el, su = text[105], text[3], text[104]
    raws = []
    for piece in text.split(se)[:-1]:
        piece = piece.lstrip('\r\n')
        if piece == '':
            break
        raws.append(piece)
    return se, el, su, raws


def structure(raw, el, su):
    """(id, [[sub-elements]]) of a raw segment; ISA elements are never split"""
    parts = raw.split(el)
    sid = parts[0]
    if sid == 'ISA':
        return sid, [[p] for p in parts[1:]]
    return sid, [p.split(su) for p in parts[1:]]


def as_read(raw, se, el):
    """the segment as read, in the report's canonical form: an element-less segment carries one separator"""
    return (raw if el in raw else raw + el) + se


# ------------------------------------------------------------------------------------ own HTML tokenizer

class HtmlError(Exception):
    pass


def tokenize(html):
    """-> [(kind, text, start, end)] kind in tag / text / comment; raises HtmlError on an unterminated construct"""
    out = []
    i, n = 0, len(html)
    while i < n:
        if html.startswith('<!--', i):
            j = html.find('-->', i + 4)
            if j < 0:
                raise HtmlError('unterminated comment at %d' % i)
            out.append(('comment', html[i:j + 3], i, j + 3))
            i = j + 3
        elif html[i] == '<':
            j = html.find('>', i + 1)
            if j < 0:
                raise HtmlError('unterminated tag at %d' % i)
            out.append(('tag', html[i:j + 1], i, j + 1))
            i = j + 1
        else:
            j = html.find('<', i)
            if j < 0:
                j = n
            out.append(('text', html[i:j], i, j))
            i = j
    return out


def tag_name(t):
    m = re.match(r'</?\s*([A-Za-z0-9]+)', t)
    return m.group(1).lower() if m else None


def decode(s):
    """decode the four entities the report uses; anything else stays (own scanner, left to right)"""
    out = []
    i = 0
    while i < len(s):
        if s[i] == '&':
            for ent, ch in ENTITIES:
                if s.startswith(ent, i):
                    out.append(ch)
                    i += len(ent)
                    break
            else:
                out.append('&')
                i += 1
        else:
            out.append(s[i])
            i += 1
    return ''.join(out)


def bare_specials(s):
    """characters of a text node that should have been escaped: `>` and an `&` that begins no entity"""
    bad = []
    i = 0
    while i < len(s):
        if s[i] == '>':
            bad.append('>')
        elif s[i] == '&':
            if not any(s.startswith(ent, i) for ent, _ in ENTITIES):
                bad.append('&')
        i += 1
    return bad


class Item(object):
    __slots__ = ('cls', 'pieces', 'start', 'end', 'problems', 'wraps')

    def __init__(self, cls, start):
        self.cls, self.start, self.end = cls, start, start
        self.pieces = []      # text pieces (escaped) in order
        self.wraps = []       # (decoded offset, decoded length) of ele_err spans
        self.problems = []

    def text(self):
        return ''.join(self.pieces)


def parse_report(html):
    """-> (problems of the frame, [Item]) ; problems are (where, what) with where in frame/error/info/seg"""
    problems = []
    try:
        toks = tokenize(html)
    except HtmlError as e:
        return [('frame', str(e))], []
    # (a) generic well-formedness
    stack = []
    tags = [t for t in toks if t[0] == 'tag']
    if not tags or tags[0][1] != '<html>' or tags[-1][1] != '</html>':
        problems.append(('frame', 'document does not start with <html> and end with </html>'))
    if html[:6] != '<html>' or html.rstrip('\n')[-7:] != '</html>':
        problems.append(('frame', 'text outside <html>…</html>'))
    for kind, t, a, b in toks:
        if kind != 'tag':
            continue
        name = tag_name(t)
        if name is None:
            problems.append(('frame', 'malformed tag %r' % t[:40]))
            continue
        if t.startswith('</'):
            while stack and stack[-1] == 'p' and name != 'p':
                stack.pop()                       # </p> is optional
            if not stack or stack[-1] != name:
                problems.append(('frame', 'unbalanced %s' % t[:40]))
            else:
                stack.pop()
        elif t.endswith('/>') or name in VOID:
            pass
        else:
            stack.append(name)
    if [s for s in stack if s != 'p']:
        problems.append(('frame', 'unclosed %s' % ','.join(stack)))
    # the segment list
    divs = [k for k, t in enumerate(toks) if t[0] == 'tag' and t[1].startswith('<div class="segs"')]
    if len(divs) != 1:
        problems.append(('frame', '%d segment lists' % len(divs)))
        return problems, []
    k = divs[0] + 1
    items = []
    cur = None
    depth = 0          # 0 outside an item, 1 inside, 2 inside ele_err
    last_cls = 'frame'
    closed = False
    while k < len(toks):
        kind, t, a, b = toks[k]
        k += 1
        if kind == 'comment':
            (cur.problems if cur else problems).append((cur.cls if cur else last_cls, 'comment %r' % t[:30]))
            continue
        if kind == 'text':
            if cur is None:
                if t.strip('\n') != '':
                    problems.append((last_cls, 'text between items %r' % t[:40]))
            else:
                if depth == 2:
                    cur.wraps.append((len(decode(cur.text())), len(decode(t))))
                cur.pieces.append(t)
            continue
        # tag
        if cur is None:
            if t in TEMPLATE_OPEN:
                cur = Item(TEMPLATE_OPEN[t], a)
                depth = 1
            elif t == '<br />':
                if items:
                    items[-1].end = b + (1 if html[b:b + 1] == '\n' else 0)
            elif t == '</div>':
                closed = True
                break
            else:
                problems.append((last_cls, 'tag %r between items' % t[:40]))
        else:
            if t == '</span>':
                if depth == 2:
                    depth = 1
                else:
                    cur.end = b
                    items.append(cur)
                    last_cls = cur.cls
                    cur = None
                    depth = 0
            elif t == ERR_OPEN and cur.cls == 'seg' and depth == 1:
                depth = 2
                if k < len(toks) and toks[k][0] != 'text':       # empty value wrapped
                    cur.wraps.append((len(decode(cur.text())), 0))
            else:
                cur.problems.append((cur.cls, 'tag %r inside a %s item' % (t[:40], cur.cls)))
    if cur is not None:
        problems.append((cur.cls, 'unterminated %s item' % cur.cls))
    if not closed:
        problems.append((last_cls, 'segment list not closed'))
    else:
        rest = [t for t in toks[k:] if t[0] == 'tag']
        if [t[1] for t in rest][-3:] != ['</p>', '</body>', '</html>']:
            problems.append((last_cls, 'unexpected tail after the segment list'))
    for it in items:
        if it.cls in ('error', 'seg'):
            for piece in it.pieces:
                for ch in bare_specials(piece):
                    it.problems.append((it.cls, 'bare %r in text' % ch))
    return problems, items


# ------------------------------------------------------------------------------------ running the real code

def node_lines(node):
    """source line numbers an error-tree node stands for (plain attribute reads)"""
    out = []
    for a in ('cur_line_isa', 'cur_line_iea', 'cur_line_gs', 'cur_line_ge', 'cur_line_st', 'cur_line_se'):
        v = getattr(node, a, None)
        if isinstance(v, int):
            out.append(v)
    if getattr(node, 'id', None) == 'SEG':
        v = getattr(node, 'cur_line', None)
        if isinstance(v, int):
            out.append(v)
    return out


def tree_index(errh):
    """id(node) -> (number of error tuples, node, owner, owner's parent) for every node reachable from the root of the
    error tree; owner = the node itself, or for an element node the segment/envelope node holding it"""
    idx = {}
    stack = [(c, None) for c in getattr(errh, 'children', [])]
    while stack:
        node, parent = stack.pop()
        idx[id(node)] = (len(getattr(node, 'errors', [])), node, node, parent)
        for e in getattr(node, 'elements', []) or []:
            idx[id(e)] = (len(getattr(e, 'errors', [])), e, node, parent)
        stack.extend((k, node) for k in (getattr(node, 'children', []) or []))
    return idx


def describe(entry):
    """final-state description of the tree node that received an error"""
    if entry is None:
        return None
    _, node, owner, parent, nchildren = entry
    return {'kind': 'ELE' if node is not owner else getattr(node, 'id', '?'),
            'parent_kind': getattr(owner, 'id', '?') if node is not owner else None,
            'lines': node_lines(owner), 'nchildren': nchildren,        # children when the error was raised
            'parent_lines': node_lines(parent) if parent is not None else []}


def run_real(text, with_html=True):
    """-> dict(status, html, events, ncb, exc) ; events = [(level, code, msg, k, host)]: k = number of the segment being
    processed when the error handler was called, host = description of the tree node that received the error (None = lost)"""
    import logging
    logging.disable(logging.CRITICAL)       # pyx12 logs every error; the oracle reads the error tree instead
    try:
        import pyx12.error_handler
        import pyx12.params
        import pyx12.x12n_document
        base = pyx12.error_handler.err_handler
        entry = pyx12.x12n_document.x12n_document
    except (ImportError, AttributeError) as e:
        raise common.Infra('pyx12 entry point missing: %r' % (e,))
    events = []
    counter = [0]
    fields = []          # the err_handler call sequence in the encoding of driver op E5 (harness/c05.py) + `dr` markers

    def opt(v):
        return '-' if v is None else '+' + v

    def py_int(v):
        if v is None:
            return 'absent'
        try:
            return 'n%d' % int(v)
        except ValueError:
            return 'bad'

    class Recording(base):
        def add_isa_loop(self, seg, src):
            fields.append('ai')
            fields.extend(opt(seg.get_value('ISA%02d' % i)) for i in range(5, 16))
            return base.add_isa_loop(self, seg, src)

        def add_gs_loop(self, seg, src):
            fields.append('ag')
            fields.extend(opt(seg.get_value('GS%02d' % i)) for i in (1, 2, 3, 6, 7, 8))
            fields.append(opt(src.get_gs_id()))
            return base.add_gs_loop(self, seg, src)

        def add_st_loop(self, seg, src):
            fields.extend(['as', opt(seg.get_value('ST01')), opt(seg.get_value('ST03')), opt(src.get_st_id())])
            return base.add_st_loop(self, seg, src)

        def add_seg(self, map_node, seg, seg_count, cur_line, ls_id):
            fields.extend(['sg', seg.get_seg_id(), str(seg_count), opt(ls_id)])
            return base.add_seg(self, map_node, seg, seg_count, cur_line, ls_id)

        def add_ele(self, map_node):
            r = base.add_ele(self, map_node)
            e = self.cur_ele_node
            fields.extend(['el', str(e.ele_pos), '-' if e.subele_pos is None else '+%d' % e.subele_pos, opt(e.ele_ref_num)])
            return r

        def close_isa_loop(self, node, seg, src):
            fields.append('ci')
            return base.close_isa_loop(self, node, seg, src)

        def close_gs_loop(self, node, seg, src):
            fields.extend(['cg', py_int(seg.get_value('GE01')) if seg is not None else 'absent', str(src.st_count)])
            return base.close_gs_loop(self, node, seg, src)

        def close_st_loop(self, node, seg, src):
            fields.append('cs')
            return base.close_st_loop(self, node, seg, src)

        def _c19(self, level, cde, msg, call):
            before = tree_index(self)
            try:
                call()
            finally:
                after = tree_index(self)
                host = None
                for key, entry in after.items():
                    if entry[0] > before.get(key, (0,))[0]:
                        host = entry + (len(getattr(entry[2], 'children', []) or []),)
                events.append((level, cde, msg, counter[0] + 1, host))

        def isa_error(self, err_cde, err_str):
            fields.extend(['ie', err_cde])
            self._c19('isa', err_cde, err_str, lambda: base.isa_error(self, err_cde, err_str))

        def gs_error(self, err_cde, err_str):
            fields.extend(['ge', err_cde])
            self._c19('gs', err_cde, err_str, lambda: base.gs_error(self, err_cde, err_str))

        def st_error(self, err_cde, err_str):
            fields.extend(['se', err_cde])
            self._c19('st', err_cde, err_str, lambda: base.st_error(self, err_cde, err_str))

        def seg_error(self, err_cde, err_str, err_value=None, src_line=None):
            fields.extend(['sr', err_cde, opt(err_value)])
            self._c19('seg', err_cde, err_str, lambda: base.seg_error(self, err_cde, err_str, err_value, src_line))

        def ele_error(self, err_cde, err_str, bad_value, refdes=None):
            fields.extend(['er', err_cde, err_str, opt(bad_value)])
            self._c19('ele', err_cde, err_str, lambda: base.ele_error(self, err_cde, err_str, bad_value, refdes))

    def callback(seg, src, node, valid):
        counter[0] += 1
        fields.extend(['dr', seg.get_seg_id()])      # the callback runs just before the drain loop of this segment

    sink = io.StringIO() if with_html else None
    res = {'status': 'ok', 'html': None, 'events': events, 'exc': None, 'ncb': 0, 'fields': fields}
    pyx12.error_handler.err_handler = Recording
    try:
        entry(pyx12.params.params(), io.StringIO(text), None, sink, None, callback=callback)
    except Exception as e:
        tb = traceback.extract_tb(e.__traceback__)
        inner = [f for f in tb if os.sep + 'pyx12' + os.sep in f.filename]
        where = '%s:%s' % (os.path.basename(inner[-1].filename), inner[-1].name) if inner else '?'
        res['status'] = 'raise'
        res['exc'] = '%s:%s' % (type(e).__name__, where)
    finally:
        pyx12.error_handler.err_handler = base
    res['ncb'] = counter[0]
    res['events'] = [(lv, cd, ms, k, describe(h)) for (lv, cd, ms, k, h) in events]
    if sink is not None:
        res['html'] = sink.getvalue()
    return res


# ------------------------------------------------------------------------------------ the oracle

def miss_cause(ev, ids):
    """rule-like class of an error that is not shown next to its segment"""
    level, code, msg, k, host = ev
    n = len(ids)
    if 'IEA' in ids and k > ids.index('IEA') + 1:
        return 'second-interchange'
    if level == 'ele' and host['kind'] == 'ELE' and k not in host['lines']:
        return 'stale-element-node'
    if level == 'seg' and host['kind'] == 'SEG' and k not in host['lines']:
        return 'stored-under-another-segment'
    if level == 'isa':
        return 'interchange-level'
    open_st = None
    for p in range(min(k - 1, n)):
        if ids[p] == 'ST':
            if open_st is not None:
                return 'after-unterminated-set'
            open_st = p
        elif ids[p] == 'SE':
            open_st = None
        elif ids[p] in ('GE', 'IEA') and open_st is not None:
            return 'after-unterminated-set'
    if k > n:
        return 'end-of-input'
    sid = ids[k - 1]
    env = host['kind'] if host['kind'] in ('ISA', 'GS', 'ST') else (host['parent_kind'] if host['kind'] == 'ELE' else None)
    if sid in ('SE', 'GE', 'IEA') and env in ('ISA', 'GS', 'ST'):
        return 'trailer-of-loop-without-error-nodes' if host['nchildren'] == 0 else 'trailer'
    if host['kind'] == 'SEG' or (host['kind'] == 'ELE' and host['parent_kind'] == 'SEG'):
        pl = host['parent_lines']
        if len(pl) == 2 and max(pl) < min(host['lines'] or [k]):
            return 'segment-outside-set'
    return 'other'


ERR_TAIL = re.compile(r'\((Segment|Element) Error Code: ([^()]*)\)$')


def report_tokens(problems, items):
    """the report as the cursor model lists it: '#' per segment line, 'S:<code>' / 'E:<code>' per message, in order;
    None when the structure of the report is not intact (input markup got through: reported as pred:unescaped:*)"""
    if problems:
        return None
    out = []
    for it in items:
        if it.problems:
            return None
        if it.cls == 'seg':
            out.append('#')
        elif it.cls == 'error':
            m = ERR_TAIL.search(decode(it.text()))
            if m is None:
                return None
            out.append(('S:' if m.group(1) == 'Segment' else 'E:') + common.esc(m.group(2)))
    return out


def oracle(text, real):
    """-> (violations [(key, what)], info dict) for one completed run"""
    viol = []
    info = {'model_ops': [], 'nseg': 0, 'nerr': 0, 'swallowed': 0, 'extra_msgs': 0, 'elementless': 0, 'wraps': 0, 'root_cause_only': 0}
    html = real['html']
    se, el, su, raws = split_source(text)
    ids = [r.split(el)[0] for r in raws]
    info['nseg'] = len(raws)
    problems, items = parse_report(html)
    info['iter'] = (common.line('I19R', *real['fields']), report_tokens(problems, items)) if 'fields' in real else None
    seen = set()

    def add(key, what):
        if (key, what) not in seen:
            seen.add((key, what))
            viol.append((key, what))

    def seg_causes(k):
        """which part of segment k can have produced unescaped text"""
        out = []
        if k is None or not (1 <= k <= len(raws)):
            return ['element-value']
        if any(c in '<>&' for c in ids[k - 1]):
            out.append('segment-id')
        if any(d in '<>&' for d in (se, el, su) if d in raws[k - 1] + el + se):
            out.append('delimiter')
        return out or ['element-value']

    seg_items = [it for it in items if it.cls == 'seg']
    # root causes first: input text that is found verbatim (not escaped) where the report echoes it.  Injected markup wrecks the
    # structure of the report, so when a root cause is present only the root cause is reported for this document.
    def esc(v):
        return v.replace('&', '&amp;').replace(' ', '&nbsp;').replace('>', '&gt;').replace('<', '&lt;')

    for (level, code, msg, k, host) in real['events']:
        if host is not None and any(c in msg for c in '<>&') and ('<span class="error">&nbsp;' + msg + ' (') in html:
            add('pred:unescaped:message', 'message of %s-level error %s is written as it is: %r' % (level, code, msg[:80]))
            break
    for k, raw in enumerate(raws, 1):
        sid = ids[k - 1]
        if any(c in sid for c in '<>&') and any(('>%d:&nbsp;%s%s' % (k, sid, e)) in html for e in (el, esc(el))):
            add('pred:unescaped:segment-id', 'identifier %r of segment %d is written as it is' % (sid, k))
            break
    if raws and raws[0].startswith('ISA' + el):
        if el in '<>&' and ('>1:&nbsp;ISA' + el + esc(raws[0].split(el)[1])) in html:
            add('pred:unescaped:delimiter', 'element separator %r is written as it is' % el)
        if se in '<>&' and (el + esc(su) + se + '</span><br />') in html:
            add('pred:unescaped:delimiter', 'segment terminator %r is written as it is' % se)
        if su in '<>&':
            for raw in raws[1:]:
                comp = [e.split(su) for e in raw.split(el)[1:] if su in e]
                if comp:
                    body = su.join(esc(x) for x in comp[0])
                    if any((l + body + r) in html for l in (el, esc(el)) for r in (el, esc(el), se, esc(se))):
                        add('pred:unescaped:delimiter', 'sub-element separator %r is written as it is' % su)
                    break
    if viol:
        info['root_cause_only'] = 1
        return viol, info
    # (a) + (d) problems of the frame and between items
    for where, what in problems:
        if where == 'frame':
            add('pred:document-not-well-formed', what)
        elif where == 'seg':
            for c in seg_causes(len(seg_items)):
                add('pred:unescaped:' + c, what)
        elif where == 'error':
            add('pred:unescaped:message', what)
        else:
            add('pred:unescaped:loop-information', what)
    # (d) inside items
    nseen = 0
    for it in items:
        if it.cls == 'seg':
            nseen += 1
        for where, what in it.problems:
            if it.cls == 'seg':
                for c in seg_causes(nseen):
                    add('pred:unescaped:' + c, 'segment %d: %s' % (nseen, what))
            elif it.cls == 'error':
                add('pred:unescaped:message', what)
            else:
                add('pred:unescaped:loop-information', what)
    # (b) every source segment once, in order, numbered, all values
    if len(seg_items) != len(raws):
        add('pred:segment-count', '%d source segments, %d segment lines' % (len(raws), len(seg_items)))
    for k, (raw, it) in enumerate(zip(raws, seg_items), 1):
        want = '%d: %s' % (k, as_read(raw, se, el))
        got = decode(it.text())
        if el not in raw:
            info['elementless'] += 1
        if got != want:
            if not it.problems:
                for c in seg_causes(k):
                    add('pred:segment-line-differs:' + c, 'segment %d shows %r, source is %r' % (k, got[:80], want[:80]))
            continue
        if it.problems:
            continue
        # correspondence with the model: marks from the positions of the highlighted values
        sid, elems = structure(raw, el, su)
        offs = {}
        pos = len('%d: ' % k) + len(sid) + len(el)
        for i, subs in enumerate(elems, 1):
            for j, v in enumerate(subs, 1):
                offs.setdefault((pos, len(v)), (i, j, len(subs)))
                pos += len(v) + (len(su) if j < len(subs) else 0)
            pos += len(el)
        marks = []
        okm = True
        for (o, ln) in it.wraps:
            m = offs.get((o, ln))
            if m is None:
                okm = False
                break
            marks.append((m[0], '-' if m[2] == 1 else str(m[1])))
        info['wraps'] += len(it.wraps)
        if not okm:
            info['model_ops'].append((None, None, 'segment %d: highlighted span is not an element value' % k))
            continue
        fields = ['H19S', k, se, el, su, len(marks)]
        for (i, j) in marks:
            fields += [i, j]
        fields += [sid, len(elems)]
        for subs in elems:
            fields.append(len(subs))
            fields += subs
        info['model_ops'].append((common.line(*fields), html[it.start:it.end], 'segLineM segment %d' % k))
    # (c) every error of the tree next to its segment: the segment being processed when it was raised, or (lenient towards
    #     mis-attachment in the error tree, which is C03's business) a segment the receiving tree node stands for
    seg_pos = [n for n, it in enumerate(items) if it.cls == 'seg']
    used = set()

    def block(k):
        if k <= len(seg_pos):
            lo = seg_pos[k - 2] if k >= 2 else -1
            hi = seg_pos[k] if k < len(seg_pos) else len(items)
        else:
            lo = seg_pos[-1] if seg_pos else -1
            hi = len(items)
        return lo, hi

    for ev in real['events']:
        (level, code, msg, k, host) = ev
        if host is None:
            info['swallowed'] += 1
            continue
        info['nerr'] += 1
        label = 'Element' if level == 'ele' else 'Segment'
        want = ' %s (%s Error Code: %s)' % (msg, label, code)
        found = None
        spoiled = False
        for p in [k] + [l for l in host['lines'] if l != k]:
            lo, hi = block(p)
            for n in range(lo + 1, hi):
                it = items[n]
                if it.cls == 'error' and n not in used and decode(it.text()) == want:
                    found = n
                    break
            if found is not None:
                break
            if any(it.cls == 'error' and it.problems for it in items[lo + 1:hi]):
                spoiled = True
        if found is None:
            if spoiled and any(c in msg for c in '<>&'):
                continue          # the message is there but not escaped: reported as pred:unescaped:message
            shown_elsewhere = any(it.cls == 'error' and decode(it.text()) == want for it in items)
            add('pred:error-not-next-to-its-segment:' + miss_cause(ev, ids),
                '%s-level error %s raised at segment %d (%s), stored in a %s node of line(s) %s, is %s' %
                (level, code, k, ids[k - 1] if k <= len(ids) else 'end of input', host['kind'] +
                 ('@' + host['parent_kind'] if host['kind'] == 'ELE' else ''), host['lines'],
                 'shown only next to another segment' if shown_elsewhere else 'missing from the report'))
        else:
            used.add(found)
            if not items[found].problems and re.match(r'^[A-Za-z0-9]+$', code):
                info['model_ops'].append((common.line('H19M', 'E' if level == 'ele' else 'S', msg, code),
                                          html[items[found].start:items[found].end], 'msgLine'))
    info['extra_msgs'] = len([1 for n, it in enumerate(items) if it.cls == 'error' and n not in used])
    return viol, info


# ------------------------------------------------------------------------------------ generator

def parse_default(text):
    segs = []
    for piece in text.split('~'):
        piece = piece.strip('\n')
        if piece:
            sid, elems = structure(piece, '*', ':')
            segs.append([sid, elems])
    return segs


def clean(s, delims):
    for d in delims:
        s = s.replace(d, '_')
    return s


def build_case(cid, seed):
    """-> dict(text, desc) or None when the generator cannot serve this case"""
    from . import gendoc
    rnd = random.Random(seed * 1000003 + cid * 7919 + 19)
    ents = gendoc.index_entries()
    m = ents[cid % len(ents)]
    g = gendoc.Gen(m['map_file'], m['icvn'], m['vriic'], m['fic'], seed=rnd.randrange(1 << 30),
                   p_opt=rnd.choice([0.0, 0.0, 0.1, 0.3]), max_rep=rnd.choice([1, 1, 2]), tspc=m.get('tspc'))
    segs = parse_default(g.doc())
    nodes = [n for _, n in g.segs]
    if len(nodes) != len(segs) or len(segs) > 400:
        return None
    # delimiters
    if rnd.random() < 0.45:
        se, el, su = rnd.sample(DELIM_POOL, 3)
        if el == '\n' or su == '\n':
            se, el, su = '~', '*', ':'
    else:
        se, el, su = '~', '*', ':'
    delims = (se, el, su)
    if any(d in v for s in segs for e in s[1] for v in e for d in delims) or any(d in s[0] for s in segs for d in delims):
        se, el, su = '~', '*', ':'
        delims = (se, el, su)
    segs[0][1][15] = [su]
    desc = {'map': m['map_file'], 'delims': ''.join(delims), 'faults': []}
    body = [k for k in range(1, len(segs))]          # never the ISA (fixed width)

    def dtype(child):
        try:
            de = g.map.data_elements.get_by_elem_num(child.data_ele)
            return de['data_type'], de['min_len'], de['max_len']
        except Exception:
            return None, 0, 0

    # values the run needs to get through validation at all (map selection, HL bookkeeping): crashes belong to C07
    keep = {('GS', 0), ('GS', 7), ('ST', 0), ('ST', 2), ('HL', 0), ('HL', 1), ('BHT', 1), ('GE', 0)}

    def simple_slots(k, pred):
        out = []
        node = nodes[k]
        for i, c in enumerate(getattr(node, 'children', [])):
            if (segs[k][0], i) in keep:
                continue
            if i < len(segs[k][1]) and not c.is_composite() and len(segs[k][1][i]) == 1 and pred(c, segs[k][1][i][0]):
                out.append(i)
        return out

    def special(maxlen=None):
        s = clean(rnd.choice(SPECIALS), delims)
        if maxlen and rnd.random() < 0.7:
            s = s[:maxlen]
        return s or 'A'

    # special characters in AN values
    nspec = rnd.choice([0, 1, 2, 4])
    cands = [(k, i) for k in body for i in simple_slots(k, lambda c, v: v != '' and dtype(c)[0] == 'AN')]
    rnd.shuffle(cands)
    for (k, i) in cands[:nspec]:
        mx = dtype(nodes[k].children[i])[2]
        segs[k][1][i] = [special(mx)]
        desc['faults'].append('special')
    # faults
    inserted = []
    for _ in range(rnd.choice([0, 1, 1, 2, 3])):
        kind = rnd.choice(['bad_code', 'too_long', 'missing_required', 'unknown_segment', 'too_many', 'trailer', 'trailing_empty',
                           'sub_elements', 'composite_multi', 'composite_multi', 'multi_in_segment'])
        if kind == 'bad_code':
            c2 = [(k, i) for k in body for i in simple_slots(k, lambda c, v: v != '' and bool(c.valid_codes))]
            if c2:
                k, i = rnd.choice(c2)
                segs[k][1][i] = [clean(rnd.choice(['ZZ', special(3), 'Z<']), delims) or 'ZZ']
        elif kind == 'too_long':
            c2 = [(k, i) for k in body for i in simple_slots(k, lambda c, v: v != '')]
            if c2:
                k, i = rnd.choice(c2)
                segs[k][1][i] = [clean(segs[k][1][i][0] + rnd.choice(['X' * 90, '<b>' * 30, ' & ' * 30, 'x<y>z' * 20]), delims)]
        elif kind == 'missing_required':
            c2 = [(k, i) for k in body for i in simple_slots(k, lambda c, v: v != '' and c.usage == 'R')]
            if c2:
                k, i = rnd.choice(c2)
                segs[k][1][i] = ['']
        elif kind == 'unknown_segment':
            st = [k for k, s in enumerate(segs) if s[0] == 'ST']
            sepos = [k for k, s in enumerate(segs) if s[0] == 'SE']
            if st and sepos:
                at = rnd.randint(st[0] + 1, sepos[-1] + (1 if rnd.random() < 0.15 else 0))
                sid = clean(rnd.choice(SEG_IDS), delims) or 'ZZZ'
                new = [sid, [] if rnd.random() < 0.15 else [[special()] for _ in range(rnd.randint(1, 3))]]
                segs.insert(at, new)
                nodes.insert(at, None)
                body = [k for k in range(1, len(segs))]
        elif kind == 'too_many':
            k = rnd.choice(body)
            if nodes[k] is not None:
                while len(segs[k][1]) < len(nodes[k].children):
                    segs[k][1].append([''])
                for _ in range(rnd.randint(1, 3)):
                    segs[k][1].append([special()])
        elif kind == 'trailer':
            c2 = [k for k in body if segs[k][0] in ('SE', 'GE', 'IEA')]
            if c2:
                k = rnd.choice(c2)
                which = rnd.choice([0, 0, 1])
                if which < len(segs[k][1]):
                    numeric = segs[k][0] == 'GE' and which == 0       # int(GE01) is D7 (a crash, C07)
                    segs[k][1][which] = [rnd.choice(['9', '99', '0002'] if numeric else ['9', '99', 'X', special(4), '0002'])]
        elif kind == 'trailing_empty':
            k = rnd.choice(body)
            segs[k][1].extend([['']] * rnd.randint(1, 2))
        elif kind == 'sub_elements':
            c2 = [(k, i) for k in body for i in simple_slots(k, lambda c, v: v != '')]
            if c2:
                k, i = rnd.choice(c2)
                segs[k][1][i] = [segs[k][1][i][0], special(), '']
        elif kind == 'composite_multi':
            # errors in two or more DIFFERENT components of one composite element
            c2 = []
            for k in body:
                node = nodes[k]
                for i, c in enumerate(getattr(node, 'children', [])):
                    if c.is_composite() and i < len(segs[k][1]) and len(c.children) >= 2 and any(v != '' for v in segs[k][1][i]):
                        c2.append((k, i, len(c.children)))
            if c2:
                k, i, n = rnd.choice(c2)
                comp = list(segs[k][1][i]) + [''] * (n - len(segs[k][1][i]))
                for j in rnd.sample(range(n), rnd.randint(2, min(3, n))):
                    comp[j] = clean((comp[j] or 'A') + rnd.choice(['X' * 90, '<b>' * 30]), delims)
                segs[k][1][i] = comp
        elif kind == 'multi_in_segment':
            ks = [k for k in body if len(simple_slots(k, lambda c, v: v != '')) >= 2]
            if ks:
                k = rnd.choice(ks)
                for i in rnd.sample(simple_slots(k, lambda c, v: v != ''), 2):
                    segs[k][1][i] = [clean(segs[k][1][i][0] + 'X' * 90, delims)]
        desc['faults'].append(kind)
    # a second interchange (the same document once more) now and then
    lines = []
    for sid, elems in segs:
        if sid == 'ISA':
            lines.append(sid + el + el.join(e[0] for e in elems))
        else:
            lines.append(sid + (el + el.join(su.join(e) for e in elems) if elems else ''))
    if len(lines[0]) != 105:
        return None
    eol = '' if se == '\n' else rnd.choice(['\n', '\n', '', '\r\n'])
    if rnd.random() < 0.05:
        lines = lines + lines
        desc['faults'].append('second_interchange')
    text = ''.join(l + se + eol for l in lines)
    return {'text': text, 'desc': desc}


# ------------------------------------------------------------------------------------ one case

def do_case(args):
    cid, seed = args
    out = {'cid': cid, 'status': 'ok', 'viol': [], 'ops': [], 'desc': None, 'stats': {}, 'iter': None}
    try:
        case = build_case(cid, seed)
    except common.Infra:
        raise
    except Exception as e:
        out['status'] = 'generator:%s' % type(e).__name__
        return out
    if case is None:
        out['status'] = 'generator:none'
        return out
    out['desc'] = case['desc']
    out['text'] = case['text']
    real = run_real(case['text'])
    if real['status'] != 'ok':
        again = run_real(case['text'], with_html=False)
        out['status'] = ('sink-crash:' if again['status'] == 'ok' else 'validation-crash:') + real['exc']
        return out
    viol, info = oracle(case['text'], real)
    out['viol'] = viol
    out['ops'] = info.pop('model_ops')
    out['iter'] = info.pop('iter', None)
    out['stats'] = info
    return out


def check_escape_direct(res, rnd, built):
    """escape_html_chars (the anchored helper) vs the model, and decode(escape(s)) = s; skipped if the helper is gone"""
    try:
        import pyx12.error_html
        f = pyx12.error_html.escape_html_chars
    except (ImportError, AttributeError):
        res.notes['escape_direct'] = 'helper not found: skipped'
        return
    alpha = '<>& &;ampltgnbsp"\'a \n#x'
    cases = list(SPECIALS) + ['', ' ', '&amp;', '&&', '<>'] + \
        [''.join(rnd.choice(alpha) for _ in range(rnd.randint(0, 12))) for _ in range(3000)]
    outs = [f(c) for c in cases]
    for c, o in zip(cases, outs):
        res.count()
        if '<' in o or '>' in o or bare_specials(o) or decode(o) != c:
            res.violation('pred:escape-helper', 'escape_html_chars(%r) -> %r' % (c, o),
                          {'call': 'pyx12.error_html.escape_html_chars', 'args': [c], 'observed': o})
    if built:
        m1 = common.run_model([common.line('H19E', c) for c in cases])
        m2 = common.run_model([common.line('H19U', o) for o in outs])
        for c, o, a, b in zip(cases, outs, m1, m2):
            if common.unesc(a) != o:
                res.broke('correspondence:Html.escape', 'escape(%r): impl %r model %r' % (c, o, common.unesc(a)))
                break
            if common.unesc(b) != decode(o):
                res.broke('correspondence:Html.unescape', 'unescape(%r): harness %r model %r' % (o, decode(o), common.unesc(b)))
                break
    res.notes['escape_direct'] = len(cases)


def audit_extra(res, name):
    """the theorems of Props/<name>.lean (Audit/<name>.lean) as obligations of this check"""
    axioms, missing, (rc, tail) = common.lean_audit(name)
    for thm, ax in sorted(axioms.items()):
        res.obligations.append(thm)
        if set(ax) <= common.STD_AXIOMS:
            res.discharged.append(thm)
        else:
            res.broke('axioms:' + thm, 'depends on ' + ', '.join(ax))
    for m in missing:
        res.obligations.append(m)
        res.broke('theorem:' + m, 'not found by the audit: ' + tail[-500:])
    if rc != 0 and not missing:
        res.broke('audit:' + name, tail[-500:])


def compare_cursor(res, outs):
    """the report read from the real HTML vs. the cursor model run over the captured call sequence (driver op I19R)"""
    stat = {'documents': 0, 'skipped_report_not_intact': 0, 'lines': 0, 'messages': 0, 'nodes_handed_over': 0,
            'segments_with_nodes': 0, 'footer_messages': 0, 'documents_with_a_known_finding': 0, 'disagreements': 0}
    todo = []
    for o in outs:
        if o['status'] != 'ok' or not o.get('iter'):
            continue
        if o['iter'][1] is None:
            stat['skipped_report_not_intact'] += 1
            continue
        todo.append(o)
    # unterminated loops (the messages of error_html.footer): every 6th document once more without its last 1-3 segments;
    # only the cursor model is compared on these (the oracle's classes are about complete documents)
    stat['truncated_documents'] = 0
    for o in [x for x in outs if x['status'] == 'ok' and x.get('iter')][::6]:
        se, el, su, raws = split_source(o['text'])
        cut = 1 + (o['cid'] // 6) % 3
        if len(raws) <= cut + 1:
            continue
        pieces = o['text'].split(se)
        text = se.join(pieces[:len(pieces) - 1 - cut]) + se
        real = run_real(text)
        if real['status'] != 'ok':
            continue
        toks = report_tokens(*parse_report(real['html']))
        if toks is None:
            continue
        stat['truncated_documents'] += 1
        todo.append({'cid': o['cid'], 'desc': dict(o['desc'], faults=o['desc']['faults'] + ['cut_last_%d' % cut]), 'viol': [],
                     'iter': (common.line('I19R', *real['fields']), toks)})
    answers = common.run_model([o['iter'][0] for o in todo])
    for o, ans in zip(todo, answers):
        stat['documents'] += 1
        real = o['iter'][1]
        parts = ans.split('\t')
        if parts[0] != 'ok' or parts.count('|') != 2:
            stat['disagreements'] += 1
            res.broke('correspondence:ErrIter.run', 'case %d (%s): x12n_document completed, the model answers %r' %
                      (o['cid'], o['desc']['map'], ans[:200]))
            continue
        a = parts.index('|')
        b = parts.index('|', a + 1)
        body, foot, counts = parts[1:a], parts[a + 1:b], [int(x[1:]) for x in parts[b + 1:]]
        model = body + foot
        stat['lines'] += len(real)
        stat['messages'] += len([x for x in real if x != '#'])
        stat['footer_messages'] += len(foot)
        stat['nodes_handed_over'] += sum(counts)
        stat['segments_with_nodes'] += len([c for c in counts if c])
        if any(k.startswith('pred:error-not-next-to-its-segment:') for k, _ in o['viol']):
            stat['documents_with_a_known_finding'] += 1
        if model != real:
            stat['disagreements'] += 1
            at = next((n for n, (x, y) in enumerate(zip(model, real)) if x != y), min(len(model), len(real)))
            nseg = real[:at].count('#')
            res.broke('correspondence:ErrIter.report',
                      'case %d (%s, faults %s): first difference after segment line %d: report shows %r, model %r' %
                      (o['cid'], o['desc']['map'], o['desc']['faults'], nseg, real[at:at + 4], model[at:at + 4]))
    return stat


def run(tier):
    res = common.Result('C19', tier)
    res.cov['rule'] = ('a case is one generated document (map, seeded values, 0-3 faults, special characters, delimiters); distinct by '
                       'text; non-trivial = at least one error shown or a special character / exotic delimiter present')
    built = common.proof_stage(res, 'C19')
    if built:
        audit_extra(res, 'C19Iter')
    seed = common.seed()
    n = 10000 if tier == 'thorough' else 300
    todo = [(cid, seed) for cid in range(n)]
    if tier == 'thorough':
        import multiprocessing
        with multiprocessing.get_context('fork').Pool(min(16, os.cpu_count() or 2)) as pool:
            outs = pool.map(do_case, todo, chunksize=20)
    else:
        outs = [do_case(a) for a in todo]
    status = {}
    faults = {}
    delims = {}
    maps = set()
    tot = {'nseg': 0, 'nerr': 0, 'swallowed': 0, 'extra_msgs': 0, 'elementless': 0, 'wraps': 0, 'root_cause_only': 0}
    ops = []
    for o in outs:
        st = o['status'].split(':')[0] if o['status'].startswith('generator') else o['status']
        status[st] = status.get(st, 0) + 1
        if o['status'] != 'ok':
            continue
        res.count()
        d = o['desc']
        maps.add(d['map'])
        for f in d['faults']:
            faults[f] = faults.get(f, 0) + 1
        delims[d['delims']] = delims.get(d['delims'], 0) + 1
        for k2 in tot:
            tot[k2] += o['stats'].get(k2, 0)
        res.distinct(o['text'], nontrivial=(o['stats']['nerr'] > 0 or d['delims'] != '~*:' or 'special' in d['faults']))
        res.sample({'map': d['map'], 'delims': d['delims'], 'faults': d['faults'], 'segments': o['stats']['nseg'],
                    'errors_in_tree': o['stats']['nerr'], 'violations': [v[0] for v in o['viol']]})
        for key, what in o['viol']:
            res.violation(key, what, {'call': 'pyx12.x12n_document.x12n_document(params(), StringIO(text), None, StringIO(), None)',
                                      'text': o['text'], 'case': d, 'key': key})
        for op in o['ops']:
            ops.append((op, o))
    # correspondence with the model
    ncmp = 0
    if built:
        real_ops = [(op, o) for op, o in ops if op[0] is not None]
        answers = common.run_model([op[0] for op, _ in real_ops])
        for (op, o), ans in zip(real_ops, answers):
            ncmp += 1
            if common.unesc(ans) != op[1]:
                if not o['viol']:
                    res.broke('correspondence:Html.' + op[2].split(' ')[0],
                              '%s of case %d (%s): impl %r model %r' % (op[2], o['cid'], o['desc']['map'], op[1][:200], common.unesc(ans)[:200]))
        for op, o in ops:
            if op[0] is None and not o['viol']:
                res.broke('correspondence:Html.marks', 'case %d: %s' % (o['cid'], op[2]))
        res.notes['cursor_model'] = compare_cursor(res, outs)
    check_escape_direct(res, random.Random(seed * 31 + 19), built)
    res.notes['input_distribution'] = {'status': status, 'faults': faults, 'delimiters': delims, 'maps': len(maps)}
    res.notes['totals'] = tot
    res.notes['model_comparisons'] = ncmp
    res.notes['disagreements_checked'] = ncmp
    res.notes['skipped_out_of_scope'] = {k2: v for k2, v in status.items() if k2 != 'ok'}
    res.assumptions = [
        'scope: runs in which x12n_document returns; crashes (with or without the HTML sink) are counted and left to C07',
        'an error belongs to the segment being processed when the error handler was called (callback counter); only errors that '
        'reached the error tree are required in the report',
        'a segment without elements is shown with one element separator (the canonical form of Segment.format); accepted',
        'error codes are pyx12 literals (alphanumeric); loop information lines come from the map, not from the input',
    ]
    if built:
        # sinks end to end: the XML (byte for byte) and HTML of the real x12n_document against Model/DocSinks.lean
        from . import doc as docmod, docsinks
        docsinks.attach(res, [t for _, t in docmod.small_corpus(common.seed() * 3 + 19, 60 if tier == 'thorough' else 24)], 'c19-sample')
    return res.finish(trusted=common.TRUSTED_COMMON + [
        'modelled: escape_html_chars, error_html.gen_seg/_seg_str/seg_str/_wrap_ele_error/gen_info, header/footer frame, the per-segment '
        'loop of x12n_document (fd_html branch), err_iter + the drain loop + get_error_list + the message order of gen_seg/footer '
        '(Model/ErrIter.lean over the tree of Model/ErrTree.lean, compared on every document through the captured err_handler '
        'call sequence)',
        'own HTML tokenizer and own source splitter in harness/c19.py'])


def replay(d):
    r = d['replay']
    real = run_real(r['text'])
    if real['status'] != 'ok':
        print('x12n_document raised %s (out of scope of C19)' % real['exc'])
        return 0
    viol, info = oracle(r['text'], real)
    for key, what in viol:
        print('%s: %s' % (key, what))
    keys = set(k for k, _ in viol)
    print('replayed key %s: %s' % (r.get('key'), 'still fails' if r.get('key') in keys else 'no longer fails'))
    return 1 if r.get('key') in keys else 0
