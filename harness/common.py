"""
Shared machinery of the /verif checks: Lean build + axiom audit, driver I/O (line protocol),
known-findings matching, replay files, evidence files, reporting.

Every check is run as   ./check <Cxx> <quick|thorough>   (cwd /verif) and
 * rebuilds the Lean library and the model driver (no-op when unchanged),
 * audits the property's theorems (`#print axioms`, forbidden-token grep),
 * runs the property's correspondence (real pyx12 from /repo's working tree vs the Lean model) and
   the property's oracle on the real code,
 * prints VIOLATION / KNOWN-FINDING lines, writes evidence/<id>.json, exits 0 / 1 (2 = infrastructure).
"""
import fcntl
import hashlib
import json
import os
import re
import subprocess
import sys
import time

VERIF = os.path.dirname(os.path.dirname(os.path.abspath(__file__)))
LEAN = os.environ.get('VERIF_LEAN', os.path.join(VERIF, 'lean'))
WORK = os.path.join(VERIF, 'work')
REPO = os.environ.get('VERIF_REPO', '/repo')
EXE = os.path.join(LEAN, '.lake', 'build', 'bin', 'pyx12model')
STD_AXIOMS = {'propext', 'Classical.choice', 'Quot.sound'}
FORBIDDEN = re.compile(r'\b(sorry|admit|native_decide|bv_decide|implemented_by)\b|^\s*axiom\s|^\s*unsafe\s|maxHeartbeats\s+0')

os.makedirs(WORK, exist_ok=True)


class Infra(Exception):
    """infrastructure failure: exit 2, never a violation"""


def seed():
    try:
        return int(os.environ.get('VERIF_SEED', '0'))
    except ValueError:
        return 0


# --------------------------------------------------------------------------- Lean side

def _lock():
    os.makedirs(os.path.join(LEAN, '.lake'), exist_ok=True)
    f = open(os.path.join(LEAN, '.lake', 'verif.lock'), 'w')
    fcntl.flock(f, fcntl.LOCK_EX)
    return f


def lean_build(targets=('Pyx12Verif', 'pyx12model')):
    """lake build; returns (ok, log).  Serialised by a file lock."""
    lk = _lock()
    try:
        p = subprocess.run(['lake', 'build'] + list(targets), cwd=LEAN, stdout=subprocess.PIPE,
                           stderr=subprocess.STDOUT, text=True, timeout=3000)
        return p.returncode == 0, p.stdout
    finally:
        lk.close()


def strip_comments(text):
    text = re.sub(r'/-.*?-/', '', text, flags=re.S)
    return re.sub(r'--.*', '', text)


def grep_forbidden(files):
    hits = []
    for f in files:
        path = os.path.join(LEAN, f)
        if not os.path.exists(path):
            continue
        for i, line in enumerate(strip_comments(open(path).read()).split('\n')):
            if FORBIDDEN.search(line):
                hits.append('%s: %s' % (f, line.strip()))
    return hits


def lean_audit(pid, path=None):
    """Run Audit/<pid>.lean (a list of `#print axioms`); returns {theorem: [axioms]}."""
    path = path or os.path.join('Audit', pid + '.lean')
    lk = _lock()
    try:
        p = subprocess.run(['lake', 'env', 'lean', path], cwd=LEAN, stdout=subprocess.PIPE,
                           stderr=subprocess.STDOUT, text=True, timeout=3000)
    finally:
        lk.close()
    out = p.stdout.replace('\n  ', ' ')
    res = {}
    for m in re.finditer(r"'([^']+)' depends on axioms: \[([^\]]*)\]", out):
        res[m.group(1)] = [a.strip() for a in m.group(2).split(',') if a.strip()]
    for m in re.finditer(r"'([^']+)' does not depend on any axioms", out):
        res[m.group(1)] = []
    wanted = re.findall(r'#print axioms\s+(\S+)', open(os.path.join(LEAN, path)).read())
    missing = [w for w in wanted if not any(k == w or k.endswith('.' + w) for k in res)]
    return res, missing, (p.returncode, p.stdout[-3000:])


def lean_files_of(pid):
    """Lean source files whose text is grepped for forbidden tokens (all of them: cheap)."""
    out = []
    for root, _, files in os.walk(os.path.join(LEAN, 'Pyx12Verif')):
        for f in files:
            if f.endswith('.lean'):
                out.append(os.path.relpath(os.path.join(root, f), LEAN))
    return sorted(out)


# --------------------------------------------------------------------------- line protocol

def esc(s):
    out = []
    for ch in s:
        o = ord(ch)
        if ch == '\\':
            out.append('\\\\')
        elif ch == '\t':
            out.append('\\t')
        elif ch == '\n':
            out.append('\\n')
        elif ch == '\r':
            out.append('\\r')
        elif o < 32 or o > 126:
            out.append('\\u%x;' % o)
        else:
            out.append(ch)
    return ''.join(out)


def unesc(s):
    out = []
    i = 0
    n = len(s)
    while i < n:
        c = s[i]
        if c == '\\' and i + 1 < n:
            d = s[i + 1]
            if d == 't':
                out.append('\t'); i += 2
            elif d == 'n':
                out.append('\n'); i += 2
            elif d == 'r':
                out.append('\r'); i += 2
            elif d == '\\':
                out.append('\\'); i += 2
            elif d == 'u':
                j = s.index(';', i)
                out.append(chr(int(s[i + 2:j], 16))); i = j + 1
            else:
                out.append(c); i += 1
        else:
            out.append(c); i += 1
    return ''.join(out)


def line(*fields):
    return '\t'.join(esc(f) if isinstance(f, str) else str(int(f)) for f in fields)


def run_model(lines, chunk=400000):
    """Feed protocol lines to the compiled Lean driver, return one output line per input line."""
    if not os.path.exists(EXE):
        raise Infra('model driver not built: ' + EXE)
    out = []
    for i in range(0, len(lines), chunk):
        part = lines[i:i + chunk]
        p = subprocess.run([EXE], input='\n'.join(part) + '\n', stdout=subprocess.PIPE,
                           stderr=subprocess.PIPE, text=True, encoding='utf-8', timeout=3000)
        if p.returncode != 0:
            raise Infra('model driver failed: ' + p.stderr[-2000:])
        res = p.stdout.split('\n')
        if res and res[-1] == '':
            res.pop()
        if len(res) != len(part):
            raise Infra('model driver returned %d lines for %d ops' % (len(res), len(part)))
        out.extend(res)
    return out


# --------------------------------------------------------------------------- findings

class Finding:
    def __init__(self, prop, key, desc, fixed=False, commit=None):
        self.prop, self.key, self.desc, self.fixed, self.commit = prop, key, desc, fixed, commit


def load_known():
    res = []
    path = os.path.join(VERIF, 'known_findings.txt')
    if not os.path.exists(path):
        return res
    for ln in open(path):
        ln = ln.strip()
        if not ln or ln.startswith('#'):
            continue
        m = re.match(r'finding:\s+property=(\S+)\s+key=(\S+)\s*(.*)', ln)
        if m:
            res.append(Finding(m.group(1), m.group(2), m.group(3)))
    return res


# --------------------------------------------------------------------------- result object

class Result:
    """Collects what one check run did; `finish()` prints the lines, writes evidence, returns rc."""

    def __init__(self, pid, tier):
        self.pid, self.tier = pid, tier
        self.t0 = time.time()
        self.violations = []      # (key, what, replay dict)
        self.broken = []          # (name of theorem/correspondence, detail)
        self.cov = {'evaluations': 0, 'distinct_nontrivial': 0, 'samples': [], 'rule': ''}
        self.obligations = []     # theorem names
        self.discharged = []
        self.assumptions = []
        self.notes = {}
        self._seen = set()

    # coverage accounting
    def count(self, n=1):
        self.cov['evaluations'] += n

    def distinct(self, case, nontrivial=True):
        if not nontrivial:
            return
        h = hashlib.blake2b(repr(case).encode('utf-8', 'surrogatepass'), digest_size=8).digest()
        if h not in self._seen:
            self._seen.add(h)

    def sample(self, case, limit=5):
        if len(self.cov['samples']) < limit:
            self.cov['samples'].append(case)

    def violation(self, key, what, replay):
        self.violations.append((key, what, replay))

    def broke(self, name, detail):
        self.broken.append((name, detail))

    def write_replay(self, key, what, replay, suffix=''):
        d = os.path.join(VERIF, 'replays', self.pid)
        os.makedirs(d, exist_ok=True)
        body = {'property': self.pid, 'key': key, 'what': what, 'replay': replay}
        txt = json.dumps(body, indent=1, sort_keys=True, default=repr)
        h = hashlib.sha1((key + txt).encode('utf-8', 'surrogatepass')).hexdigest()[:12]
        path = os.path.join(d, h + suffix + '.json')
        with open(path, 'w') as f:
            f.write(txt + '\n')
        return os.path.relpath(path, VERIF)

    def finish(self, level='proof', checker_cmd=None, trusted=None):
        known = [k for k in load_known() if k.prop == self.pid]
        rc = 0
        lines = []
        seen_known = {}
        new = {}
        for key, what, replay in self.violations:
            k = next((f for f in known if f.key == key), None)
            if k is not None:
                seen_known.setdefault(key, (k, 0, what))
                kk, n, w = seen_known[key]
                seen_known[key] = (kk, n + 1, w)
            else:
                new.setdefault(key, []).append((what, replay))
        for key, (k, n, what) in sorted(seen_known.items()):
            lines.append('KNOWN-FINDING: property=%s key=%s %s (%d case(s) this run, e.g. %s)' %
                         (self.pid, key, k.desc, n, what))
        for key, items in sorted(new.items()):
            what, replay = items[0]
            replay = dict(replay)
            replay['cases_with_this_key'] = len(items)
            path = self.write_replay(key, what, replay)
            lines.append('VIOLATION property=%s replay=%s' % (self.pid, path))
            lines.append('  # %s: %s' % (key, what))
            rc = 1
        if self.broken and rc == 0:
            # a proof obligation or a correspondence no longer checks and no failing input was found
            names = [b[0] for b in self.broken]
            path = self.write_replay('broken:' + ','.join(names)[:80],
                                     'proof obligation or correspondence no longer checks',
                                     {'broken': [{'name': n, 'detail': d} for n, d in self.broken]},
                                     suffix='-nofail')
            lines.append('VIOLATION property=%s replay=%s no-failing-input-found' % (self.pid, path))
            rc = 1
        self.cov['distinct_nontrivial'] = len(self._seen)
        self.cov['obligations'] = len(self.obligations)
        self.cov['discharged'] = len(self.discharged)
        self.cov['obligation_names'] = self.obligations
        self.cov['undischarged'] = [o for o in self.obligations if o not in self.discharged]
        self.cov['checker_cmd'] = checker_cmd or ('cd lean && lake build && lake env lean Audit/%s.lean' % self.pid)
        self.cov['trusted_base'] = trusted or []
        self.cov.update(self.notes)
        ev = {
            'property_id': self.pid, 'tier': self.tier, 'seed': seed(), 'level': level,
            'coverage': self.cov, 'assumptions': self.assumptions,
            'wall_s': round(time.time() - self.t0, 2),
            'violations': len([l for l in lines if l.startswith('VIOLATION')]),
            'known_findings_seen': sorted(seen_known),
            'broken': [b[0] for b in self.broken],
        }
        os.makedirs(os.path.join(VERIF, 'evidence'), exist_ok=True)
        with open(os.path.join(VERIF, 'evidence', self.pid + '.json'), 'w') as f:
            json.dump(ev, f, indent=1, default=repr)
            f.write('\n')
        for l in lines:
            print(l)
        print('%s %s: %d evaluations, %d distinct non-trivial, %d/%d obligations, %d violation line(s), %.1fs' %
              (self.pid, self.tier, self.cov['evaluations'], len(self._seen), len(self.discharged),
               len(self.obligations), ev['violations'], ev['wall_s']))
        return rc


TRUSTED_COMMON = [
    'Lean 4.33.0 kernel; axioms used by the audited theorems are a subset of {propext, Classical.choice, Quot.sound}',
    'no native_decide / bv_decide / sorry / own axioms (grep + #print axioms on every run)',
    'hand-written Lean model of the anchored Python functions; tied to /repo by the correspondence run in this check',
    'Lean compiler (model driver executable) and the Python harness / generators',
]


def proof_stage(res, pid, targets=('Pyx12Verif', 'pyx12model'), audit_path=None):
    """Build + audit.  Records obligations; anything that fails goes to res.broken."""
    ok, log = lean_build(targets)
    if not ok:
        errs = [l for l in log.split('\n') if 'error' in l][:20]
        res.broke('lake build', '\n'.join(errs))
        # without a driver there is no correspondence; the caller continues with the oracle on the real code
        return False
    hits = grep_forbidden(lean_files_of(pid))
    if hits:
        res.broke('forbidden-token', '; '.join(hits[:10]))
    axioms, missing, (rc, tail) = lean_audit(pid, audit_path)
    for thm, ax in sorted(axioms.items()):
        res.obligations.append(thm)
        if set(ax) <= STD_AXIOMS:
            res.discharged.append(thm)
        else:
            res.broke('axioms:' + thm, 'depends on ' + ', '.join(ax))
    for m in missing:
        res.obligations.append(m)
        res.broke('theorem:' + m, 'not found by the audit: ' + tail[-500:])
    if rc != 0 and not missing:
        res.broke('audit', tail[-500:])
    return True
