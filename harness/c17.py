"""
C17 - reference-designator and path addressing is consistent.

Theorems (lean/Pyx12Verif/Props/C17.lean) are about the Lean models of pyx12.path.X12Path (parser written out
as the backtracking regex search, printer) and of pyx12.segment.Segment.get_value / set.  This harness ties
the models to the real code and evaluates the property's own oracle on the real code:

 (a) enumeration of the documented path grammar: the text is *generated from its parts*, so the expected
     parse is known without consulting either the code or the model;
 (b) the printed path of every loop / segment / element / composite / sub-element node of every loadable
     map (node.get_path()); the expected parts come from the node's kind and attributes;
 (c) random set / get histories (<= 30 operations) on real Segment objects, observed only through the public
     API (len, ele_len, get_value, get_seg_id, format), against the model and against the get/set laws.

Domain restrictions of the get/set laws (stated in the theorems too): a value written to a *whole element*
is free of the component separator (it would be split into sub-elements and trailing empties are trimmed on
reading), resp. of the element separator for ISA16; `ISA16-n` (n >= 2) is reported under its own rule key.
"""
import itertools
import os
import random

from . import common

# ------------------------------------------------------------------------------------------ (a) path grammar

# loop ids; flag = "read alone, this id is itself a designator" (hand-annotated, not computed)
LOOPS_A = [('2000A', False), ('ISA_LOOP', False), ('HEADER', False), ('AK2', True), ('A', False), ('x', False),
           ('2300', False), ('N1', True), ('loop', False), ('2', False)]
LOOPS_B = [('DETAIL', False), ('AK3', True), ('2010AA', False), ('Z', False), ('ab1', False)]
LOOPS_EXTRA = [('ST_LOOP', False), ('GS_LOOP', False), ('TABLE2AREA2', False), ('1000B', False), ('FOOTER', False),
               ('02', True), ('N102', True), ('AB', True), ('A1B', True), ('NM1[IL]', True), ('A-1', False),
               ('AK', True), ('2110C', False), ('ak2', False), ('N1_', False), ('ISA', True), ('TST', True)]
SEGS = [None, 'N1', 'NM1', 'ST', 'AK2', 'A1', 'Z99', 'AB', 'B2B', 'N10', 'ISA', 'HL', 'A00']
QUALS = [None, 'X', '1', 'EV', '1K', 'ABC123', '0']
ELES = [None, 1, 2, 3, 5, 9, 10, 11, 12, 16, 19, 20, 21, 55, 90, 98, 99]
COMPS = [None, 1, 2, 9, 10, 12, 100]
REF_SMALL = [(None, None, None, None), ('N1', None, None, None), ('NM1', None, None, None), ('N1', None, 1, None),
             ('N1', None, 1, 1), ('NM1', 'IL', 9, None), ('REF', 'EV', 2, 12), ('AK2', None, None, None),
             ('ST', None, 10, None), ('N10', None, 11, None), ('AB', None, 12, 3), ('A1', '0', None, None),
             (None, None, 2, None), (None, None, 2, 1), (None, 'X', None, None), (None, 'X', 1, None),
             (None, None, 99, 100), ('Z99', 'ABC123', 99, 100), ('HL', None, None, 2), (None, None, None, 3),
             ('ISA', None, 16, None), ('B2B', '1K', 20, 2), ('N1', 'X', None, None), ('N1', 'X', None, 1)]


def refdes_text(seg, qual, ele, comp):
    s = ''
    if seg is not None:
        s += seg
    if qual is not None:
        s += '[' + qual + ']'
    if ele is not None:
        s += '%02d' % ele
    if comp is not None:
        s += '-%d' % comp
    return s


def path_text(rel, loops, seg, qual, ele, comp):
    rd = refdes_text(seg, qual, ele, comp)
    parts = list(loops) + ([rd] if rd != '' else [])
    return ('' if rel else '/') + '/'.join(parts)


def grammar_want(rel, loops, flags, seg, qual, ele, comp):
    """expected behaviour from the parts alone.  Returns (kind, fields)
       kind: 'ok' in-grammar round trip expected; 'err' path error expected; 'extra' outside the documented
       grammar (component without element): fields known, printing not required to reproduce"""
    if seg is None and qual is not None:
        return 'err', None
    if seg is None and (ele is not None or comp is not None) and len(loops) > 0:
        return 'err', None
    fields = (rel, list(loops), seg, qual, ele, comp)
    if comp is not None and ele is None:
        return 'extra', fields
    return 'ok', fields


def loop_sequences(tier):
    ids = LOOPS_A
    for d in range(0, 4):
        for tup in itertools.product(ids, repeat=d):
            yield tup
    for tup in itertools.product(LOOPS_B + LOOPS_A[:1], repeat=4):
        yield tup
    for tup in itertools.product(LOOPS_B, repeat=2):
        yield tup


def prefixes():
    allids = LOOPS_A + LOOPS_B + LOOPS_EXTRA
    out = [(), (('2000A', False),), (('AK2', True),), (('ISA_LOOP', False), ('GS_LOOP', False), ('ST_LOOP', False)),
           (('A', False), ('x', False)), (('N1', True), ('AK3', True)), (('2', False),)]
    r = random.Random(17)
    for i in range(23):
        out.append(tuple(r.choice(allids) for _ in range(r.choice((1, 2, 3, 4)))))
    for lid in LOOPS_EXTRA:
        out.append((lid,))
    return out


def grammar_cases(tier, rnd):
    """yields (rel, loops(tuple of (id, flag)), seg, qual, ele, comp); quick keeps a seeded ~10 % slice"""
    keep = 1.0 if tier == 'thorough' else 0.1
    pre = prefixes()
    full = list(itertools.product(SEGS, QUALS, ELES, COMPS))
    for rel in (True, False):
        for p in pre:
            for r in full:
                if keep >= 1.0 or rnd.random() < keep:
                    yield (rel, p) + r
        for seq in loop_sequences(tier):
            for r in REF_SMALL:
                if keep >= 1.0 or rnd.random() < keep:
                    yield (rel, seq) + r


# literal expectations for texts outside the generator (DESIGN App. A.1): text -> fields or 'err'
LITERALS = {
    '': (True, [], None, None, None, None), '/': (False, [], None, None, None, None),
    'N102\n': (True, [], 'N1', None, 2, None), 'N1011': (True, [], 'N10', None, 11, None),
    'AB12': (True, [], 'AB', None, 12, None), 'A12': (True, [], 'A12', None, None, None),
    'NM1[il]01': (True, ['NM1[il]01'], None, None, None, None), 'a': (True, ['a'], None, None, None, None),
    'ab': (True, ['ab'], None, None, None, None), 'A': (True, ['A'], None, None, None, None),
    '-2': (True, [], None, None, None, 2), '00': (True, [], None, None, 0, None),
    'N102-01': (True, [], 'N1', None, 2, 1), '[X]': 'err', 'A/[X]01': 'err', 'A/02': 'err', 'A/-1': 'err',
    '/02': (False, [], None, None, 2, None), '/A/B/': (False, ['A', 'B'], None, None, None, None),
    'N1\n\n': (True, ['N1\n\n'], None, None, None, None), 'ABCD01': (True, ['ABCD01'], None, None, None, None),
    'N1[]01': (True, ['N1[]01'], None, None, None, None), 'N1[X': (True, ['N1[X'], None, None, None, None),
    'N1-': (True, ['N1-'], None, None, None, None), 'N1٠١': (True, ['N1٠١'], None, None, None, None),
    '1N01': (True, ['1N01'], None, None, None, None), 'N101-1-1': (True, ['N101-1-1'], None, None, None, None),
}

EXTRA_TEXTS = ['//', '/A//B', 'A/', '\n', 'N1[X]\n', '/A\n/N1', 'N1-0', 'N100', '02-0', 'N1[X]-1', '/-1', '/[X]',
               'N1 01', ' N101', 'N101 ', 'N1\r', 'N101\n\n', '\nN101', 'N1[X][Y]01', 'N1[X]01-1\n', 'N101-007',
               'N101-00', 'n101', 'N1o1', 'NM101-1/', '/N1/01', '/N1/N101', 'A/B/C/D/E/F/G/H01', '/\n', '//N101', '/ /N101',
               'N1[A B]01', 'N1[X]1', 'N1[X]001', 'N1001', 'N10001', 'AAAA', 'AAA', 'AA', 'A0', '0A', 'A000', 'A0000',
               'ISA16', 'ISA16-2', 'N1é', 'É01', 'N1[É]01', 'N1-٣']


def broke(res, name, detail):
    """record a broken correspondence (at most 20 examples per name)"""
    if sum(1 for b in res.broken if b[0] == name) < 20:
        res.broke(name, detail)


def impl_path(text):
    from pyx12.path import X12Path
    from pyx12.errors import X12PathError
    try:
        p = X12Path(text)
    except X12PathError:
        return ('err',), None
    except Exception as e:
        return ('raise:' + type(e).__name__,), None
    try:
        fields = (p.relative, list(p.loop_list), p.seg_id, p.id_val, p.ele_idx, p.subele_idx)
        return ('ok', fields, p.format(), bool(p.empty())), p
    except Exception as e:
        return ('raise:' + type(e).__name__,), None


def parse_model_path(out):
    """decode a P17 answer into the same shape as impl_path()[0]"""
    if out == 'E':
        return ('err',)
    f = out.split('\t')
    if f[0] != 'ok':
        return ('model:' + out,)
    n = int(f[2])
    loops = [common.unesc(x) for x in f[3:3 + n]]
    seg, qual, ele, sub, fmt, emp = f[3 + n:3 + n + 6]

    def opt(s):
        return None if s == '-' else common.unesc(s[1:])

    def optn(s):
        return None if s == '-' else int(s)
    return ('ok', (f[1] == '1', loops, opt(seg), opt(qual), optn(ele), optn(sub)), common.unesc(fmt), emp == '1')


def run_paths(res, tier, built):
    rnd = random.Random(common.seed() * 7919 + 17)
    cases = list(grammar_cases(tier, rnd))
    texts = [path_text(rel, [l for l, _ in loops], seg, q, e, c) for (rel, loops, seg, q, e, c) in cases]
    lit = list(LITERALS) + EXTRA_TEXTS
    model = None
    if built:
        model = common.run_model([common.line('P17', t) for t in texts + lit])
    dist = {'ok': 0, 'err': 0, 'extra': 0, 'loop-id-is-designator': 0}
    eq_lines, eq_meta = [], []
    child_lines, child_meta = [], []
    prev = None
    for i, (case, text) in enumerate(zip(cases, texts)):
        rel, loops, seg, q, e, c = case
        ids = [l for l, _ in loops]
        kind, fields = grammar_want(rel, ids, [f for _, f in loops], seg, q, e, c)
        got, obj = impl_path(text)
        res.count()
        res.distinct(text, nontrivial=(len(ids) > 0 or seg is not None))
        if i % 40009 == 11:
            res.sample({'text': text, 'impl': repr(got), 'model': model[i] if model else None, 'want': [kind, repr(fields)]})
        mod = parse_model_path(model[i]) if model else None
        rep = {'kind': 'path', 'text': text, 'parts': [rel, ids, seg, q, e, c], 'observed': repr(got), 'model': repr(mod)}
        ambiguous = (seg is None and q is None and e is None and c is None and len(loops) > 0 and loops[-1][1])
        ok = True
        if kind == 'err':
            dist['err'] += 1
            if got[0] != 'err':
                ok = False
                key = 'pred:qualifier-without-segment-accepted' if q is not None else 'pred:index-after-loops-accepted'
                res.violation(key, 'X12Path(%r) must raise X12PathError, got %r' % (text, got), dict(rep, required='X12PathError'))
        elif ambiguous:
            # the grammar is ambiguous here: a final loop id that is itself a designator (997: AK2, AK3)
            dist['loop-id-is-designator'] += 1
            if got[0] != 'ok' or got[1] != fields:
                ok = False
                res.violation('pred:loop-id-reads-as-designator',
                              'X12Path(%r): final loop id %r is parsed as a segment designator' % (text, ids[-1]),
                              dict(rep, required=repr(fields)))
        else:
            dist[kind] += 1
            if got[0] != 'ok':
                ok = False
                res.violation('pred:grammar-path-refused:' + got[0],
                              'X12Path(%r) -> %r' % (text, got), dict(rep, required=repr(fields)))
            else:
                if got[1] != fields:
                    ok = False
                    res.violation('pred:parse-parts-differ', 'X12Path(%r) fields %r, the parts are %r' % (text, got[1], fields),
                                  dict(rep, required=repr(fields)))
                if kind == 'ok':
                    if got[2] != text:
                        ok = False
                        res.violation('pred:print-differs', 'X12Path(%r).format() = %r' % (text, got[2]), dict(rep, required=text))
                    again, obj2 = impl_path(got[2])
                    if again[0] != 'ok' or not (obj2 == obj) or (obj2 != obj) or hash(obj2) != hash(obj):
                        ok = False
                        res.violation('pred:reparse-not-equal', 'X12Path(X12Path(%r).format()) is not equal to the original' % text,
                                      dict(rep, required='equal'))
                    want_empty = rel and not ids and seg is None and e is None
                    if got[3] != want_empty:
                        ok = False
                        res.violation('pred:empty-differs', 'X12Path(%r).empty() = %r' % (text, got[3]), dict(rep, required=want_empty))
        if mod is not None and mod != got:
            if ok:
                broke(res, 'correspondence:Path.parse', 'text=%r impl=%r model=%r' % (text, got, mod))
        # equality against the previous accepted in-grammar case
        if obj is not None and kind == 'ok' and not ambiguous:
            if prev is not None and i % 3 == 0:
                ptext, pobj, pfields = prev
                impl_eq = (obj == pobj)
                want_eq = (fields == pfields)
                res.count()
                if impl_eq != want_eq or (obj != pobj) == impl_eq:
                    res.violation('pred:equality', 'X12Path(%r) == X12Path(%r) is %r' % (text, ptext, impl_eq),
                                  {'kind': 'eq', 'a': text, 'b': ptext, 'required': want_eq})
                eq_lines.append(common.line('Q17', text, ptext))
                eq_meta.append((text, ptext, impl_eq))
            prev = (text, obj, fields)
            if i % 11 == 0:
                # `$` also matches before one final newline: textually different, possibly equal paths (model only)
                t2 = text + '\n'
                o2 = impl_path(t2)[1]
                if o2 is not None:
                    res.count()
                    eq_lines.append(common.line('Q17', text, t2))
                    eq_meta.append((text, t2, obj == o2))
            if len(ids) > 0 and i % 7 == 0:
                root = path_text(rel, ids[:-1], None, None, None, None)
                robj = impl_path(root)[1] if root != '' else None
                if robj is not None:
                    a = bool(robj.is_child_path(text))
                    b = bool(obj.is_child_path(root))
                    res.count(2)
                    child_lines.append(common.line('K17', root, text))
                    child_meta.append((root, text, a))
                    child_lines.append(common.line('K17', text, root))
                    child_meta.append((text, root, b))
    # literal expectations and model-only texts
    for j, text in enumerate(lit):
        got, obj = impl_path(text)
        res.count()
        res.distinct(text)
        mod = parse_model_path(model[len(texts) + j]) if model else None
        ok = True
        if text in LITERALS:
            want = LITERALS[text]
            if (want == 'err') != (got[0] == 'err') or (want != 'err' and (got[0] != 'ok' or got[1] != want)):
                ok = False
                res.violation('pred:literal-expectation', 'X12Path(%r) -> %r, expected %r' % (text, got, want),
                              {'kind': 'path', 'text': text, 'observed': repr(got), 'required': repr(want)})
        if mod is not None and ok and mod != got:
            broke(res, 'correspondence:Path.parse', 'text=%r impl=%r model=%r' % (text, got, mod))
    if model is not None:
        out = common.run_model(eq_lines + child_lines)
        for (a, b, impl_eq), m in zip(eq_meta, out[:len(eq_lines)]):
            if m != ('1' if impl_eq else '0'):
                broke(res, 'correspondence:Path.eq', 'a=%r b=%r impl=%r model=%s' % (a, b, impl_eq, m))
        for (a, b, r), m in zip(child_meta, out[len(eq_lines):]):
            if m != ('1' if r else '0'):
                broke(res, 'correspondence:Path.isChildPath', 'root=%r child=%r impl=%r model=%s' % (a, b, r, m))
    res.notes.setdefault('input_distribution', {})['grammar'] = dict(dist, literals=len(lit), equality_pairs=len(eq_lines),
                                                                     child_pairs=len(child_lines))


# ------------------------------------------------------------------------------------------ (b) map node paths

def map_files():
    import pyx12.map_if
    d = os.path.join(os.path.dirname(pyx12.map_if.__file__), 'map')
    return sorted(f for f in os.listdir(d) if f.endswith('.xml') and (f[0].isdigit() or f.startswith('x12.control')))


def map_nodes(m):
    for n in m.loop_segment_iterator():
        if n.is_map_root():
            continue
        yield n
        if n.is_segment():
            for c in n.children:
                yield c
                if c.is_composite():
                    for s in c.children:
                        yield s


def node_want(n, p):
    """expected parts of a node path, from the node's kind and attributes (not from the parser)"""
    comps = p[1:].split('/')
    if n.is_loop():
        return (False, comps, None, None, None, None)
    if n.is_segment():
        last = comps[-1]
        qual = None
        if '[' in last:
            qual = last[last.index('[') + 1:-1]
        return (False, comps[:-1], n.id, qual, None, None)
    if n.is_composite():
        return None
    # element or sub-element
    par = n.parent
    if par.is_composite():
        seg = par.parent
        return (False, comps[:-1], seg.id, None, int(par.seq), int(n.seq))
    return (False, comps[:-1], par.id, None, int(n.seq), None)


def run_maps(res, built):
    import pyx12.map_if
    import pyx12.params
    param = pyx12.params.params()
    seen = {}
    nnodes = 0
    loaded, failed = [], []
    by_rule = {}
    for f in map_files():
        try:
            m = pyx12.map_if.load_map_file(f, param)
        except Exception as e:      # an unloadable map is C16's subject
            failed.append('%s:%s' % (f, type(e).__name__))
            continue
        loaded.append(f)
        for n in map_nodes(m):
            p = n.get_path()
            nnodes += 1
            res.count()
            if not isinstance(p, str) or not p.startswith('/'):
                res.violation('pred:map-path:not-absolute', '%s: node %r prints %r' % (f, n.id, p), {'kind': 'map', 'map': f, 'path': repr(p)})
                continue
            want = node_want(n, p)
            got, obj = impl_path(p)
            seen.setdefault(p, got)
            res.distinct(p)
            rule = None
            if n.is_composite():
                comps = p[1:].split('/')
                if p.endswith('/') and got == ('ok', (False, comps[:-1], None, None, None, None), p[:-1], False):
                    rule = 'composite-trailing-slash'     # printed as '<segment path>/': read as a loop path
                elif got[0] != 'ok' or got[2] != p:
                    rule = 'composite-other'
            elif got[0] != 'ok':
                rule = 'refused'
            elif got[1] != want:
                if n.is_loop() and got[1][2] is not None:
                    rule = 'loop-id-reads-as-designator'
                else:
                    rule = 'parts-differ'
            elif got[2] != p:
                if want[5] is not None and p.endswith('-%02d' % want[5]) and got[2] == p[:p.rindex('-')] + '-%d' % want[5]:
                    rule = 'component-leading-zero'
                else:
                    rule = 'print-differs'
            else:
                again, obj2 = impl_path(got[2])
                if again[0] != 'ok' or not (obj2 == obj):
                    rule = 'reparse-not-equal'
            if rule is not None:
                by_rule[rule] = by_rule.get(rule, 0) + 1
                res.violation('pred:map-path:' + rule, '%s: %s node %r prints %r, X12Path gives %r' %
                              (f, getattr(n, 'base_name', '?'), n.id, p, got),
                              {'kind': 'path', 'map': f, 'text': p, 'observed': repr(got), 'required': repr(want)})
    if not loaded:
        raise common.Infra('no map could be loaded')
    if built:
        texts = sorted(seen)
        out = common.run_model([common.line('P17', t) for t in texts])
        for t, o in zip(texts, out):
            mod = parse_model_path(o)
            got = seen[t]
            if mod != got:
                broke(res, 'correspondence:Path.parse', 'map path=%r impl=%r model=%r' % (t, got, mod))
    res.notes.setdefault('input_distribution', {})['maps'] = {'maps_loaded': len(loaded), 'maps_failed': failed, 'nodes': nnodes,
                                                              'distinct_paths': len(seen), 'by_rule': by_rule}


# ------------------------------------------------------------------------------------------ (c) set/get histories

TERMS = [('~', '*', ':'), ('~', '*', '>'), ('\n', '|', '^'), ('!', '+', '\\'), ('~', '\t', ':')]
SEG_IDS = ['N1', 'NM1', 'ISA', 'REF', 'HL', 'A1', 'ISA', 'CLM', 'ST', 'ISA']
FOREIGN = ['N2', 'ZZ', 'ISA', 'N10', 'AK2', 'NM1', 'IS']
ATOMS = ['', '', 'x', 'abc', '1', 'A B', '00', 'é', 'long value 123', '-', '[', '/', '01']
BAD_DESIG = ['', 'N1', '-2', 'N1-1', 'x', '[A]01', 'A/01', '2', '001', '02-', 'N1[X]02', 'LOOP/%s02', '02\n', '/03', '0', '-0',
             'ISA', '%s', '%s[Q]01', '%s-3', '1-1', '/LOOP/%s03-1', '%s/']


def gen_history(rnd, thorough):
    seg_term, ele_term, sub_term = rnd.choice(TERMS)
    sid = rnd.choice(SEG_IDS)
    if rnd.random() < 0.03:
        sid = None
    clean = [a for a in ATOMS if seg_term not in a and ele_term not in a and sub_term not in a]
    nel = rnd.choice((0, 0, 1, 2, 3, 4, 6, 8, 16)) if sid is not None else 0
    elems = []
    for _ in range(nel):
        if sid != 'ISA' and rnd.random() < 0.3:
            elems.append([rnd.choice(clean) for _ in range(rnd.choice((2, 3, 4)))])
        else:
            elems.append([rnd.choice(clean)])
    if sid is None:
        text = ''
    else:
        text = ele_term.join([sid] + [sub_term.join(e) for e in elems]) + (seg_term if rnd.random() < 0.8 else '')
    ops = []
    cur = nel
    for _ in range(rnd.randint(1, 30)):
        r = rnd.random()
        if r < 0.08:
            d = rnd.choice(BAD_DESIG)
            if '%s' in d:
                d = d % (sid or 'N1')
            e = c = None
        else:
            r2 = rnd.random()
            if r2 < 0.6:
                e = rnd.randint(1, max(1, cur + 2))
            elif r2 < 0.75:
                e = rnd.choice((16, 15, 17)) if sid == 'ISA' else rnd.randint(1, 12)
            elif r2 < 0.8:
                e = 0
            elif r2 < 0.83:
                e = rnd.choice((99, 40, 25))
            else:
                e = rnd.randint(1, 9)
            r3 = rnd.random()
            c = None if r3 < 0.45 else (rnd.randint(1, 4) if r3 < 0.9 else rnd.choice((0, 7, 10, 1)))
            r4 = rnd.random()
            pre = '' if r4 < 0.45 else ((sid or '') if r4 < 0.9 else rnd.choice(FOREIGN))
            d = pre + '%02d' % e + ('' if c is None else '-%d' % c)
        if rnd.random() < 0.45:
            ops.append(('G', d))
        else:
            rv = rnd.random()
            if rv < 0.6:
                v = rnd.choice(ATOMS)
            elif rv < 0.8:
                v = sub_term.join(rnd.choice(ATOMS) for _ in range(rnd.choice((2, 3))))
            elif rv < 0.9:
                v = rnd.choice(ATOMS) + rnd.choice((ele_term, seg_term, sub_term, sub_term * 2)) + rnd.choice(ATOMS)
            else:
                v = ''.join(rnd.choice('ab:*~^>|+\\ \n\t0') for _ in range(rnd.randint(0, 6)))
            ops.append(('S', d, v))
            if e is not None and e > cur and (pre == '' or pre == (sid or '')) and e <= 99:
                cur = e
    return {'terms': [seg_term, ele_term, sub_term], 'id': sid, 'elems': elems, 'text': text, 'ops': ops}


def observe(seg):
    """the whole state through the public API: (id, [(ele_len, [sub values], whole value)])"""
    n = len(seg)
    out = []
    for i in range(1, n + 1):
        if i > 99:
            break
        d = '%02d' % i
        m = seg.ele_len(d)
        subs = [seg.get_value('%s-%d' % (d, j)) for j in range(1, m + 1)]
        out.append((m, subs, seg.get_value(d)))
    sid = seg.get_seg_id()
    return ('' if sid is None else sid, n, out)


def decode_state(f, k):
    """state = id n {term fmt m sub*m}*n ; returns (state in observe() shape, next index)"""
    sid = common.unesc(f[k])
    n = int(f[k + 1])
    k += 2
    out = []
    for _ in range(n):
        fmt = f[k + 1]
        m = int(f[k + 2])
        subs = [common.unesc(x) for x in f[k + 3:k + 3 + m]]
        whole = common.unesc(fmt[1:]) if fmt[:1] == 'V' else fmt
        out.append((m, subs, whole))
        k += 3 + m
    return (sid, n, out), k


def history_line(h):
    fields = ['S17', h['terms'][1], h['terms'][2], h['id'] or '', len(h['elems'])]
    for e in h['elems']:
        fields.append(len(e))
        fields.extend(e)
    for op in h['ops']:
        fields.extend(op)
    return common.line(*fields)


def wf_designator(d, sid):
    """(has_prefix, e, c) when d is [sid] ee [-c] with 1<=e<=99, c>=1 without leading zero; else None"""
    rest = d
    pre = False
    if sid and d.startswith(sid):
        rest = d[len(sid):]
        pre = True
    if len(rest) < 2 or not (rest[0] in '0123456789' and rest[1] in '0123456789'):
        return None
    e = int(rest[:2])
    rest = rest[2:]
    c = None
    if rest != '':
        if rest[0] != '-' or not rest[1:] or any(ch not in '0123456789' for ch in rest[1:]) or rest[1] == '0':
            return None
        c = int(rest[1:])
    if e < 1:
        return None
    return pre, e, c


def foreign_designator(d, sid):
    for f in FOREIGN:
        if f != sid and d.startswith(f) and wf_designator(d[len(f):], None) is not None:
            # the id read by the path grammar is exactly f when what follows is ee[-c]
            return True
    return False


def run_history(h):
    """execute on the real Segment; returns (initial observation, [(outcome, observation)])"""
    from pyx12.segment import Segment
    seg_term, ele_term, sub_term = h['terms']
    seg = Segment(h['text'], seg_term, ele_term, sub_term)
    obs0 = observe(seg)
    steps = []
    for op in h['ops']:
        try:
            if op[0] == 'G':
                v = seg.get_value(op[1])
                out = 'N' if v is None else 'V' + v
            else:
                r = seg.set(op[1], op[2])
                out = 'OK' if r is None else 'ret:' + repr(r)
        except Exception as e:
            out = 'E' + type(e).__name__
        steps.append((out, observe(seg)))
    return obs0, steps


def check_laws(res, h, obs0, steps):
    """the property's own statement, evaluated on the real observations"""
    seg_term, ele_term, sub_term = h['terms']
    sid = h['id'] or ''
    before = obs0
    ok = True
    rep = {'kind': 'history', 'history': h}

    def bad(key, what, i):
        nonlocal ok
        ok = False
        res.violation(key, 'op %d %r on %r: %s' % (i, h['ops'][i], h['text'], what), dict(rep, failing_op=i))
    for i, (op, (out, after)) in enumerate(zip(h['ops'], steps)):
        d = op[1]
        wf = wf_designator(d, sid)
        if wf is None and foreign_designator(d, sid):
            if out != 'EEngineError':
                bad('pred:foreign-segment-not-refused', 'outcome %s' % out, i)
            if after != before:
                bad('pred:refused-designator-changed-segment', 'state changed', i)
        elif wf is not None:
            pre, e, c = wf
            isa16 = (sid == 'ISA' and e == 16)
            if op[0] == 'G':
                if after != before:
                    bad('pred:get-changed-segment', 'state changed', i)
                if e > before[1]:
                    want = 'N'
                elif c is None:
                    want = 'V' + before[2][e - 1][2]
                elif c > before[2][e - 1][0]:
                    want = 'N'
                else:
                    want = 'V' + before[2][e - 1][1][c - 1]
                if out != want:
                    bad('pred:get-result', 'get_value -> %r, the position holds %r' % (out, want), i)
            else:
                v = op[2]
                if out != 'OK':
                    bad('pred:set-raises:' + out, 'set raised', i)
                elif isa16 and c is not None and c >= 2:
                    # ISA16 is always replaced as a whole; the component index is ignored
                    if not (after[1] >= 16 and after[2][15][0] >= c and after[2][15][1][c - 1] == v):
                        bad('pred:isa16-component-designator', 'ISA16-%d written, reading it back gives %r' %
                            (c, after[2][15][1][c - 1] if after[1] >= 16 and after[2][15][0] >= c else None), i)
                else:
                    n0, n1 = before[1], after[1]
                    if n1 != max(n0, e):
                        bad('pred:set-pads', 'length %d -> %d after writing element %d' % (n0, n1, e), i)
                    else:
                        for k in range(n0 + 1, e):
                            if after[2][k - 1] != (1, [''], ''):
                                bad('pred:set-pads', 'new element %d is %r' % (k, after[2][k - 1]), i)
                                break
                        for k in range(1, n0 + 1):
                            if k != e and after[2][k - 1] != before[2][k - 1]:
                                bad('pred:set-frame', 'element %d changed from %r to %r' % (k, before[2][k - 1], after[2][k - 1]), i)
                                break
                        cell = after[2][e - 1]
                        sep = ele_term if isa16 else sub_term
                        if c is None or isa16:
                            if sep not in v:
                                if c is None and (cell[2] != v or cell[0] != 1 or cell[1] != [v]):
                                    bad('pred:get-set', 'element reads %r after writing %r' % (cell, v), i)
                                if c is not None and (cell[0] < c or cell[1][c - 1] != v):
                                    bad('pred:get-set', 'element reads %r after writing %r' % (cell, v), i)
                        else:
                            old = before[2][e - 1] if e <= n0 else (1, [''], '')
                            if cell[0] != max(old[0], c):
                                bad('pred:set-pads', 'element %d has %d components after writing component %d (had %d)' %
                                    (e, cell[0], c, old[0]), i)
                            elif cell[1][c - 1] != v:
                                bad('pred:get-set', 'component reads %r after writing %r' % (cell[1][c - 1], v), i)
                            else:
                                for j in range(1, cell[0] + 1):
                                    if j == c:
                                        continue
                                    wantj = old[1][j - 1] if j <= old[0] else ''
                                    if cell[1][j - 1] != wantj:
                                        bad('pred:set-frame', 'component %d-%d changed to %r' % (e, j, cell[1][j - 1]), i)
                                        break
        elif out[:1] == 'E' and after != before:
            bad('pred:refused-designator-changed-segment', 'state changed by a failing call (%s)' % out, i)
        before = after
    return ok


def run_histories(res, tier, built):
    try:
        from pyx12.segment import Segment      # noqa: F401
    except Exception as e:
        raise common.Infra('pyx12.segment.Segment missing: %r' % e)
    n = 20000 if tier == 'thorough' else 2500
    rnd = random.Random(common.seed() * 104729 + 1717)
    hs = [gen_history(rnd, tier == 'thorough') for _ in range(n)]
    model = common.run_model([history_line(h) for h in hs]) if built else None
    dist = {'histories': n, 'ops': 0, 'sets': 0, 'gets': 0, 'errors': 0, 'isa': 0, 'with_composites': 0, 'wf_ops': 0, 'foreign_ops': 0}
    for hi, h in enumerate(hs):
        obs0, steps = run_history(h)
        res.count(len(h['ops']))
        res.distinct((h['text'], h['ops']), nontrivial=any(op[0] == 'S' for op in h['ops']))
        dist['ops'] += len(h['ops'])
        dist['sets'] += sum(1 for op in h['ops'] if op[0] == 'S')
        dist['gets'] += sum(1 for op in h['ops'] if op[0] == 'G')
        dist['errors'] += sum(1 for s in steps if s[0][:1] == 'E')
        dist['isa'] += h['id'] == 'ISA'
        dist['with_composites'] += any(len(e) > 1 for e in h['elems'])
        dist['wf_ops'] += sum(1 for op in h['ops'] if wf_designator(op[1], h['id'] or '') is not None)
        dist['foreign_ops'] += sum(1 for op in h['ops'] if wf_designator(op[1], h['id'] or '') is None and foreign_designator(op[1], h['id'] or ''))
        if hi % 997 == 3:
            res.sample({'segment': h['text'], 'ops': h['ops'][:4], 'outcomes': [s[0] for s in steps[:4]]})
        ok = check_laws(res, h, obs0, steps)
        if model is not None:
            f = model[hi].split('\t')
            st, k = decode_state(f, 0)
            diff = None
            if st != obs0:
                diff = 'initial state impl=%r model=%r' % (obs0, st)
            else:
                for i, (out, after) in enumerate(steps):
                    mout = f[k]
                    mout = mout[:1] + common.unesc(mout[1:]) if mout[:1] == 'V' else mout
                    st, k = decode_state(f, k + 1)
                    if mout != out or st != after:
                        diff = 'op %d %r: impl=%r %r model=%r %r' % (i, h['ops'][i], out, after, mout, st)
                        break
            if diff is not None and ok:
                broke(res, 'correspondence:Segment.get_value/set', 'segment=%r terms=%r %s' % (h['text'], h['terms'], diff))
    res.notes.setdefault('input_distribution', {})['histories'] = dist


# ------------------------------------------------------------------------------------------ entry points

def run(tier):
    res = common.Result('C17', tier)
    res.cov['rule'] = ('(a) path grammar enumerated from its parts: absolute/relative x loop-id sequences (depth 0-4 over '
                       'representative ids incl. ids that are themselves designators) x segment id x qualifier x element x '
                       'component; distinct by text, non-trivial = has a loop id or a segment id.  (b) every node path of '
                       'every loadable map, distinct by text.  (c) random set/get histories on real Segments (<= 30 ops), '
                       'distinct by (segment text, ops), non-trivial = contains a set')
    built = common.proof_stage(res, 'C17')
    try:
        import pyx12.path          # noqa: F401
        import pyx12.segment       # noqa: F401
    except Exception as e:
        raise common.Infra('cannot import pyx12.path / pyx12.segment: %r' % e)
    run_paths(res, tier, built)
    run_maps(res, built)
    run_histories(res, tier, built)
    res.notes['exhaustive'] = False
    res.notes['exhaustive_subdomains'] = ['thorough: the full product of the listed id / qualifier / index tables',
                                          'all node paths of all loadable maps']
    res.assumptions = [
        'paths and designators are Python str; component index with at most 4300 digits (int() limit)',
        'get/set laws: a value written to a whole element is free of the component separator (element separator for ISA16); '
        'separators are single characters; values are str (not None)',
        'segments are observed through len / ele_len / get_value / get_seg_id only (element counts <= 99)',
    ]
    return res.finish(trusted=common.TRUSTED_COMMON + [
        'modelled: X12Path.__init__ (regex written out as its backtracking search), format, format_refdes, empty, __eq__, '
        'is_child_path; Segment._parse_refdes, get, get_value, set, Composite.__init__/format, Element.format',
        'Python oracle: the path text is generated from its parts; map node kinds/attributes; get/set laws on observations'])


def replay(d):
    r = d['replay']
    kind = r.get('kind')
    if kind == 'path':
        got, _ = impl_path(r['text'])
        print('X12Path(%r) -> %r (required %s)' % (r['text'], got, r.get('required')))
        return 0 if repr(got) != r.get('observed') else 1
    if kind == 'eq':
        from pyx12.path import X12Path
        v = X12Path(r['a']) == X12Path(r['b'])
        print('X12Path(%r) == X12Path(%r) -> %r (required %r)' % (r['a'], r['b'], v, r['required']))
        return 0 if v == r['required'] else 1
    if kind == 'history':
        h = r['history']
        h['ops'] = [tuple(op) for op in h['ops']]
        obs0, steps = run_history(h)
        res = common.Result('C17', 'replay')
        ok = check_laws(res, h, obs0, steps)
        for i, (op, (out, after)) in enumerate(zip(h['ops'], steps)):
            print('%2d %r -> %s' % (i, op, out))
        for key, what, _ in res.violations:
            print('  # %s: %s' % (key, what))
        return 0 if ok else 1
    if 'broken' in r:
        for b in r['broken']:
            print('%s: %s' % (b['name'], b['detail']))
        return 1
    print('unknown replay kind')
    return 2
