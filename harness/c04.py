"""
C04 - envelope, control-number and counter checks are exact.

Theorems (lean/Pyx12Verif/Props/C04.lean): for every structured document (Interchange > Group > Set > body)
the model of X12Reader reports, segment by segment, exactly the errors of a structural recount; a consistent
envelope draws none; the HL stack is the ancestor chain; the guarded reader never crashes.

Tie (this file): random sequences of envelope and body segments are fed
  * to the real pyx12.x12file.X12Reader (working tree of the repo): `pop_errors()` after every segment and after
    `cleanup()`, exceptions classified `crash:<Exc>:<file>:<func>`;
  * to the compiled Lean model (`ENV` op) on the same segment views, with and without the guard fixes;
  * to an independent Python statement of the property: a recursive-descent `parse_nest` (is the sequence the
    flattening of a structured document?) and a structural `recount` over the parsed structure.
impl != oracle -> violation with a rule-like key;  impl == oracle but impl != model -> correspondence broken.
"""
import hashlib
import io
import os
import random
import traceback

from . import common

ENV_IDS = ('ISA', 'IEA', 'GS', 'GE', 'ST', 'SE')
ENVELOPE_CODES = {('isa', '025'), ('isa', '024'), ('isa', '001'), ('isa', '021'), ('isa', '023'),
                  ('gs', '6'), ('gs', '3'), ('gs', '4'), ('gs', '5'),
                  ('st', '23'), ('st', '3'), ('st', '4'), ('st', '2'),
                  ('seg', 'HL1'), ('seg', 'HL2'), ('seg', 'LX')}
BODY_IDS = ('REF', 'NM1', 'BHT', 'DTP', 'SV1', 'N3', 'TST')
ISA_HEAD = ['00', ' ' * 10, '00', ' ' * 10, 'ZZ', 'ZZ000          ', 'ZZ', 'ZZ001          ', '030828', '1128', 'U', '00401']
ISA_TAIL = ['0', 'T', ':']
MAXDIG = 4300

# ------------------------------------------------------------------------------------------ segments
# A segment is (id, [element strings]).  Views (the few elements the reader consults) are computed here, from the
# harness's own element lists, never through pyx12.


def seg_text(seg):
    return '*'.join([seg[0]] + list(seg[1]))


def el(seg, i):
    return seg[1][i] if i < len(seg[1]) else None


def view(seg):
    """(id, cnt, ctl, n16) as in Model/Envelope.lean"""
    sid = seg[0]
    if sid == 'ISA':
        return (sid, None, el(seg, 12), len(seg[1]) == 16)
    if sid == 'GS':
        return (sid, None, el(seg, 5), False)
    if sid == 'ST':
        return (sid, None, el(seg, 1), False)
    if sid in ('IEA', 'GE', 'SE', 'HL'):
        return (sid, el(seg, 0), el(seg, 1), False)
    if sid == 'LX':
        return (sid, el(seg, 0), None, False)
    return (sid, None, None, False)


def opt_field(v):
    return '-' if v is None else '=' + v


def model_line(fixes, chk, segs):
    f = ['ENV', fixes, '1' if chk else '0']
    for s in segs:
        v = view(s)
        f += [v[0], opt_field(v[1]), opt_field(v[2]), '1' if v[3] else '0']
    return common.line(*f)


def fix_trailing(elems, filler='X'):
    """a trailing empty element would be a trailing separator (tokeniser error SEG1): add a filler after it"""
    elems = list(elems)
    if elems and elems[-1] == '':
        elems.append(filler)
    return elems


def mk_isa(ctl, first=False, nelem=16):
    if first:
        ctl = (ctl + '000000000')[:9] if len(ctl) < 9 else ctl[:9]
    e = ISA_HEAD + [ctl] + ISA_TAIL
    if nelem < 16:
        e = e[:nelem]
    elif nelem > 16:
        e = e + ['X'] * (nelem - 16)
    return ('ISA', e)


def mk_gs(ctl):
    e = ['HC', 'S', 'R', '20030828', '1128']
    if ctl is not None:
        e = e + [ctl, 'X', '004010X098']
    return ('GS', e)


def mk_st(ctl):
    return ('ST', ['837'] if ctl is None else fix_trailing(['837', ctl]))


def mk_trailer(sid, cnt, ctl):
    if cnt is None:
        return (sid, [])
    if ctl is None:
        return (sid, [cnt])
    return (sid, fix_trailing([cnt, ctl]))


def mk_hl(n, parent):
    if n is None:
        return ('HL', [])
    if parent is None:
        return ('HL', [n])
    return ('HL', [n, parent, '20', '1'])


def mk_lx(n):
    if n is None:
        return ('LX', [])
    return ('LX', fix_trailing([n]))


# ------------------------------------------------------------------------------------------ real code

def run_impl(segs, chk):
    """-> (per-segment list of [(level, code)], end, state or None, where)   end: 'ok' | 'raised' | 'crash:<Exc>'"""
    try:
        import pyx12.x12file
        import pyx12.errors
        Reader = pyx12.x12file.X12Reader
        X12Error = pyx12.errors.X12Error
    except (ImportError, AttributeError) as e:
        raise common.Infra('entry point missing: %r' % (e,))
    text = ''.join(seg_text(s) + '~' for s in segs)
    rd = Reader(io.StringIO(text))
    if not hasattr(rd, 'pop_errors') or not hasattr(rd, 'cleanup'):
        raise common.Infra('X12Reader.pop_errors / cleanup missing')
    rd.check_837_lx = chk
    out = []
    end = 'ok'
    where = None
    it = iter(rd)
    while True:
        try:
            next(it)
        except StopIteration:
            break
        except X12Error:
            end = 'raised'
            break
        except Exception as e:
            end = 'crash:' + type(e).__name__
            where = crash_key(e)
            break
        out.append(env_errors(rd.pop_errors()))
    if end == 'ok':
        try:
            rd.cleanup()
            out.append(env_errors(rd.pop_errors()))
        except Exception as e:
            end = 'crash:' + type(e).__name__
            where = crash_key(e)
    state = None
    if end == 'ok':
        try:
            state = (list(rd.hl_stack), [rd.gs_count, rd.st_count, rd.seg_count, rd.hl_count, rd.lx_count],
                     [(k, i) for (k, i) in rd.loops])
        except Exception:
            state = None      # attributes renamed: the state comparison is skipped, the error comparison stays
    return out, end, state, where


def env_errors(errs):
    return [(e[0], e[1]) for e in errs if (e[0], e[1]) in ENVELOPE_CODES]


def crash_key(e):
    tb = traceback.extract_tb(e.__traceback__)
    fr = None
    for f in tb:
        if 'pyx12' in f.filename and 'harness' not in f.filename:
            fr = f
    if fr is None:
        fr = tb[-1]
    return 'crash:%s:%s:%s' % (type(e).__name__, os.path.basename(fr.filename), fr.name)


def fmt_errs(lists):
    return '%d:%s' % (len(lists), ';'.join(','.join('%s:%s' % e for e in l) for l in lists))


def impl_string(out, end):
    """same shape as the first two fields of the driver's answer"""
    if end == 'ok':
        return fmt_errs(out[:-1]) + '\tok:' + ','.join('%s:%s' % e for e in out[-1])
    return fmt_errs(out) + '\t' + end


def state_string(state):
    hl, counts, loops = state
    return '\t'.join([','.join(str(x) for x in hl), ','.join(str(x) for x in counts)] +
                     [common.esc(k + ('-' if i is None else '=' + common.esc(i))) for (k, i) in loops])


# ------------------------------------------------------------------------------------------ the property oracle
# parse_nest: is the sequence flatten(d) for a structured document d (trailers may be missing only at the end)?
# recount: the errors a structural recount blames on each segment.

class NotNested(Exception):
    def __init__(self, pos, tok, top):
        self.pos, self.tok, self.top = pos, tok, top


def tok_of(seg):
    return seg[0] if seg[0] in ENV_IDS else 'body'


def parse_nest(segs):
    """-> list of interchanges {'isa': seg, 'groups': [{'gs':…, 'sets': [{'st':…, 'body': […], 'se': seg|None}], 'ge':…}], 'iea':…}
    raises NotNested(position, token, innermost open kind) at the first segment that cannot continue a flattening"""
    doc = []
    i = 0
    n = len(segs)

    def bad(i, top):
        raise NotNested(i, tok_of(segs[i]), top)

    while i < n:
        if segs[i][0] != 'ISA':
            bad(i, 'none')
        ic = {'isa': segs[i], 'groups': [], 'iea': None}
        doc.append(ic)
        i += 1
        while i < n and segs[i][0] != 'IEA':
            if segs[i][0] != 'GS':
                bad(i, 'ISA')
            g = {'gs': segs[i], 'sets': [], 'ge': None}
            ic['groups'].append(g)
            i += 1
            while i < n and segs[i][0] != 'GE':
                if segs[i][0] != 'ST':
                    bad(i, 'GS')
                t = {'st': segs[i], 'body': [], 'se': None}
                g['sets'].append(t)
                i += 1
                while i < n and segs[i][0] != 'SE':
                    if segs[i][0] in ENV_IDS:
                        bad(i, 'ST')
                    t['body'].append(segs[i])
                    i += 1
                if i < n:
                    t['se'] = segs[i]
                    i += 1
                else:
                    return doc
            if i < n:
                g['ge'] = segs[i]
                i += 1
            else:
                return doc
        if i < n:
            ic['iea'] = segs[i]
            i += 1
        else:
            return doc
    return doc


def py_int(s):
    """int() as _int sees it, stated independently of the Lean text: None for 'not a number' (or absent).
    From U+007F up a white-space character counts as a blank and a decimal digit (any script) as its value; anything
    else there is fatal.  Below U+007F only the six C white-space characters are skipped (so not U+001C..U+001F)."""
    if s is None:
        return None
    import unicodedata
    chars = []
    for ch in s:
        if ord(ch) < 127:
            chars.append(ch)
        elif ch.isspace():
            chars.append(' ')
        else:
            d = unicodedata.decimal(ch, None)
            if d is None:
                return None
            chars.append('0123456789'[d])
    t = ''.join(chars).strip(' \t\n\r\x0b\x0c')
    if t[:1] in ('+', '-'):
        sign, t = (-1 if t[0] == '-' else 1), t[1:]
    else:
        sign = 1
    parts = t.split('_')
    if not all(p != '' and all(c in '0123456789' for c in p) for p in parts):
        return None
    digits = ''.join(parts)
    if len(digits) > MAXDIG:
        return None
    v = 0
    for c in digits:
        v = v * 10 + (ord(c) - 48)
    return sign * v


def hl_errors(body_before, seg, coded):
    """errors of HL `seg` given the body segments before it in the same set.
    coded=False: the property's reading (a blank parent starts a new tree, closing everything before it);
    coded=True: the reader's reading (a blank parent leaves the open hierarchy in place, D37)."""
    hls = [s for s in body_before if s[0] == 'HL'] + [seg]
    par = {}

    def chain(k):
        c = []
        while k is not None:
            c.append(k)
            k = par[k]
        return c

    errs = []
    for k, h in enumerate(hls, 1):
        errs = []
        if py_int(el(h, 0)) != k:
            errs.append(('seg', 'HL1'))
        p2 = el(h, 1)
        prev = chain(k - 1) if k > 1 else []
        if p2 == '':
            par[k] = (k - 1 if (coded and k > 1) else None)
        else:
            p = py_int(p2)
            if p is not None and p in prev:
                par[k] = p
            else:
                errs.append(('seg', 'HL2'))
                par[k] = None
    return errs


def lx_errors(body_before, seg):
    n = 1
    for s in reversed(body_before):
        if s[0] == 'CLM':
            break
        if s[0] == 'LX':
            n += 1
    return [] if el(seg, 0) == '%d' % n else [('seg', 'LX')]


def lx_in_domain(doc):
    """every LX follows a CLM of the same set (the stated domain of the LX clause)"""
    for ic in doc:
        for g in ic['groups']:
            for t in g['sets']:
                seen = False
                for s in t['body']:
                    if s[0] == 'CLM':
                        seen = True
                    elif s[0] == 'LX' and not seen:
                        return False
    return True


def recount(doc, chk, coded=False):
    """per-segment error lists for flatten(doc), then the list for cleanup()"""
    out = []
    pending = []
    for x, ic in enumerate(doc):
        ictl = el(ic['isa'], 12)
        out.append([('isa', '025')] if ictl in [el(o['isa'], 12) for o in doc[:x]] else [])
        for y, g in enumerate(ic['groups']):
            gctl = el(g['gs'], 5)
            out.append([('gs', '6')] if gctl in [el(o['gs'], 5) for o in ic['groups'][:y]] else [])
            for z, t in enumerate(g['sets']):
                sctl = el(t['st'], 1)
                out.append([('st', '23')] if sctl in [el(o['st'], 1) for o in g['sets'][:z]] else [])
                for b, s in enumerate(t['body']):
                    if s[0] == 'HL':
                        out.append(hl_errors(t['body'][:b], s, coded))
                    elif s[0] == 'LX' and chk:
                        out.append(lx_errors(t['body'][:b], s))
                    else:
                        out.append([])
                if t['se'] is None:
                    pending = [('isa', '023'), ('gs', '3'), ('st', '2')]
                else:
                    e = []
                    if el(t['se'], 1) != sctl:
                        e.append(('st', '3'))
                    if py_int(el(t['se'], 0)) != len(t['body']) + 2:
                        e.append(('st', '4'))
                    out.append(e)
            if g['ge'] is None:
                pending = pending or [('isa', '023'), ('gs', '3')]
            else:
                e = []
                if el(g['ge'], 1) != gctl:
                    e.append(('gs', '4'))
                if py_int(el(g['ge'], 0)) != len(g['sets']):
                    e.append(('gs', '5'))
                out.append(e)
        if ic['iea'] is None:
            pending = pending or [('isa', '023')]
        else:
            e = []
            if el(ic['iea'], 1) != ictl:
                e.append(('isa', '001'))
            if py_int(el(ic['iea'], 0)) != len(ic['groups']):
                e.append(('isa', '021'))
            out.append(e)
    out.append(pending)
    return out


NEST_CLASS = {
    ('ISA', 'ISA'): 'pred:nested-same-kind-envelope', ('GS', 'GS'): 'pred:nested-same-kind-envelope',
    ('ST', 'ST'): 'pred:nested-same-kind-envelope',
    ('ST', 'ISA'): 'pred:set-outside-group', ('ST', 'none'): 'pred:set-outside-group',
    ('body', 'none'): 'pred:body-segment-outside-set', ('body', 'ISA'): 'pred:body-segment-outside-set',
    ('body', 'GS'): 'pred:body-segment-outside-set',
    ('GS', 'none'): 'pred:group-outside-interchange',
    ('ISA', 'GS'): 'pred:outer-header-inside-inner-envelope', ('ISA', 'ST'): 'pred:outer-header-inside-inner-envelope',
    ('GS', 'ST'): 'pred:outer-header-inside-inner-envelope',
}


def judge(segs, chk, out, end, where):
    """the property on one run of the real reader -> (class of input, list of (key, what, required))"""
    bad = []
    if end.startswith('crash:'):
        bad.append((where, '%s after %d segment(s)' % (end, len(out)), 'no exception'))
    try:
        doc = parse_nest(segs)
    except NotNested as e:
        cls = 'not-nested:%s-in-%s' % (e.tok, e.top)
        if end == 'ok' and not any(out):
            key = NEST_CLASS.get((e.tok, e.top), 'pred:unreported-arrangement:%s-in-%s' % (e.tok, e.top))
            bad.append((key, 'segment %d (%s) while the innermost open envelope is %s: no envelope error in the whole run'
                        % (e.pos + 1, e.tok, e.top), 'at least one envelope error'))
        return cls, bad
    complete = bool(doc) and doc[-1]['iea'] is not None
    cls = 'nested-complete' if complete else 'nested-open-tail'
    if end != 'ok':
        return cls, bad
    if chk and not lx_in_domain(doc):
        return cls + ':lx-before-clm', bad       # LX clause outside its stated domain: model comparison only
    want = recount(doc, chk)
    if out != want:
        coded = recount(doc, chk, coded=True)
        seen = set()
        for pos in range(max(len(out), len(want))):
            got_i = out[pos] if pos < len(out) else None
            want_i = want[pos] if pos < len(want) else None
            if got_i == want_i:
                continue
            sid = segs[pos][0] if pos < len(segs) else 'cleanup'
            if pos < len(coded) and got_i == coded[pos]:
                key = 'pred:hl-blank-parent-keeps-closed-tree'      # differs only by the reader's blank-parent rule (D37)
            else:
                diff = sorted(set(got_i or []) ^ set(want_i or [])) or [('order', '')]
                key = 'pred:recount-differs:%s:%s' % (sid, '%s:%s' % diff[0])
            if key not in seen:
                seen.add(key)
                bad.append((key, 'segment %d (%s): reader reports %s, the recount says %s' % (pos + 1, sid, got_i, want_i),
                            fmt_errs(want)))
    return cls, bad


# ------------------------------------------------------------------------------------------ generators

def count_form(rnd, n, tags):
    """a text for the number n: mostly canonical, sometimes one of the forms int() also accepts, sometimes wrong"""
    r = rnd.random()
    if r < 0.62:
        return '%d' % n
    tags.append('count-form')
    forms = ['+%d' % n, ' %d ' % n, '0%d' % n, '%d ' % n, '\t%d' % n, '%d\x0b' % n, '00%d' % n, ' +%d' % n]
    if n >= 10:
        s = '%d' % n
        forms += [s[0] + '_' + s[1:], s[:-1] + '_' + s[-1]]
    if n == 0:
        forms += ['-0', '0_0']
    # int() beyond ASCII: decimal digits of other scripts, white space from U+0085 up
    zero = rnd.choice(UNI_ZEROS)
    uni = ''.join(chr(zero + int(c)) for c in '%d' % n)
    forms += [uni, uni, '%d' % n + rnd.choice(UNI_SPACES), rnd.choice(UNI_SPACES) + '%d' % n, '+' + uni + rnd.choice(UNI_SPACES),
              '0' + uni, uni[:1] + ('%d' % n)[1:], '\u2028%d\u00a0' % n]
    wrong = ['%d' % (n + 1), '%d' % max(0, n - 1), '-%d' % (n + 1), 'X', '', None, '1_', '_1', '1__0', '+ 1', '1 1', '%d.0' % n,
             '%dX' % n, '--1', '+', '\x1c%d' % n, '%d_' % n, '9' * (MAXDIG + 1), '0' * MAXDIG + '%d' % n, '1e1', '0x1',
             '%d\x1f' % n, '%d\u200b' % n, '\u00b2', '%d\u00e9' % n, '\u2028', uni + '\u0661', '\u2160', '%d\x7f' % n, '+\u2028' + uni]
    if rnd.random() < 0.55:
        return rnd.choice(forms)
    w = rnd.choice(wrong)
    if rnd.random() < 0.03:
        w = '0' * (MAXDIG - len('%d' % n)) + '%d' % n        # exactly 4300 digits: still a number
    tags.append('count-wrong')
    return w


def ctl_pool(rnd):
    return rnd.choice([['1', '2', '3'], ['0001', '0002', '1'], ['A', 'B', ''], ['17', '18', '19', '20'], ['1', '01', ' 1']])


def gen_body(rnd, chk, tags, domain=True):
    body = []
    nseg = rnd.choice((0, 0, 1, 2, 3, 4, 5, 6, 8, 12))
    hl = 0
    chain = []            # ideal ancestor chain of the previous HL
    lx = 0
    clm = False
    for _ in range(nseg):
        r = rnd.random()
        if r < 0.35:
            hl += 1
            n = count_form(rnd, hl, tags) if rnd.random() < 0.5 else '%d' % hl
            q = rnd.random()
            if q < 0.25 or not chain:
                parent = '' if rnd.random() < 0.9 else rnd.choice(['0', 'X', None, '%d' % hl, '%d' % (hl + 1), ' ', '1'])
            elif q < 0.8:
                parent = '%d' % rnd.choice(chain)
                if rnd.random() < 0.15:
                    parent = rnd.choice(['+' + parent, ' ' + parent, '0' + parent, parent + ' '])
                    tags.append('hl-parent-form')
            else:
                parent = rnd.choice(['%d' % rnd.randint(0, hl + 1), 'X', None, '1_', '-1', '%d' % hl])
                tags.append('hl-parent-random')
            if n is None:
                parent = None
            body.append(mk_hl(n, parent))
            # ideal chain bookkeeping (only to choose plausible parents)
            p = py_int(parent) if parent not in ('', None) else None
            if parent == '':
                chain = [hl]
            elif p is not None and p in chain:
                chain = chain[:chain.index(p) + 1] + [hl]
            else:
                chain = [hl]
        elif r < 0.5:
            body.append(('CLM', ['X%d' % rnd.randint(1, 9), '100']))
            clm = True
            lx = 0
        elif r < 0.75 and (clm or not domain or not chk):
            lx += 1
            q = rnd.random()
            if q < 0.75:
                n = '%d' % lx
            else:
                n = rnd.choice(['%d' % (lx + 1), '0%d' % lx, ' %d' % lx, '+%d' % lx, '', None, 'X', '%d' % max(0, lx - 1), '1'])
                tags.append('lx-wrong')
            body.append(mk_lx(n))
        else:
            body.append((rnd.choice(BODY_IDS), ['1', 'A'][:rnd.randint(1, 2)]))
    return body


def gen_nested(rnd, chk, tags, domain=True):
    """a flattened structured document with random discrepancies; trailers possibly missing at the end"""
    segs = []
    pool = ctl_pool(rnd)
    nint = rnd.choice((1, 1, 1, 2, 2, 3))
    p_bad = rnd.choice((0.0, 0.05, 0.15, 0.4))
    open_tail = rnd.random() < 0.2
    open_level = rnd.choice(('ISA', 'GS', 'ST'))
    used_isa = []
    for x in range(nint):
        last_i = x == nint - 1
        if rnd.random() < p_bad and used_isa:
            ictl = rnd.choice(used_isa)
            tags.append('dup-isa')
        else:
            ictl = '%09d' % rnd.randint(1, 999) if (x == 0 or rnd.random() < 0.7) else rnd.choice(pool + ['X Y', ''])
        used_isa.append(ictl)
        segs.append(mk_isa(ictl, first=(x == 0)))
        ictl = segs[-1][1][12]
        ngrp = rnd.choice((0, 1, 1, 1, 2, 2, 3))
        used_gs = []
        stop = False
        for y in range(ngrp):
            last_g = last_i and y == ngrp - 1
            if rnd.random() < p_bad:
                gctl = rnd.choice(pool + [None])
                tags.append('gs-ctl-random')
            else:
                gctl = '%d' % (y + 1 + 10 * x)
            segs.append(mk_gs(gctl))
            nset = rnd.choice((0, 1, 1, 1, 2, 2, 3, 4))
            for z in range(nset):
                last_s = last_g and z == nset - 1
                if rnd.random() < p_bad:
                    sctl = rnd.choice(pool + [None])
                    tags.append('st-ctl-random')
                else:
                    sctl = '%04d' % (z + 1)
                segs.append(mk_st(sctl))
                sctl = el(segs[-1], 1)
                body = gen_body(rnd, chk, tags, domain)
                segs += body
                if last_s and open_tail and open_level == 'ST':
                    stop = True
                    break
                cnt = count_form(rnd, len(body) + 2, tags) if rnd.random() < max(p_bad, 0.1) else '%d' % (len(body) + 2)
                tctl = sctl
                if rnd.random() < p_bad:
                    tctl = rnd.choice(pool + [None, (sctl or '') + '0'])
                    tags.append('se-ctl-random')
                if cnt is None:
                    tctl = None
                segs.append(mk_trailer('SE', cnt, tctl))
            if stop:
                break
            if last_g and open_tail and open_level in ('GS', 'ST'):
                stop = True
                break
            cnt = count_form(rnd, nset, tags) if rnd.random() < max(p_bad, 0.1) else '%d' % nset
            tctl = el(segs[[i for i, s in enumerate(segs) if s[0] == 'GS'][-1]], 5)
            if rnd.random() < p_bad:
                tctl = rnd.choice(pool + [None, (tctl or '') + '0'])
                tags.append('ge-ctl-random')
            if cnt is None:
                tctl = None
            segs.append(mk_trailer('GE', cnt, tctl))
        if stop or (last_i and open_tail):
            tags.append('open-tail')
            break
        cnt = count_form(rnd, ngrp, tags) if rnd.random() < max(p_bad, 0.1) else '%d' % ngrp
        tctl = ictl
        if rnd.random() < p_bad:
            tctl = rnd.choice(pool + [None, ictl[1:] + '0', ictl.lstrip('0')])
            tags.append('iea-ctl-random')
        if cnt is None:
            tctl = None
        segs.append(mk_trailer('IEA', cnt, tctl))
    return segs


def mutate(rnd, segs, tags):
    """structural damage: the result is usually not a flattening any more"""
    segs = list(segs)
    for _ in range(rnd.choice((1, 1, 1, 2, 3))):
        if len(segs) < 2:
            break
        op = rnd.choice(('delete', 'dup-trailer', 'swap', 'orphan-trailer', 'dup-header', 'move-body', 'retag', 'truncate'))
        tags.append('mut-' + op)
        i = rnd.randint(1, len(segs) - 1)
        if op == 'delete':
            del segs[i]
        elif op == 'dup-trailer':
            tr = [j for j in range(1, len(segs)) if segs[j][0] in ('IEA', 'GE', 'SE')]
            if tr:
                j = rnd.choice(tr)
                segs.insert(j, segs[j])
        elif op == 'dup-header':
            hd = [j for j in range(0, len(segs)) if segs[j][0] in ('ISA', 'GS', 'ST')]
            j = rnd.choice(hd)
            s = segs[j]
            if rnd.random() < 0.5:      # same kind, other control number
                if s[0] == 'ISA':
                    s = mk_isa('%09d' % rnd.randint(1000, 9999))
                elif s[0] == 'GS':
                    s = mk_gs('%d' % rnd.randint(50, 99))
                else:
                    s = mk_st('%d' % rnd.randint(50, 99))
            segs.insert(j + 1, s)
        elif op == 'swap' and i + 1 < len(segs):
            segs[i], segs[i + 1] = segs[i + 1], segs[i]
        elif op == 'orphan-trailer':
            sid = rnd.choice(('IEA', 'GE', 'SE'))
            segs.insert(i, mk_trailer(sid, rnd.choice(['0', '1', '2', 'X', None]), rnd.choice(['1', '0001', None, '000000001'])))
        elif op == 'move-body':
            segs.insert(i, (rnd.choice(BODY_IDS + ('HL', 'LX', 'CLM')), ['1']))
        elif op == 'retag':
            s = segs[i]
            if s[0] in ENV_IDS:
                segs[i] = (rnd.choice(ENV_IDS[1:]), s[1])
        elif op == 'truncate':
            segs = segs[:i]
    return segs


def balanced(rnd, tags):
    """bracket words over the three envelope kinds in arbitrary nesting order, counts as the reader's own
    counters would have them (the arrangements a plain stack cannot tell from proper nesting)"""
    segs = [mk_isa('%09d' % rnd.randint(1, 99), first=True)]
    stack = [('ISA', segs[0][1][12])]
    gs = st = seg = 0
    nid = 1
    for _ in range(rnd.randint(1, 10)):
        r = rnd.random()
        if r < 0.45 or not stack:
            k = rnd.choice(('ISA', 'GS', 'ST'))
            nid += 1
            if k == 'ISA':
                s = mk_isa('%09d' % (100 + nid))
                gs = 0
            elif k == 'GS':
                s = mk_gs('%d' % nid)
                gs += 1
                st = 0
            else:
                s = mk_st('%d' % nid)
                st += 1
                seg = 1
            segs.append(s)
            stack.append((k, view(s)[2]))
        elif r < 0.6:
            segs.append((rnd.choice(BODY_IDS), ['1']))
            seg += 1
        else:
            k, c = stack.pop()
            if k == 'ISA':
                segs.append(mk_trailer('IEA', '%d' % gs, c))
            elif k == 'GS':
                segs.append(mk_trailer('GE', '%d' % st, c))
            else:
                segs.append(mk_trailer('SE', '%d' % (seg + 1), c))
    while stack and rnd.random() < 0.85:
        k, c = stack.pop()
        segs.append(mk_trailer({'ISA': 'IEA', 'GS': 'GE', 'ST': 'SE'}[k], '%d' % {'ISA': gs, 'GS': st, 'ST': seg + 1}[k], c))
    tags.append('balanced-any-order')
    return segs


def soup(rnd, tags):
    """segments drawn independently from a small pool (ids collide often)"""
    segs = [mk_isa('%09d' % rnd.randint(1, 3), first=True)]
    for _ in range(rnd.randint(0, 9)):
        k = rnd.choice(('ISA', 'GS', 'ST', 'SE', 'GE', 'IEA', 'HL', 'LX', 'CLM', 'REF', 'SE', 'GE', 'IEA'))
        c = rnd.choice(['1', '2', '000000001', None, ''])
        n = rnd.choice(['0', '1', '2', '3', '+1', ' 2 ', '1_0', 'X', None, ''])
        if k == 'ISA':
            segs.append(mk_isa(c or '', nelem=rnd.choice((16, 16, 16, 16, 16, 16, 15, 17, 2))))
        elif k == 'GS':
            segs.append(mk_gs(c))
        elif k == 'ST':
            segs.append(mk_st(c))
        elif k in ('SE', 'GE', 'IEA'):
            segs.append(mk_trailer(k, n, None if n is None else c))
        elif k == 'HL':
            segs.append(mk_hl(n, None if n is None else c))
        elif k == 'LX':
            segs.append(mk_lx(n))
        else:
            segs.append((k, ['1']))
    tags.append('soup')
    return segs


I1 = mk_isa('000000001', first=True)
I2 = mk_isa('000000002')
FIXED = [
    # the ledger's replay recipes (D5, D6, D34, D37, D38) and the plain good file
    ('good', False, [I1, mk_gs('1'), mk_st('0001'), ('BHT', ['1']), mk_trailer('SE', '3', '0001'), mk_trailer('GE', '1', '1'), mk_trailer('IEA', '1', '000000001')]),
    ('D5', False, [I1, mk_trailer('GE', '1', '1')]),
    ('D5', False, [I1, mk_trailer('IEA', '0', '000000001'), mk_trailer('IEA', '0', '000000001')]),
    ('D5', False, [I1, mk_gs('1'), mk_trailer('GE', '0', '1'), mk_trailer('GE', '0', '1')]),
    ('D5', False, [I1, mk_st('1'), mk_trailer('SE', '2', '1'), mk_trailer('SE', '2', '1'), mk_trailer('SE', '2', '1')]),
    ('D5', False, [I1, mk_st('1'), mk_trailer('SE', '2', '1'), mk_trailer('GE', '1', '1')]),
    ('D5', False, [I1, mk_trailer('IEA', '0', '000000001'), mk_trailer('SE', '2', '1')]),
    ('D6', False, [I1, mk_gs('1'), ('GE', [])]),
    ('D6', False, [I1, ('IEA', [])]),
    ('D6', False, [I1, mk_gs('1'), mk_st('1'), ('SE', [])]),
    ('D6', False, [I1, mk_gs('1'), mk_st('1'), ('HL', [])]),
    ('D34', False, [I1, mk_gs('1'), mk_st('1'), mk_hl('1', 'X'), mk_trailer('SE', '3', '1'), mk_trailer('GE', '1', '1'), mk_trailer('IEA', '1', '000000001')]),
    ('D34', False, [I1, mk_gs('1'), mk_st('1'), ('HL', ['1'])]),
    ('D37', False, [I1, mk_gs('1'), mk_st('1'), mk_hl('1', ''), mk_hl('2', '1'), mk_hl('3', '2'), mk_hl('4', ''), mk_hl('5', '1'),
                    mk_trailer('SE', '7', '1'), mk_trailer('GE', '1', '1'), mk_trailer('IEA', '1', '000000001')]),
    ('D38', False, [I1, I2, mk_trailer('IEA', '0', '000000002'), mk_trailer('IEA', '0', '000000001')]),
    ('D38', False, [I1, mk_gs('1'), mk_gs('2'), mk_trailer('GE', '0', '2'), mk_trailer('GE', '0', '1'), mk_trailer('IEA', '2', '000000001')]),
    ('D38', False, [I1, mk_gs('1'), mk_st('1'), mk_st('2'), mk_trailer('SE', '2', '2'), mk_trailer('SE', '2', '1'), mk_trailer('GE', '2', '1'), mk_trailer('IEA', '1', '000000001')]),
    ('D38', False, [I1, mk_st('1'), mk_trailer('SE', '2', '1'), mk_trailer('IEA', '0', '000000001')]),
    ('D38', False, [I1, ('REF', ['1']), mk_trailer('IEA', '0', '000000001')]),
    ('D38', False, [I1, mk_trailer('IEA', '0', '000000001'), mk_gs('1'), mk_trailer('GE', '0', '1')]),
    ('D38', False, [I1, mk_gs('1'), I2, mk_trailer('IEA', '0', '000000002'), mk_trailer('GE', '0', '1'), mk_trailer('IEA', '1', '000000001')]),
    ('partial', False, [I1, mk_gs('1'), mk_trailer('IEA', '1', '000000001')]),
    ('partial', False, [I1, mk_gs('1'), mk_trailer('GE', '0', '2'), mk_trailer('IEA', '1', '000000001')]),
    ('partial', False, [I1, mk_gs('1'), mk_st('1')]),
    ('lx', True, [I1, mk_gs('1'), mk_st('1'), ('CLM', ['A']), mk_lx('1'), mk_lx('2'), ('CLM', ['B']), mk_lx('1'), mk_lx('3'),
                  mk_trailer('SE', '8', '1'), mk_trailer('GE', '1', '1'), mk_trailer('IEA', '1', '000000001')]),
    ('int', False, [I1, mk_gs('1'), mk_trailer('GE', '0' * MAXDIG, '1'), mk_trailer('IEA', '0' * (MAXDIG - 1) + '1', '000000001')]),
    ('int', False, [I1, mk_gs('1'), mk_trailer('GE', '0' * (MAXDIG + 1), '1'), mk_trailer('IEA', '1', '000000001')]),
]


def gen_case(seed, c):
    """case number c of a run -> (category, tags, chk, segments)"""
    if c < len(FIXED):
        cat, chk, segs = FIXED[c]
        return 'fixed:' + cat, [], chk, segs
    rnd = random.Random(seed * 1000003 + c)
    tags = []
    chk = rnd.random() < 0.5
    r = rnd.random()
    if r < 0.45:
        return 'nested', tags, chk, gen_nested(rnd, chk, tags)
    if r < 0.5:
        return 'nested-any-lx', tags, chk, gen_nested(rnd, chk, tags, domain=False)
    if r < 0.75:
        return 'mutated', tags, chk, mutate(rnd, gen_nested(rnd, chk, tags, domain=rnd.random() < 0.8), tags)
    if r < 0.88:
        return 'balanced', tags, chk, balanced(rnd, tags)
    return 'soup', tags, chk, soup(rnd, tags)


# ------------------------------------------------------------------------------------------ one chunk of cases

def work(args):
    """run cases lo..hi-1; returns an aggregate that the parent merges (also used in-process)"""
    seed, lo, hi, with_model = args
    agg = {'n': 0, 'cat': {}, 'cls': {}, 'tags': {}, 'codes': {}, 'ends': {}, 'len': {}, 'hashes': set(), 'viol': {}, 'broke': [],
           'samples': [], 'dis': 0, 'state_cmp': 0, 'unfixed_model_agrees': 0, 'unfixed_model_differs': 0}
    cases = []
    lines = []
    for c in range(lo, hi):
        cat, tags, chk, segs = gen_case(seed, c)
        cases.append((c, cat, tags, chk, segs))
        if with_model:
            lines.append(model_line('111', chk, segs))
            lines.append(model_line('000', chk, segs))
    model = common.run_model(lines) if with_model else None

    def bump(d, k, n=1):
        d[k] = d.get(k, 0) + n

    for idx, (c, cat, tags, chk, segs) in enumerate(cases):
        out, end, state, where = run_impl(segs, chk)
        cls, bad = judge(segs, chk, out, end, where)
        agg['n'] += 1
        bump(agg['cat'], cat)
        bump(agg['cls'], cls)
        bump(agg['ends'], end)
        bump(agg['len'], min(len(segs) // 5 * 5, 60))
        for t in set(tags):
            bump(agg['tags'], t)
        for l in out:
            for e in l:
                bump(agg['codes'], '%s:%s' % e)
        vs = [view(s) for s in segs]
        if len(segs) >= 3:
            agg['hashes'].add(hashlib.blake2b(repr((chk, vs)).encode('utf-8', 'surrogatepass'), digest_size=8).digest())
        istr = impl_string(out, end)
        rep = {'call': 'X12Reader over the segments; pop_errors() after each segment and after cleanup()',
               'check_837_lx': chk, 'segments': [[s[0], list(s[1])] for s in segs], 'text': ''.join(seg_text(s) + '~' for s in segs)[:3000],
               'observed': istr, 'case': c, 'seed': seed}
        m_all = m_none = None
        if model is not None:
            m_all = model[2 * idx].split('\t')
            m_none = model[2 * idx + 1].split('\t')
            rep['model_fixed'] = '\t'.join(m_all[:2])
            rep['model_unfixed'] = '\t'.join(m_none[:2])
        for key, what, required in bad:
            r2 = dict(rep)
            r2['required'] = required
            agg['viol'].setdefault(key, [])
            if len(agg['viol'][key]) < 3:
                agg['viol'][key].append((what, r2))
            else:
                agg['viol'][key].append(None)
        if len(agg['samples']) < 3 and c % 997 == 5:
            agg['samples'].append({'case': c, 'category': cat, 'class': cls, 'segments': [seg_text(s)[:60] for s in segs][:12], 'impl': istr,
                                   'model': rep.get('model_fixed')})
        if model is not None:
            same_all = '\t'.join(m_all[:2]) == istr
            same_none = '\t'.join(m_none[:2]) == istr
            if end.startswith('crash:'):
                if same_none:
                    agg['unfixed_model_agrees'] += 1
                else:
                    agg['unfixed_model_differs'] += 1
            if not same_all:
                agg['dis'] += 1
                if not end.startswith('crash:') and not (bad and same_none):
                    if len(agg['broke']) < 5:
                        agg['broke'].append(('correspondence:Envelope.step', 'case %d seed %d chk=%s segments=%r impl=%r model=%r' %
                                             (c, seed, chk, [seg_text(s)[:40] for s in segs], istr, '\t'.join(m_all[:2]))))
            elif state is not None:
                agg['state_cmp'] += 1
                if state_string(state) != '\t'.join(m_all[2:]).rstrip('\t'):
                    if len(agg['broke']) < 5:
                        agg['broke'].append(('correspondence:Envelope.state', 'case %d seed %d segments=%r impl=%r model=%r' %
                                             (c, seed, [seg_text(s)[:40] for s in segs], state_string(state), '\t'.join(m_all[2:]))))
    return agg


def unicode_tables():
    """(white-space code points, {code point: decimal value}) of the Python that runs the check, over all scalar values"""
    import unicodedata
    spaces, decs = [], {}
    for c in range(0x110000):
        if 0xD800 <= c <= 0xDFFF:
            continue
        ch = chr(c)
        if ch.isspace():
            spaces.append(c)
        d = unicodedata.decimal(ch, None)
        if d is not None:
            decs[c] = d
    return spaces, decs


# the zeros of some Nd runs and some white space from U+0085 up, for the sequence generator (the int() stage below covers all)
UNI_ZEROS = (0x660, 0x6F0, 0x966, 0xFF10, 0x1D7CE, 0x1E950, 0x30)
UNI_SPACES = ('\u2028', '\u00a0', '\u0085', '\u3000', '\u1680', '\u2003', '\u202f', '\u205f', '\u2029')


def int_cases(tier):
    """texts for the int() correspondence: every string over a small alphabet up to a length bound, the digit-count
    limit, and every ASCII character as prefix / suffix / infix of a digit"""
    import itertools
    alpha = [' ', '\t', '+', '-', '_', '0', '1', '9', 'X', '\x0b', '\x1c', '.']
    maxlen = 6 if tier == 'thorough' else 5
    for n in range(0, maxlen + 1):
        for tup in itertools.product(alpha, repeat=n):
            yield ''.join(tup)
    for c in range(0, 128):
        ch = chr(c)
        for t in (ch + '1', '1' + ch, '1' + ch + '2', ch, ' ' + ch + '7 '):
            yield t
    for k in (MAXDIG - 1, MAXDIG, MAXDIG + 1):
        yield '1' * k
        yield '0' * k
        yield '+' + '7' * k + ' '
        yield '_'.join('1' * k)
        yield '1' * k + '_'


def unicode_int_cases(tier, spaces, decs):
    """the Unicode part: EVERY scalar value alone and on both sides of a digit (the two tables of the model, exhaustively);
    every white-space / decimal code point between all pairs of ASCII neighbours; pairs of such code points; the
    digit-count limit in another script; random mixed strings"""
    import itertools
    for c in range(0x110000):
        if 0xD800 <= c <= 0xDFFF:
            continue
        ch = chr(c)
        yield ch
        yield ch + '1' + ch
    special = sorted(set(spaces) | set(decs))
    side = ['', '1', '0', '9', '+', '-', '_', ' ', '\t', '\x1c', 'X', '7_']
    for c in special:
        ch = chr(c)
        for a, b in itertools.product(side, repeat=2):
            yield a + ch + b
        for t in ('-' + ch + ch, ch + '_' + ch, ch + '__' + ch, '+' + ch + ' ' + ch, ' ' + ch + '1' + ch + ' ', '1' + ch + '2' + ch + '3'):
            yield t
    rnd = random.Random(common.seed() * 7919 + 404)
    other = ['\u00e9', '\u200b', '\u00b2', '\u2160', '\ufeff', '\x7f', '\x80', '\U0010ffff', '\u0f33', '\u3007', '\u4e00', '\u00bd']
    npairs = len(special) ** 2 if tier == 'thorough' else 60000
    if tier == 'thorough':
        for a, b in itertools.product(special, repeat=2):
            yield chr(a) + chr(b)
    else:
        for _ in range(npairs):
            yield chr(rnd.choice(special)) + chr(rnd.choice(special))
    pool = [[chr(c) for c in spaces], [chr(c) for c in decs], ['0', '1', '5', '9'], ['+', '-', '_'], [' ', '\t', '\n', '\x0b', '\x1c', '\x1f'],
            other, ['X', '.', 'e']]
    weights = [4, 8, 5, 2, 2, 1, 1]
    for _ in range(600000 if tier == 'thorough' else 120000):
        k = rnd.choice((1, 2, 2, 3, 3, 4, 5, 6, 8, 12))
        yield ''.join(rnd.choice(rnd.choices(pool, weights)[0]) for _ in range(k))
    for zero in (0x661 - 1, 0xFF10, 0x1D7CE):
        for k in (MAXDIG - 1, MAXDIG, MAXDIG + 1):
            yield chr(zero + 1) * k
            yield '\u2028-' + chr(zero + 7) * (k - 1) + '7\u00a0'
            yield '_'.join(chr(zero + 3) * k)


def int_stage(res, tier, built):
    """Lean pyInt and the oracle's py_int against CPython int(), which is all X12Base._int adds a try/except to"""
    spaces, decs = unicode_tables()
    zeros = sorted(c for c, d in decs.items() if d == 0)
    runs_ok = len(decs) == 10 * len(zeros) and all(decs.get(z + i) == i for z in zeros for i in range(10))
    if not runs_ok:
        res.broke('correspondence:Envelope.pyDigitZeros', 'the decimal digits of this Python do not come in runs of ten')
    ascii_cases = list(int_cases(tier))
    cases = ascii_cases + list(unicode_int_cases(tier, spaces, decs))
    model = common.run_model([common.line('ENVINT', t) for t in cases]) if built else None
    bad_model = bad_oracle = 0
    for i, t in enumerate(cases):
        try:
            v = int(t)
        except ValueError:
            v = None
        res.count()
        if py_int(t) != v:
            bad_oracle += 1
            if bad_oracle <= 3:
                res.broke('oracle:py_int', 'py_int(%r) = %r, int() gives %r' % (t[:40], py_int(t), v))
        if model is not None and model[i] != ('none' if v is None else str(v)):
            bad_model += 1
            if bad_model <= 3:
                res.broke('correspondence:Envelope.pyInt', 'text %r (len %d): int() gives %s, model %s' %
                          (t[:40], len(t), 'none' if v is None else str(v)[:40], model[i][:40]))
    res.notes['int_correspondence'] = {'texts': len(cases), 'ascii_texts': len(ascii_cases), 'unicode_texts': len(cases) - len(ascii_cases),
                                       'scalar_values_covered': 0x110000 - 0x800, 'isspace_code_points': len(spaces),
                                       'decimal_code_points': len(decs), 'decimal_runs': len(zeros),
                                       'model_disagreements': bad_model, 'oracle_disagreements': bad_oracle}


def merge(total, a):
    for k in ('n', 'dis', 'state_cmp', 'unfixed_model_agrees', 'unfixed_model_differs'):
        total[k] = total.get(k, 0) + a[k]
    for k in ('cat', 'cls', 'tags', 'codes', 'ends', 'len'):
        d = total.setdefault(k, {})
        for x, n in a[k].items():
            d[x] = d.get(x, 0) + n
    total.setdefault('hashes', set()).update(a['hashes'])
    for key, items in a['viol'].items():
        total.setdefault('viol', {}).setdefault(key, []).extend(items)
    total.setdefault('broke', []).extend(a['broke'])
    total.setdefault('samples', []).extend(a['samples'])


def run(tier):
    res = common.Result('C04', tier)
    res.cov['rule'] = ('a case is (check_837_lx, sequence of segment views); distinct by that value; non-trivial = at least 3 '
                       'segments. Categories: flattened structured documents with random discrepancies (control numbers, counts in '
                       'every int() form, duplicates, HL/LX numbering, open tail), structural mutations of those, balanced bracket '
                       'words in arbitrary nesting order, independent draws from a small pool, and the ledger recipes')
    built = common.proof_stage(res, 'C04')
    int_stage(res, tier, built)
    total_cases = 1000000 if tier == 'thorough' else 20000
    seed = common.seed()
    total = {}
    if tier == 'thorough':
        import multiprocessing
        step = 5000
        jobs = [(seed, lo, min(lo + step, total_cases), built) for lo in range(0, total_cases, step)]
        with multiprocessing.Pool(min(16, os.cpu_count() or 2)) as pool:
            for a in pool.imap_unordered(work, jobs):
                merge(total, a)
    else:
        step = 5000
        for lo in range(0, total_cases, step):
            merge(total, work((seed, lo, min(lo + step, total_cases), built)))
    res.count(total['n'])
    res._seen = total['hashes']
    for key, items in sorted(total.get('viol', {}).items()):
        first = [i for i in items if i is not None][0]
        for it in items:
            res.violation(key, first[0], first[1])
    for name, detail in total.get('broke', [])[:10]:
        res.broke(name, detail)
    for s in total.get('samples', [])[:5]:
        res.sample(s)
    res.notes['input_distribution'] = {'category': total['cat'], 'nesting_class': total['cls'], 'discrepancy_kinds': total['tags'],
                                       'sequence_length_bucket': {str(k): v for k, v in sorted(total['len'].items())}}
    res.notes['error_codes_hit'] = total['codes']
    res.notes['run_endings'] = total['ends']
    res.notes['disagreements_checked'] = total['dis']
    res.notes['final_state_comparisons'] = total['state_cmp']
    res.notes['crashes_predicted_by_unfixed_model'] = {'same_place_and_class': total['unfixed_model_agrees'], 'different': total['unfixed_model_differs']}
    res.notes['exhaustive'] = False
    res.assumptions = ['segments are well formed (valid identifier, non-empty, no leading blank / trailing separator are the tokeniser\'s '
                       'business, C01); count / number elements are arbitrary Unicode text, other element values ASCII',
                       'the first ISA is the fixed-width header the raw reader needs; later ISA segments are arbitrary',
                       'LX clause: stated for sets in which every LX follows a CLM of the same set (DESIGN C04 refinement i)',
                       'HL clause: the Lean recount states the reader\'s rule (blank parent = child of the previous HL); the Python oracle '
                       'states the property\'s rule, the difference is finding D37',
                       'sys.get_int_max_str_digits() == 4300']
    return res.finish(trusted=common.TRUSTED_COMMON + [
        'modelled: X12Base._parse_segment, _int, X12Reader._parse_segment, cleanup, pop_errors protocol',
        'Python oracle: parse_nest (recursive descent) + recount (structural), written independently of the Lean text'])


def replay(d):
    r = d['replay']
    if 'segments' not in r:
        print('nothing to re-execute: %s' % d.get('what'))
        return 1
    segs = [(s[0], list(s[1])) for s in r['segments']]
    chk = bool(r.get('check_837_lx'))
    out, end, state, where = run_impl(segs, chk)
    cls, bad = judge(segs, chk, out, end, where)
    print('segments : %s' % ' ~ '.join(seg_text(s)[:50] for s in segs))
    print('observed : %s' % impl_string(out, end).replace('\t', ' | '))
    print('class    : %s' % cls)
    for key, what, required in bad:
        print('fails    : %s  %s  (required: %s)' % (key, what, required))
    keys = [b[0] for b in bad]
    return 1 if d.get('key') in keys or (bad and d.get('key', '').startswith('broken')) else 0
