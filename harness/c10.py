"""
C10 - the tree editing API of pyx12.x12context obeys its read / write / insert / delete / copy laws.

Theorems (lean/Pyx12Verif/Props/C10.lean) are about the model lean/Pyx12Verif/Model/DataTree.lean.  Tie: random
histories (length <= 40) of the twelve API calls (get_value set_value exists count first select add_segment
add_loop add_node delete_segment delete_node copy) with valid and invalid paths on real trees obtained from
X12ContextReader.iter_segments(loop_id) over generated documents of every selectable map.  Python object
identity is mapped to (root index, index path) addresses.  After every call the return value / exception class
and a structural dump of every tree are compared between the real code and the compiled model, and the laws
are evaluated directly on the real code (property oracle), using only the API results and
iterate_segments() -> seg.format().
"""
import io
import os
import random
import re

from . import common

MASK = (1 << 64) - 1
REFDES = re.compile(r'^([A-Z][A-Z0-9]{1,2})?(\[[A-Z0-9]+\])?([0-9]{2})?(-[0-9]+)?$')
LOOP_PREF = ['2300', '2000A', '2000', 'ST_LOOP', '2000B', '2400', '2100', '2000C', '2200', '1000A', 'HEADER',
             'GS_LOOP', '2100A', '2110', '2000D', '2320', 'AK2', '2310A', '1000', '2000E', '2200D']
MAX_NODES = 260
QUERY_OPS = ('ex', 'ct', 'fi', 'se')
ALL_OPS = ('gv', 'sv', 'ex', 'ct', 'fi', 'se', 'as', 'al', 'an', 'ds', 'dn', 'cp')
OP_NAME = {'gv': 'get_value', 'sv': 'set_value', 'ex': 'exists', 'ct': 'count', 'fi': 'first', 'se': 'select',
           'as': 'add_segment', 'al': 'add_loop', 'an': 'add_node', 'ds': 'delete_segment', 'dn': 'delete_node',
           'cp': 'copy'}


class Violation(Exception):
    def __init__(self, key, what):
        Exception.__init__(self, what)
        self.key, self.what = key, what


# ------------------------------------------------------------------------------------ pyx12 access

def px():
    try:
        import pyx12.x12context
        import pyx12.params
        import pyx12.error_handler
        import pyx12.path
        import pyx12.segment
    except Exception as e:  # pragma: no cover
        raise common.Infra('pyx12 not importable: %r' % (e,))
    for cls, names in ((pyx12.x12context.X12LoopDataNode,
                        ('get_value', 'set_value', 'exists', 'count', 'first', 'select', 'add_segment', 'add_loop',
                         'add_node', 'delete_segment', 'delete_node', 'copy', 'iterate_segments')),
                       (pyx12.x12context.X12SegmentDataNode,
                        ('get_value', 'set_value', 'exists', 'count', 'first', 'select', 'copy', 'iterate_segments'))):
        for n in names:
            if not hasattr(cls, n):
                raise common.Infra('entry point missing: %s.%s' % (cls.__name__, n))
    return pyx12


def attr(o, name):
    try:
        return getattr(o, name)
    except AttributeError:
        raise common.Infra('attribute missing: %s.%s' % (type(o).__name__, name))


def read_trees(text, loop_id):
    p = px()
    rd = p.x12context.X12ContextReader(p.params.params(), p.error_handler.errh_null(), io.StringIO(text))
    out = []
    for n in rd.iter_segments(loop_id):
        if attr(n, 'type') == 'loop' and n.id == loop_id:
            out.append(n)
    return out


# ------------------------------------------------------------------------------------ map abstraction

def seg_keys(sn):
    """(mkeys, qkey) of a segment map node: the rules of is_match / is_match_qual as plain data"""
    ch = sn.children
    def ele_codes(e):
        return list(e.valid_codes)
    k1 = k2 = k3 = k4 = k5 = None
    c0 = ch[0] if len(ch) > 0 else None
    if c0 is not None and c0.is_element() and c0.get_data_type() == 'ID' and c0.usage == 'R' and len(c0.valid_codes) > 0:
        k1 = (1, 0, ele_codes(c0))
    if sn.id == 'ENT' and len(ch) > 1 and ch[1].is_element() and ch[1].get_data_type() == 'ID' and len(ch[1].valid_codes) > 0:
        k2 = (2, 0, ele_codes(ch[1]))
    if c0 is not None and c0.is_composite() and len(c0.children) > 0:
        s0 = c0.children[0]
        if sn.id == 'CTX' and s0.get_data_type() == 'AN' and len(s0.valid_codes) > 0:
            k3 = (1, 1, ele_codes(s0))
        if s0.get_data_type() == 'ID' and len(s0.valid_codes) > 0:
            k4 = (1, 1, ele_codes(s0))
    if sn.id == 'HL' and len(ch) > 2 and ch[2].is_element() and len(ch[2].valid_codes) > 0:
        k5 = (3, 0, ele_codes(ch[2]))
    mkeys = [k for k in (k1, k2, k3, k4, k5) if k is not None]
    qkey = next((k for k in (k1, k2, k4, k5) if k is not None), None)
    return mkeys, qkey


def pid_gid(mn):
    par = attr(mn, 'parent')
    pid = par.id if par is not None else ''
    gp = getattr(par, 'parent', None) if par is not None else None
    gid = gp.id if gp is not None and getattr(gp, 'id', None) is not None else ''
    return pid or '', gid or ''


class MapEnc:
    """token encoding of the map subtree below a loop node; index = preorder number"""

    def __init__(self, root):
        self.tokens = []
        self.index = {}
        self.qkey = {}
        self._walk(root)

    def _key(self, k):
        self.tokens += [str(k[0]), str(k[1]), str(len(k[2]))] + list(k[2])

    def _walk(self, mn):
        self.index[id(mn)] = len(self.index)
        pid, gid = pid_gid(mn)
        pos = attr(mn, 'pos')
        if not isinstance(pos, int) or pos < 0:
            raise common.Infra('map position not a natural number: %r' % (pos,))
        if mn.is_loop():
            kids = list(mn.childIterator())
            self.tokens += ['L', mn.id, str(pos), pid, gid, str(len(kids))]
            for k in kids:
                self._walk(k)
        else:
            mkeys, qkey = seg_keys(mn)
            self.qkey[id(mn)] = qkey
            self.tokens += ['S', mn.id, str(pos), pid, gid, str(len(mkeys))]
            for k in mkeys:
                self._key(k)
            if qkey is None:
                self.tokens.append('0')
            else:
                self.tokens.append('1')
                self._key(qkey)


def seg_struct(seg):
    """exact element structure of a pyx12 Segment: [[sub, ...], ...]"""
    return [[e.get_value() for e in attr(c, 'elements')] for c in attr(seg, 'elements')]


def enc_tree(n, menc, out):
    t = attr(n, 'type')
    if t is None:
        out.append('d')
    elif t == 'loop':
        kids = attr(n, 'children')
        out += ['l', str(menc.index[id(n.x12_map_node)]), str(len(kids))]
        for k in kids:
            enc_tree(k, menc, out)
    else:
        s = n.seg_data
        els = seg_struct(s)
        out += ['s', str(menc.index[id(n.x12_map_node)]), s.seg_term, s.ele_term, s.subele_term, s.seg_id or '', str(len(els))]
        for c in els:
            out.append(str(len(c)))
            out += c


def fnv(s, h):
    for ch in s:
        h = ((h ^ ord(ch)) * 1099511628211) & MASK
    return h


def dump(n):
    t = attr(n, 'type')
    if t is None:
        return 'D;'
    if n.x12_map_node is None:
        return 'Z;'
    if t == 'loop':
        return 'L[%s|%d](%s)' % (n.x12_map_node.id, n.x12_map_node.pos, ''.join(dump(k) for k in n.children))
    s = n.seg_data
    raw = (s.seg_id or '') + ''.join(s.ele_term + s.subele_term.join(c) for c in seg_struct(s)) + s.seg_term
    return 'S[%s|%d]%s;' % (n.x12_map_node.id, n.x12_map_node.pos, raw)


def forest_sum(roots):
    h = 14695981039346656037
    for r in roots:
        h = fnv('\n', fnv('D;' if r is None else dump(r), h))
    return h


# ------------------------------------------------------------------------------------ tree walking (identity <-> address)

def live_nodes(root):
    """[(node, address)] of all nodes reachable through live nodes (tombstones themselves are not listed)"""
    out = []
    def rec(n, a):
        out.append((n, a))
        if n.type == 'loop':
            for i, k in enumerate(n.children):
                if k.type is not None:
                    rec(k, a + (i,))
    rec(root, ())
    return out


def address_of(roots, node):
    for r, root in enumerate(roots):
        if root is None:
            continue
        for n, a in live_nodes(root):
            if n is node:
                return (r, a)
    return None


def ser(node):
    """the observation of the property: iterate_segments() -> seg.format()"""
    return [x['segment'].format() for x in node.iterate_segments()]


def ser_struct(node):
    return [(x['segment'].get_seg_id(), seg_struct(x['segment'])) for x in node.iterate_segments()]


def ser_ids(node):
    return [id(x['segment']) for x in node.iterate_segments()]


def size(n):
    return 1 + sum(size(c) for c in n.children) if n.type == 'loop' else 1


# ------------------------------------------------------------------------------------ independent statements used by the oracle

def my_split_path(p):
    """independent reading of a designator 'SEG[Q]EE-S' used only on paths the generator built itself"""
    ups = 0
    while p.startswith('../'):
        p = p[3:]
        ups += 1
    return ups, p


def norm_value(v, sub_term, has_sub):
    """what get_value must return after set_value(v): a composite text loses trailing empty sub-elements"""
    if has_sub:
        return v
    parts = v.split(sub_term)
    while len(parts) > 1 and parts[-1] == '':
        parts.pop()
    return sub_term.join(parts)


def find_all_instances(start, loops, seg_id, qual, qkey_of):
    """every segment node below `start` reached by the loop ids `loops` (all instances) with id/qualifier"""
    nodes = [start]
    for lid in loops:
        nxt = []
        for n in nodes:
            for c in n.children:
                if c.type == 'loop' and c.x12_map_node.id == lid:
                    nxt.append(c)
        nodes = nxt
    out = []
    for n in nodes:
        for c in n.children:
            if c.type == 'seg' and c.x12_map_node.id == seg_id:
                if qual is None:
                    out.append(c)
                else:
                    k = qkey_of(c.x12_map_node)
                    if k is None:
                        out.append(c)
                    else:
                        ref = '%02d' % k[0] + ('-%d' % k[1] if k[1] else '')
                        if qual in k[2] and c.seg_data.get_value(ref) == qual:
                            out.append(c)
    return out


# ------------------------------------------------------------------------------------ one history

class History:
    def __init__(self, rnd, root, pool, case):
        self.rnd = rnd
        self.roots = [root]
        self.pool = pool              # [(segment text, map node)] of the document
        self.case = case
        self.menc = MapEnc(root.x12_map_node)
        init = []
        enc_tree(root, self.menc, init)
        self.init_tokens = init
        self.ops = []                 # (tokens of the op, real result string, real forest checksum)
        self.kinds = {}
        self.outcomes = {}
        self.findings = []            # (key, what, step)
        self.violation = None
        self.law_checks = 0
        self.delims = False

    # ---- choices
    def pick_node(self):
        rnd = self.rnd
        live = [i for i, r in enumerate(self.roots) if r is not None]
        r = 0 if (rnd.random() < 0.6 and self.roots[0] is not None) else rnd.choice(live)
        nodes = live_nodes(self.roots[r])
        loops = [x for x in nodes if x[0].type == 'loop']
        segs = [x for x in nodes if x[0].type == 'seg']
        if segs and (not loops or rnd.random() < 0.25):
            n, a = rnd.choice(segs)
        else:
            n, a = rnd.choice(loops)
        return r, n, a

    def gen_path(self, r, n, a):
        """a relative path string, mostly derived from what is really below (or above) the node; `meta` describes
        an unmutated path: (start node, loop ids, segment id, qualifier or None, element index or None)"""
        rnd = self.rnd
        ups = 0
        start = n
        depth = len(a)
        x = rnd.random()
        if x < 0.25 and depth > 0:
            ups = rnd.randint(1, depth)
        elif x < 0.30:
            ups = depth + rnd.randint(1, 2)
        if ups > depth and self.roots[r].parent is not None:
            ups = depth            # climbing above a detached copy's root is outside the model (probed separately)
        for _ in range(min(ups, depth)):
            start = start.parent
        loops = []
        cur = start
        while cur is not None and cur.type == 'loop' and rnd.random() < 0.55:
            kids = [c for c in cur.children if c.type == 'loop']
            if not kids:
                break
            c = rnd.choice(kids) if rnd.random() < 0.5 else kids[0]
            loops.append(c.x12_map_node.id)
            cur = c
        seg = None
        if cur is not None and cur.type == 'loop' and rnd.random() < 0.75:
            kids = [c for c in cur.children if c.type == 'seg']
            if kids:
                seg = rnd.choice(kids)
        if cur is not None and cur.type == 'seg':
            seg = cur
        parts = list(loops)
        tail = ''
        meta = None
        if seg is not None:
            sid = seg.x12_map_node.id
            tail = sid
            qual = None
            ele = None
            k = self.menc.qkey.get(id(seg.x12_map_node))
            if k is not None and rnd.random() < 0.5:
                ref = '%02d' % k[0] + ('-%d' % k[1] if k[1] else '')
                q = seg.seg_data.get_value(ref)
                y = rnd.random()
                if y < 0.8 and q and q.isalnum() and q.upper() == q:
                    qual = q
                elif y < 0.9:
                    qual = rnd.choice(k[2])
                else:
                    qual = 'ZZ9'
                tail += '[%s]' % qual
            if rnd.random() < 0.75:
                ne = len(seg.seg_data)
                ele = min(99, rnd.randint(1, max(1, ne + 1)) if rnd.random() < 0.9 else rnd.choice([0, 99, ne + 3]))
                tail += '%02d' % ele
                if rnd.random() < 0.2:
                    tail += '-%d' % rnd.choice([1, 1, 2, 3, 0])
            meta = (start, list(loops), sid, qual, ele)
            if cur.type == 'seg' and qual is None and rnd.random() < 0.5:
                tail = tail[len(sid):]      # on a segment node the id may be omitted
                meta = None
        # mutations towards invalid paths
        z = rnd.random()
        if z < 0.05 and parts:
            parts[rnd.randrange(len(parts))] = rnd.choice(['9999', 'ZZZ', '', '..', 'AK2', '02'])
            meta = None
        elif z < 0.08:
            tail = rnd.choice(['', 'ZZZ', 'ZZZ01', '[AB]01', '02', '-1', 'A', 'a1', 'CLM1', 'N1011', tail + '\n', tail + ' '])
            meta = None
        elif z < 0.10:
            parts.append(rnd.choice(['2400', 'X']))
            meta = None
        p = '/'.join(parts + [tail]) if (tail or rnd.random() < 0.5) else '/'.join(parts)
        if rnd.random() < 0.03:
            p = '/' + p
        if ups > depth:
            meta = None
        full = '../' * ups + p
        total, _ = my_split_path(full)
        while total > depth and self.roots[r].parent is not None:
            full = full[3:]        # (a mutated '..' loop id can add a climb)
            total -= 1
            meta = None
        return full, meta

    def gen_value(self):
        rnd = self.rnd
        x = rnd.random()
        if x < 0.05:
            return ''
        alpha = 'ABCXYZ0123456789 .-'
        if x < 0.12:
            alpha += ':'
        if x < 0.14:
            alpha += '*~'
        return ''.join(rnd.choice(alpha) for _ in range(rnd.randint(1, 6)))

    def seg_text_for(self, n, want_loop):
        """a segment text: usually one that the map places under `n` (as segment child / as anchor of a child loop)"""
        rnd = self.rnd
        here = n.x12_map_node.get_path()
        x = rnd.random()
        if x < 0.72:
            if want_loop:
                cands = [t for t, par, gpar, anchor in self.pool if anchor and gpar == here]
            else:
                cands = [t for t, par, gpar, anchor in self.pool if par == here]
            if cands:
                t = rnd.choice(cands)
                if rnd.random() < 0.3:
                    parts = t.rstrip('~').split('*')
                    i = rnd.randrange(1, len(parts)) if len(parts) > 1 else 0
                    if i:
                        parts[i] = self.gen_value().replace('*', '').replace('~', '')
                    t = '*'.join(parts) + ('~' if rnd.random() < 0.7 else '')
                return t
        if x < 0.92 and self.pool:
            return rnd.choice(self.pool)[0]
        return rnd.choice(['ZZZ*1~', 'ZZZ', '', 'REF', 'REF*~', '*A~', 'HL*1**20*1~', 'NM1*ZZ*1~'])

    def existing_seg_text(self, n):
        rnd = self.rnd
        kids = [c for c in n.children if c.type == 'seg']
        x = rnd.random()
        if kids and x < 0.7:
            c = rnd.choice(kids)
            t = c.seg_data.format()
            return t if rnd.random() < 0.8 else t.rstrip('~')
        if kids and x < 0.8:
            return kids[0].seg_data.format()
        return self.seg_text_for(n, False)

    # ---- canonical results
    def canon(self, v):
        p = px()
        if v is None:
            return 'N'
        if v is True:
            return 'B1'
        if v is False:
            return 'B0'
        if isinstance(v, int):
            return 'I%d' % v
        if isinstance(v, str):
            return 'S' + common.esc(v)
        if isinstance(v, p.x12context.X12DataNode):
            ad = address_of(self.roots, v)
            if ad is None:
                return 'A?'
            return 'A%d:%s' % (ad[0], '.'.join(str(i) for i in ad[1]))
        if isinstance(v, list):
            ads = [address_of(self.roots, x) for x in v]
            if any(a is None for a in ads):
                return 'L?'
            r = ads[0][0] if ads else self._cur_root
            return 'L%d:%s' % (r, ','.join('.'.join(str(i) for i in a[1]) for a in ads))
        return 'U' + type(v).__name__

    def call(self, f):
        try:
            v = f()
            if hasattr(v, '__next__'):
                v = list(v)
            return v, None
        except Exception as e:  # the exception class is part of the observation
            return None, e

    def outcome(self, v, e):
        if e is not None:
            return 'E' + type(e).__name__
        return self.canon(v)

    # ---- the laws, evaluated on the real code
    def fail(self, key, what):
        raise Violation(key, what)

    def check_queries(self, n, p):
        """exists / count / first / select agree with one another"""
        self.law_checks += 1
        ve, ee = self.call(lambda: n.exists(p))
        vc, ec = self.call(lambda: n.count(p))
        vf, ef = self.call(lambda: n.first(p))
        vs, es = self.call(lambda: n.select(p))
        errs = [type(x).__name__ if x is not None else None for x in (ee, ec, ef, es)]
        if n.type == 'seg' and es is None and ee is not None and errs[0] == errs[1] == errs[2]:
            # select() of a segment node never looks at the path
            self.findings.append(('pred:segment-node-select-ignores-path',
                                  'segment node %s: exists/count/first(%r) raise %s but select returns []'
                                  % (n.id, p, errs[0]), len(self.ops)))
            return
        if any(errs):
            if len(set(errs)) != 1:
                self.fail('pred:queries-disagree-on-exception', 'path %r: exists/count/first/select raised %r' % (p, errs))
            return
        if ve is not (vc > 0):
            self.fail('pred:exists-vs-count', 'path %r: exists=%r count=%r' % (p, ve, vc))
        if n.type == 'seg' and vc > 0 and (len(vs) == 0 or vf is None):
            # select() of a segment node ignores the path while exists()/count() follow '../'
            self.findings.append(('pred:segment-node-select-ignores-path',
                                  'segment node %s: exists(%r)=%r count=%r but select -> %d node(s), first -> %s'
                                  % (n.id, p, ve, vc, len(vs), 'None' if vf is None else 'node'), len(self.ops)))
            return
        if vc != len(vs):
            self.fail('pred:count-vs-select', 'path %r: count=%r len(select)=%r' % (p, vc, len(vs)))
        if (vf is not None) != ve:
            self.fail('pred:first-vs-exists', 'path %r: exists=%r first=%r' % (p, ve, vf))
        if vs and vf is not vs[0]:
            self.fail('pred:first-vs-select', 'path %r: first is not the head of select' % (p,))
        for x in vs:
            ad = address_of(self.roots, x)
            if x.type is None or ad is None:
                self.fail('pred:deleted-node-visible', 'path %r: select returned a deleted or detached node' % (p,))
            if ad[0] != self._cur_root:
                self.fail('pred:query-reaches-another-tree', 'path %r from a node of tree #%d returned a node of tree #%d'
                          % (p, self._cur_root, ad[0]))

    def others_snapshot(self, r):
        return [(i, ser(x)) for i, x in enumerate(self.roots) if x is not None and i != r]

    def check_others(self, snap, what):
        """copy independence: an edit made through one root changes no other root"""
        for i, s in snap:
            if self.roots[i] is not None and ser(self.roots[i]) != s:
                self.fail('pred:edit-leaks-into-another-tree', '%s changed the serialisation of tree #%d' % (what, i))

    def sibling_law(self, parent, new, what):
        """inserted node: after existing siblings of the same or an earlier position, before later ones"""
        kids = [c for c in parent.children if c.type is not None]
        if not any(c is new for c in kids):
            self.fail('pred:inserted-node-not-a-child', '%s: the new node is not a child of the target' % what)
        i = next(j for j, c in enumerate(kids) if c is new)
        p = new.x12_map_node.pos
        for c in kids[:i]:
            if c.x12_map_node.pos > p:
                self.fail('pred:insert-after-later-sibling', '%s: %s (pos %d) placed after %s (pos %d)' %
                          (what, new.x12_map_node.id, p, c.x12_map_node.id, c.x12_map_node.pos))
        for c in kids[i + 1:]:
            if c.x12_map_node.pos <= p:
                self.fail('pred:insert-before-earlier-sibling', '%s: %s (pos %d) placed before %s (pos %d)' %
                          (what, new.x12_map_node.id, p, c.x12_map_node.id, c.x12_map_node.pos))
        if new.parent is not parent:
            self.fail('pred:inserted-node-parent', '%s: parent link of the new node is not the target' % what)

    def offset_of(self, root, node):
        """number of serialised segments before `node` in `root` (own walk)"""
        cnt = [0]
        found = [None]
        def rec(n):
            if found[0] is not None:
                return
            if n is node:
                found[0] = cnt[0]
                return
            if n.type == 'seg':
                cnt[0] += 1
            elif n.type == 'loop':
                for k in n.children:
                    if k.type is not None:
                        rec(k)
        rec(root)
        return found[0]

    # ---- one step
    def step(self):
        rnd = self.rnd
        r, n, a = self.pick_node()
        self._cur_root = r
        root = self.roots[r]
        if n.type == 'seg':
            op = rnd.choice(['gv', 'gv', 'sv', 'sv', 'ex', 'ct', 'fi', 'se', 'cp'])
        else:
            op = rnd.choice(['gv', 'gv', 'sv', 'sv', 'sv', 'ex', 'ct', 'fi', 'se', 'as', 'as', 'al', 'al', 'an', 'an',
                             'ds', 'ds', 'dn', 'dn', 'cp'])
        if op == 'an':
            cands = [j for j, x in enumerate(self.roots) if x is not None and j != r and j != 0]
            if not cands:
                op = 'cp'
        if op in ('as', 'al', 'ds') and root.parent is not None:
            # _get_terminators() would climb above the root of a detached copy (into the original's tree) when no
            # node between `n` and that root has a segment child: outside the model, like ../ above such a root
            x, found = n, False
            while x is not None and not found:
                found = any(c.type == 'seg' for c in x.children)
                x = None if x is root else x.parent
            if not found:
                op = 'ct'
        addr_toks = [str(r), str(len(a))] + [str(i) for i in a]
        pre_ids = ser_ids(root)
        others = self.others_snapshot(r)
        v = e = None
        if op in ('gv', 'ex', 'ct', 'fi', 'se'):
            p, meta = self.gen_path(r, n, a)
            toks = [op] + addr_toks + [p]
            what = '%s(%r)' % (OP_NAME[op], p)
            self.check_queries(n, p)
            f = {'gv': n.get_value, 'ex': n.exists, 'ct': n.count, 'fi': n.first, 'se': n.select}[op]
            v, e = self.call(lambda: f(p))
            if ser_ids(root) != pre_ids:
                self.fail('pred:query-changed-tree', '%s changed the serialisation' % what)
            if op == 'gv' and e is None and v is None:
                self.check_first_instance(n, p, meta, what)
        elif op == 'dn':
            p, meta = self.gen_path(r, n, a)
            toks = [op] + addr_toks + [p]
            what = 'delete_node(%r)' % p
            tv, te = self.call(lambda: n.first(p))
            cnt, _ = self.call(lambda: n.count(p))
            tgt_ids = ser_ids(tv) if (te is None and tv is not None) else None
            tgt_off = self.offset_of(root, tv) if tgt_ids is not None else None
            if tgt_ids is not None and tgt_off is None:
                self.fail('pred:query-reaches-another-tree', 'first(%r) from a node of tree #%d returned a node outside that tree' % (p, r))
            v, e = self.call(lambda: n.delete_node(p))
            post_ids = ser_ids(root)
            if e is None:
                self.law_checks += 1
                if v is True:
                    if tgt_ids is None:
                        self.fail('pred:delete-without-first', '%s returned True although first() found nothing' % what)
                    want = pre_ids[:tgt_off] + pre_ids[tgt_off + len(tgt_ids):]
                    if pre_ids[tgt_off:tgt_off + len(tgt_ids)] != tgt_ids or post_ids != want:
                        self.fail('pred:delete-node-not-exactly-one',
                                  '%s: serialisation is not the old one minus the first matching node' % what)
                    if tv.type is not None:
                        self.fail('pred:deleted-node-still-live', '%s: the deleted node is still live' % what)
                    if n.type is not None:
                        c2, e2 = self.call(lambda: n.count(p))
                        if e2 is None and cnt is not None and c2 != cnt - 1:
                            self.fail('pred:deleted-node-visible', '%s: count went from %r to %r' % (what, cnt, c2))
                else:
                    if post_ids != pre_ids:
                        self.fail('pred:failed-delete-changed-tree', '%s returned False but the tree changed' % what)
                    if cnt:
                        self.fail('pred:delete-node-false-but-exists', '%s returned False although count=%r' % (what, cnt))
            elif post_ids != pre_ids:
                self.fail('pred:failed-delete-changed-tree', '%s raised but the tree changed' % what)
        elif op == 'sv':
            p, meta = self.gen_path(r, n, a)
            val = self.gen_value()
            toks = [op] + addr_toks + [p, val]
            what = 'set_value(%r, %r)' % (p, val)
            if '*' in val or '~' in val or (':' in val and '-' in p.split('/')[-1]):
                self.delims = True     # data containing its own delimiters: text round trips are outside the laws
            pre = ser(root)
            pre_st = ser_struct(root)
            v, e = self.call(lambda: n.set_value(p, val))
            post = ser(root)
            if e is None:
                self.law_checks += 1
                g, ge = self.call(lambda: n.get_value(p))
                self.check_get_set(n, p, val, g, ge, what)
                self.check_frame(pre_st, ser_struct(root), what)
            else:
                if post != pre:
                    self.fail('pred:failed-set-changed-tree', '%s raised %s but the tree changed' % (what, type(e).__name__))
                if type(e).__name__ == 'X12PathError':
                    self.check_first_instance(n, p, meta, what)
        elif op in ('as', 'al'):
            t = self.seg_text_for(n, op == 'al')
            toks = [op] + addr_toks + [t]
            what = '%s(%r)' % (OP_NAME[op], t)
            v, e = self.call(lambda: (n.add_segment(t) if op == 'as' else n.add_loop(t)))
            post_ids = ser_ids(root)
            if e is None:
                self.law_checks += 1
                if v is None:
                    self.fail('pred:add-returned-none', '%s returned None' % what)
                self.sibling_law(n, v, what)
                new_ids = ser_ids(v)
                off = self.offset_of(root, v)
                if len(new_ids) != 1 or post_ids != pre_ids[:off] + new_ids + pre_ids[off:]:
                    self.fail('pred:add-not-exactly-one',
                              '%s: serialisation is not the old one plus one segment at the new node' % what)
            elif post_ids != pre_ids:
                self.fail('pred:failed-add-changed-tree', '%s raised %s but the serialisation changed' % (what, type(e).__name__))
        elif op == 'an':
            j = rnd.choice(cands)
            src = self.roots[j]
            if rnd.random() < 0.75:
                # prefer a target whose map node is the map parent of the source
                fit = [(m, b) for m, b in live_nodes(root) if m.type == 'loop' and m.x12_map_node is src.x12_map_node.parent]
                if fit:
                    n, a = rnd.choice(fit)
                    addr_toks = [str(r), str(len(a))] + [str(i) for i in a]
            toks = [op] + addr_toks + [str(j)]
            what = 'add_node(<tree #%d: %s>)' % (j, src.x12_map_node.id)
            src_ids = ser_ids(src)
            others = [(i, s) for i, s in others if i != j]
            v, e = self.call(lambda: n.add_node(src))
            post_ids = ser_ids(root)
            if e is None:
                self.law_checks += 1
                self.roots[j] = None
                self.sibling_law(n, src, what)
                off = self.offset_of(root, src)
                if post_ids != pre_ids[:off] + src_ids + pre_ids[off:]:
                    self.fail('pred:add-node-not-exact', '%s: serialisation is not the old one plus the added subtree' % what)
            elif post_ids != pre_ids or ser_ids(src) != src_ids:
                self.fail('pred:failed-add-changed-tree', '%s raised %s but a tree changed' % (what, type(e).__name__))
        elif op == 'ds':
            t = self.existing_seg_text(n)
            toks = [op] + addr_toks + [t]
            what = 'delete_segment(%r)' % t
            kids = [c for c in n.children if c.type is not None]
            v, e = self.call(lambda: n.delete_segment(t))
            post_ids = ser_ids(root)
            if e is None:
                self.law_checks += 1
                if v is True:
                    left = set(post_ids)
                    gone = [i for i in pre_ids if i not in left]
                    if len(gone) != 1 or [i for i in pre_ids if i != gone[0]] != post_ids:
                        self.fail('pred:delete-segment-not-exactly-one', '%s: not exactly one segment removed' % what)
                    owner = [c for c in kids[1:] if c.type == 'seg' and id(c.seg_data) == gone[0]]
                    if not owner:
                        self.fail('pred:delete-segment-wrong-node', '%s: the removed segment was not a non-first child' % what)
                elif post_ids != pre_ids:
                    self.fail('pred:failed-delete-changed-tree', '%s returned False but the serialisation changed' % what)
            elif post_ids != pre_ids:
                self.fail('pred:failed-delete-changed-tree', '%s raised but the serialisation changed' % what)
        else:
            toks = [op] + addr_toks
            what = 'copy() of %s' % n.x12_map_node.id
            v, e = self.call(lambda: n.copy())
            if e is not None:
                self.fail('crash:%s:x12context.py:__copy__' % type(e).__name__,
                          '%s raised %s: %s' % (what, type(e).__name__, e))
            self.law_checks += 1
            self.roots.append(v)
            self.check_copy(n, v, what)
        self.check_others(others, '%s on tree #%d' % (what, r))
        res = self.outcome(v, e)
        self.ops.append((toks, res, forest_sum(self.roots), what))
        self.kinds[op] = self.kinds.get(op, 0) + 1
        ok = 'ok' if e is None else type(e).__name__
        if e is None and v is False:
            ok = 'false'
        if e is None and v is None and op in ('gv', 'fi'):
            ok = 'none'
        if e is None and op == 'se' and not v:
            ok = 'empty'
        self.outcomes[OP_NAME[op] + ':' + ok] = self.outcomes.get(OP_NAME[op] + ':' + ok, 0) + 1

    def check_copy(self, n, c, what):
        if c is n:
            self.fail('pred:copy-is-same-object', what)
        stack = [c]
        while stack:
            x = stack.pop()
            if x.type is not None and x.x12_map_node is None:
                self.fail('pred:copy-resurrects-deleted-node', '%s: a deleted child comes back as a live node without map node' % what)
            if x.type == 'loop':
                stack += list(x.children)
        if ser(c) != ser(n) and not self.delims:
            self.fail('pred:copy-serialises-differently', '%s: copy and original serialise differently' % what)
        mine = set(id(x) for x, _ in live_nodes(c))
        segs = set(ser_ids(c))
        for i, rt in enumerate(self.roots):
            if rt is None or rt is c:
                continue
            for x, _ in live_nodes(rt):
                if id(x) in mine:
                    self.fail('pred:copy-shares-node', '%s: a node object is shared with tree #%d' % (what, i))
            if segs & set(ser_ids(rt)):
                self.fail('pred:copy-shares-segment', '%s: a Segment object is shared with tree #%d' % (what, i))

    def check_get_set(self, n, p, val, g, ge, what):
        ups, rest = my_split_path(p)
        last = rest.split('/')[-1]
        m = REFDES.match(last.rstrip('\n') if last.endswith('\n') else last)
        if ge is not None:
            self.fail('pred:get-after-set-raises', '%s succeeded, then get_value raised %s' % (what, type(ge).__name__))
        has_sub = bool(m and m.group(4))
        if has_sub and n.type == 'loop' and int(m.group(4)[1:]) == 0:
            has_sub = False      # a loop node re-formats the designator: '-0' is dropped (whole element)
        want = norm_value(val, ':', has_sub)
        if g == want:
            return
        if m and m.group(2) and m.group(3) in ('00', '01', '02', '03'):
            return   # writing the qualifier element through a qualified path un-matches the segment (expected)
        self.fail('pred:get-after-set', '%s, then get_value -> %r (expected %r)' % (what, g, want))

    def check_frame(self, pre, post, what):
        """no other element of any segment changes (element structures, blank = absent)"""
        if len(pre) != len(post):
            self.fail('pred:set-changed-segment-count', '%s changed the number of segments' % what)
        diff = [i for i in range(len(pre)) if pre[i] != post[i]]
        if len(diff) > 1:
            self.fail('pred:set-changed-other-segment', '%s changed %d segments' % (what, len(diff)))
        if diff:
            (ida, a), (idb, b) = pre[diff[0]], post[diff[0]]
            m = max(len(a), len(b))
            a = a + [['']] * (m - len(a))
            b = b + [['']] * (m - len(b))
            d2 = [i + 1 for i in range(m) if a[i] != b[i]]
            if ida != idb or len(d2) > 1:
                self.fail('pred:set-changed-other-element', '%s changed elements %r of %s' % (what, d2, ida))

    def check_first_instance(self, n, p, meta, what):
        """the path was built from a segment that really is below the start node, yet get_value found nothing /
        set_value raised X12PathError: D35 when the segment sits in a later loop instance only"""
        if meta is None or n.type != 'loop':
            return
        start, loops, sid, qual, ele = meta
        if start.type != 'loop':
            return
        qk = lambda mn: self.menc.qkey.get(id(mn))
        found = find_all_instances(start, loops, sid, qual, qk)
        if not found:
            return
        cur = start
        for lid in loops:
            nxt = [c for c in cur.children if c.type == 'loop' and c.x12_map_node.id == lid] if cur is not None else []
            cur = nxt[0] if nxt else None
        in_first = [c for c in found if c.parent is cur]
        if in_first:
            if what.startswith('get_value') and ele is not None and \
                    (ele == 0 or ele > len(in_first[0].seg_data) or '-' in p.split('/')[-1]):
                return    # the segment is there, the element is not
            self.fail('pred:path-exists-but-get-set-fails', '%s on loop %s although the segment is in the first instances' % (what, n.id))
        self.findings.append(('pred:get-value-first-instance-only',
                              '%s on loop %s finds nothing although exists() is true: the segment is in a later %s instance'
                              % (what, n.id, '/'.join(loops)), len(self.ops)))

    def probes(self):
        """deterministic probes after a history: D12 (children of a copy keep the original's parent link) and the
        parent link of the root of a copy"""
        rnd = self.rnd
        for r, root in enumerate(self.roots):
            if root is None or root.type != 'loop':
                continue
            inner = [x for x, a in live_nodes(root) if x.type == 'loop' and len(a) >= 1
                     and any(c.type == 'seg' for c in x.parent.children)]
            if not inner:
                continue
            x = rnd.choice(inner)
            par = x.parent
            seg = next(c for c in par.children if c.type == 'seg')
            path = '../%s%02d' % (seg.x12_map_node.id, len(seg.seg_data) + 2)
            before = ser(root)
            self.law_checks += 1
            c, ce = self.call(lambda: par.copy())
            if ce is not None:
                self.fail('crash:%s:x12context.py:__copy__' % type(ce).__name__,
                          'copy() of loop %s raised %s: %s' % (par.id, type(ce).__name__, ce))
            cx = [k for k in c.children if k.type == 'loop' and k.x12_map_node is x.x12_map_node]
            if cx:
                v, e = self.call(lambda: cx[0].set_value(path, 'QQ1'))
                if ser(root) != before:
                    self.fail('pred:edit-on-copy-changes-original',
                              'c = <loop %s>.copy(); c.first(%r).set_value(%r, "QQ1") changed the original tree'
                              % (par.id, x.id, path))
                if e is None and ser(c) == ser(par):
                    self.fail('pred:edit-on-copy-lost', 'an edit through ../ inside the copy did not change the copy')
            c2, ce = self.call(lambda: x.copy())
            if ce is not None:
                self.fail('crash:%s:x12context.py:__copy__' % type(ce).__name__,
                          'copy() of loop %s raised %s: %s' % (x.id, type(ce).__name__, ce))
            v, e = self.call(lambda: c2.set_value(path, 'QQ2'))
            if ser(root) != before:
                self.findings.append(('pred:copy-root-keeps-original-parent',
                                      'c = <loop %s>.copy(); c.set_value(%r, "QQ2") edited loop %s of the original tree'
                                      % (x.id, path, par.id), len(self.ops)))
            return

    def probe_first_instance(self):
        """D35, looked for deterministically: a segment id present in a later instance of a repeated child loop but
        not in the first instance: exists() sees it, get_value()/set_value() do not"""
        for root in self.roots:
            if root is None or root.type != 'loop':
                continue
            for par, _ in live_nodes(root):
                if par.type != 'loop':
                    continue
                first = {}
                for c in par.children:
                    if c.type != 'loop':
                        continue
                    lid = c.x12_map_node.id
                    if lid not in first:
                        first[lid] = c
                        continue
                    have = set(k.x12_map_node.id for k in first[lid].children if k.type == 'seg')
                    for k in c.children:
                        if k.type == 'seg' and k.x12_map_node.id not in have:
                            p = '%s/%s01' % (lid, k.x12_map_node.id)
                            self.law_checks += 1
                            ex, e1 = self.call(lambda: par.exists(p))
                            g, e2 = self.call(lambda: par.get_value(p))
                            _, e3 = self.call(lambda: par.set_value(p, 'Q'))
                            if e1 is None and ex and e2 is None and g is None and type(e3).__name__ == 'X12PathError':
                                self.findings.append(('pred:get-value-first-instance-only',
                                                      'loop %s: exists(%r) is True, get_value -> None, set_value raises X12PathError '
                                                      '(the segment is in a later %s instance)' % (par.id, p, lid), len(self.ops)))
                            elif e1 is None and ex:
                                self.fail('pred:path-exists-but-get-set-fails',
                                          'loop %s: exists(%r) True, get_value -> %r / %s, set_value -> %s' %
                                          (par.id, p, g, type(e2).__name__, type(e3).__name__))
                            return

    def run(self, length):
        try:
            for _ in range(length):
                if not any(x is not None for x in self.roots):
                    break
                self.step()
            self.probes()
            self.probe_first_instance()
        except Violation as v:
            self.violation = v

    def line(self):
        toks = ['T10'] + self.menc.tokens + ['1'] + self.init_tokens + [str(len(self.ops))]
        for t, _, _, _ in self.ops:
            toks += t
        return '\t'.join(common.esc(t) for t in toks)

    def plain(self, doc):
        return {'case': self.case, 'ops': [(t, r, s, w) for t, r, s, w in self.ops], 'kinds': self.kinds,
                'outcomes': self.outcomes, 'findings': self.findings, 'law_checks': self.law_checks,
                'violation': (self.violation.key, self.violation.what) if self.violation is not None else None,
                'line': self.line(), 'doc': doc['text'], 'pool': doc['pool']}


# ------------------------------------------------------------------------------------ cases

def make_document(k, seed):
    """document number k of a run: map = k-th selectable index entry (round robin), generator options from the seed"""
    from . import gendoc
    rnd = random.Random(seed)
    ents = gendoc.index_entries()
    m = ents[k % len(ents)]
    g = gendoc.Gen(m['map_file'], m['icvn'], m['vriic'], m['fic'], seed=rnd.randrange(1 << 30),
                   p_opt=rnd.choice([0.1, 0.2, 0.35, 0.5]), max_rep=rnd.choice([1, 2, 2, 3]), tspc=m['tspc'])
    text = g.doc()
    pool = []
    lids = []
    for s, mn in g.segs:
        par = mn.parent
        gpar = getattr(par, 'parent', None)
        anchor = bool(par is not None and par.is_loop() and par.get_first_seg() is mn)
        pool.append((s.format(), par.get_path(), gpar.get_path() if gpar is not None and hasattr(gpar, 'get_path') else '', anchor))
        x = par
        while x is not None and hasattr(x, 'pos_map') and x.is_loop():
            if x.id not in lids and x.id != 'ISA_LOOP':
                lids.append(x.id)
            x = x.parent
    return {'map': m['map_file'], 'text': text, 'pool': pool, 'loops': lids}


def one_map(t):
    """all nodes of the tree hang off one loaded map object (a 278 document switches maps at BHT: such a tree mixes
    nodes of two map objects and is outside the model, which gives a tree one map)"""
    try:
        enc_tree(t, MapEnc(t.x12_map_node), [])
        return True
    except KeyError:
        return False


def choose_trees(doc, rnd, want):
    """(loop id, tree index, size) of up to `want` trees of moderate size, several loop ids"""
    pref = [l for l in LOOP_PREF if l in doc['loops']]
    rest = [l for l in doc['loops'] if l not in LOOP_PREF]
    rnd.shuffle(rest)
    out = []
    for lid in (pref + rest)[:9]:
        try:
            ts = read_trees(doc['text'], lid)
        except common.Infra:
            raise
        except Exception:
            continue      # reader defects belong to C09 (D10, D11)
        cand = [(lid, i, size(t)) for i, t in enumerate(ts) if one_map(t)]
        cand = [c for c in cand if 3 <= c[2] <= MAX_NODES]
        rnd.shuffle(cand)
        out += cand[:2]
    rnd.shuffle(out)
    return out[:want]


def worker(job):
    doc, lid, idx, seed, length = job
    rnd = random.Random(seed)
    root = read_trees(doc['text'], lid)[idx]
    h = History(rnd, root, doc['pool'], {'map': doc['map'], 'loop': lid, 'tree': idx, 'seed': seed, 'length': length})
    h.run(length)
    return h.plain(doc)


def evaluate(res, hs, built):
    """model comparison + reporting for a list of finished histories (plain dicts)"""
    outs = common.run_model([h['line'] for h in hs]) if built else None
    for k, h in enumerate(hs):
        case = h['case']
        res.count(len(h['ops']) + h['law_checks'])
        res.distinct((case['map'], case['loop'], case['tree'], case['seed']), nontrivial=len(h['ops']) > 0)
        replay = dict(case)
        replay['doc'] = h['doc']
        replay['pool'] = h['pool']
        replay['calls'] = ['%s @%s' % (w, '.'.join(t[1:3 + int(t[2])])) for t, _, _, w in h['ops']]
        for key, what, step in h['findings']:
            rp = dict(replay)
            rp['step'] = step
            res.violation(key, '%s / loop %s: %s' % (case['map'], case['loop'], what), rp)
        if h['violation'] is not None:
            rp = dict(replay)
            rp['step'] = len(h['ops'])
            rp['observed'] = h['violation'][1]
            res.violation(h['violation'][0], '%s / loop %s: %s' % (case['map'], case['loop'], h['violation'][1]), rp)
        if outs is None:
            continue
        o = outs[k].split('\t')
        if len(o) < 2 * len(h['ops']):
            res.broke('correspondence:DataTree.driver', 'history %r: driver answered %r' % (case, outs[k][:200]))
            continue
        for i, (toks, real, hsum, what) in enumerate(h['ops']):
            mres, msum = o[2 * i], o[2 * i + 1]
            if mres != real or msum != str(hsum):
                res.broke('correspondence:DataTree.%s' % OP_NAME[toks[0]],
                          '%s loop %s tree %d seed %d len %d step %d: %s on node %s -> impl %s / model %s; tree dump %s' %
                          (case['map'], case['loop'], case['tree'], case['seed'], case['length'], i, what,
                           '.'.join(toks[1:3 + int(toks[2])]), real, mres, 'equal' if msum == str(hsum) else 'DIFFERENT'))
                break


def doc_job(args):
    """all histories of one document (runs in a worker process in the thorough tier)"""
    k, seed, per_doc = args
    rnd = random.Random(seed)
    doc = make_document(k, rnd.randrange(1 << 30))
    trees = choose_trees(doc, rnd, 6)
    out = []
    for i in range(per_doc if trees else 0):
        lid, idx, _ = trees[i % len(trees)]
        out.append(worker((doc, lid, idx, rnd.randrange(1 << 30), rnd.choice([6, 15, 25, 40, 40]))))
    return out


def plan(tier, rnd):
    ndocs = 44 if tier == 'quick' else 880
    per_doc = 9 if tier == 'quick' else 46
    return [(k, rnd.randrange(1 << 30), per_doc) for k in range(ndocs)]


def run(tier):
    res = common.Result('C10', tier)
    res.cov['rule'] = ('a case is one history: (map, loop id, tree index, seed) -> <= 40 API calls on a tree read by '
                       'X12ContextReader.iter_segments from a generated document; evaluations = API calls compared with the '
                       'model + law evaluations on the real code; non-trivial = at least one call executed')
    px()
    built = common.proof_stage(res, 'C10')
    rnd = random.Random(common.seed() * 104729 + 10)
    jobs = plan(tier, rnd)
    kinds, outcomes, loops, maps = {}, {}, {}, {}
    nops = nhist = 0
    pool = None
    if tier == 'thorough':
        import multiprocessing
        pool = multiprocessing.get_context('fork').Pool(min(16, os.cpu_count() or 1))
    try:
        for b in range(0, len(jobs), 64):
            part = jobs[b:b + 64]
            per_doc = pool.map(doc_job, part, chunksize=1) if pool is not None else [doc_job(j) for j in part]
            hs = [h for lst in per_doc for h in lst]
            evaluate(res, hs, built)
            nhist += len(hs)
            for h in hs:
                nops += len(h['ops'])
                for k, v in h['kinds'].items():
                    kinds[k] = kinds.get(k, 0) + v
                for k, v in h['outcomes'].items():
                    outcomes[k] = outcomes.get(k, 0) + v
                c = h['case']
                loops[c['loop']] = loops.get(c['loop'], 0) + 1
                maps[c['map']] = maps.get(c['map'], 0) + 1
                if len(res.cov['samples']) < 5 and len(h['ops']) > 5:
                    res.sample({'map': c['map'], 'loop': c['loop'], 'seed': c['seed'],
                                'calls': [w for _, _, _, w in h['ops'][:6]], 'results': [r for _, r, _, _ in h['ops'][:6]]})
    finally:
        if pool is not None:
            pool.terminate()
    res.notes['histories'] = nhist
    res.notes['documents'] = len(jobs)
    res.notes['api_calls'] = nops
    res.notes['op_distribution'] = {OP_NAME[k]: v for k, v in sorted(kinds.items())}
    res.notes['outcome_kinds'] = dict(sorted(outcomes.items()))
    res.notes['trees_by_loop_id'] = dict(sorted(loops.items()))
    res.notes['trees_by_map'] = dict(sorted(maps.items()))
    res.notes['exhaustive'] = False
    res.assumptions = [
        'calls are made on live nodes of a tree (not on tombstones or swept objects); add_node is given a detached copy',
        'on a detached copy of an inner node no path climbs above the copy\'s root (probed separately: pred:copy-root-keeps-original-parent)',
        'no ISA segment inside a tree (loop ids below ISA_LOOP); terminators are single characters; all nodes of a tree belong to one loaded map (no 278 map switch inside the tree)',
        'add_segment / add_loop / delete_segment are given strings (the Segment-object form only skips the parse)',
        'get_set law: the written element is not the qualifier element named in the path',
    ]
    return res.finish(trusted=common.TRUSTED_COMMON + [
        'modelled: X12DataNode/X12LoopDataNode/X12SegmentDataNode API, X12Path parse/format, Segment parse/format/get/set/copy/==',
        'map abstracted to plain data read from the loaded map: id, pos, parent ids, childIterator order, is_match / is_match_qual key rules',
        'harness reads the anchored state children / type / parent / seg_data / x12_map_node to map object identity to addresses',
    ])


def replay(d):
    """re-run the recorded history (same generator, same seed) on the recorded document"""
    r = d['replay']
    px()
    doc = {'map': r['map'], 'text': r['doc'], 'pool': [tuple(x) for x in r['pool']], 'loops': []}
    h = worker((doc, r['loop'], r['tree'], r['seed'], r['length']))
    for i, (toks, real, _, what) in enumerate(h['ops']):
        print('  %2d node %s: %s -> %s' % (i, '.'.join(toks[1:3 + int(toks[2])]), what, real))
    key = d.get('key')
    hit = False
    for k, what, step in h['findings']:
        print('finding-class %s at step %d: %s' % (k, step, what))
        hit = hit or k == key
    if h['violation'] is not None:
        print('VIOLATION %s: %s' % h['violation'])
        return 1
    if hit:
        print('reproduced: %s' % key)
        return 1
    print('not reproduced on this working tree')
    return 0
