"""
C01 - tokenisation is lossless and independent of read chunking and source kind.

Theorems (lean/Pyx12Verif/Props/C01.lean): the model of RawX12File / X12Reader.__iter__ / Segment parse+format
yields, for every text and every read-size oracle, exactly the declarative split; split/join, parse/format and
re-read laws.  Tie: generated interchange texts are read
  (a) by pyx12.x12file.X12Reader over an io.StringIO subclass whose read(n) follows a size oracle,
  (b) by pyx12.x12file.X12Reader given the PATH of a file under /verif/work,
  (c) by the compiled Lean model (same text, same oracle; and the oracle-free specification),
and compared per segment on id, every element / sub-element value (get_value), seg.format() and the reader's
error codes; the property oracle is an independent Python splitter (`oracle`).

Domain of the property oracle (`in_domain`): header accepted; delimiters pairwise distinct, element and component
separators not CR/LF/blank, terminator not blank; CR and LF occur only directly after a terminator (or are the
terminator); a leading blank run consists of spaces only.  Texts outside it are still run code-vs-model.
Source kinds: an open text stream is read as is.  A path is opened by pyx12 in text mode, which applies Python's
universal-newline translation (CR and CRLF become LF): the path result is required to equal the oracle on the
translated text, and to equal the stream result on ids, values and error codes (format() may differ only in the
terminator character, when the terminator itself is CR).  Path reads are made for ASCII texts only (the code
opens with encoding='ascii').
"""
import io
import itertools
import os
import random
import re
import resource
import traceback

from . import common

ISA_LEN = 106
BUF = 8192
TRIPLES = [('~', '*', ':'), ('!', '|', '>'), ('#', '+', '\\'), ("'", '+', ':'), ('\n', '*', ':'), ('\r', '*', '>'),
           ('\x1c', '\x1d', '\x1f'), ('~', '*', '^')]
BREAKS = ['', '\n', '\r', '\r\n']
DATA = 'ABCDEFGHIJKLMNOPQRSTUVWXYZ0123456789abcxyz .,-/()&_%$@=?;"<[]{}`'
NONASCII = '\xe9\x85\xa0Ω中 \U0001f600'
IDS = ['NM1', 'N3', 'N4', 'REF', 'DTP', 'CLM', 'SV1', 'PER', 'DMG', 'AMT', 'QTY', 'K3', 'NTE', 'PWK', 'CR1', 'BHT', 'SBR',
       'PAT', 'HI', 'TA1', 'A1', 'ZZ9']
ODD_IDS = ['ab', 'X', 'ABCD', 'N-1', '1AB', 'nm1', 'A B']


# ------------------------------------------------------------------------------------ property oracle

def rstrip_empty(lst):
    lst = list(lst)
    while lst and lst[-1] == '':
        lst.pop()
    return lst


def oracle_format(term, ele, sub, sid, elems):
    """documented normalisation: trailing empty sub-elements and trailing empty elements trimmed"""
    comps = rstrip_empty([sub.join(rstrip_empty(c)) for c in elems])
    return sid + ele + ele.join(comps) + term


def header_of(text):
    head = text[:ISA_LEN]
    if head[:3] != 'ISA' or len(head) < ISA_LEN or head[84:89] not in ('00401', '00501'):
        return None
    return {'term': head[105], 'ele': head[3], 'sub': head[104], 'rep': head[82] if head[84:89] == '00501' else None,
            'icvn': head[84:89]}


def oracle(text):
    """Independent statement of the first sentence of C01: the non-empty segments delimited by the declared
    terminator, elements / components split only at the declared separators (never inside ISA), values verbatim;
    line breaks after a terminator and leading blanks dropped (the latter with error 1), trailing element
    separator reported (SEG1)."""
    h = header_of(text)
    if h is None:
        return None
    term, ele, sub = h['term'], h['ele'], h['sub']
    segs = []
    pend = []
    empties = 0
    pend_after_empty = False
    pieces = text.split(term)
    for piece in pieces[:-1]:          # the unterminated tail is not a segment
        body = re.sub(r'\A[\r\n]+', '', piece)
        if body == '':
            empties += 1
            continue
        errs, pend = pend, []
        if body[0] == ' ':
            errs = errs + ['1']
            body = body.lstrip(' ')
            if body == '':
                pend = errs
                pend_after_empty = pend_after_empty or empties > 0
                empties += 1
                continue
        if body[-1] == ele:
            errs = errs + ['SEG1']
        parts = body.split(ele)
        sid = parts[0]
        elems = [[p] for p in parts[1:]] if sid == 'ISA' else [p.split(sub) for p in parts[1:]]
        segs.append({'errs': errs, 'id': sid, 'elems': elems, 'fmt': oracle_format(term, ele, sub, sid, elems),
                     'cfmt': [(sub if sid != 'ISA' else ele).join(rstrip_empty(c)) for c in elems],
                     'after_empty': empties > 0, 'rawlen': len(piece)})
        empties = 0
    return {'st': 'ok', 'delims': (term, ele, sub, h['rep'], h['icvn']), 'segs': segs, 'pend': pend,
            'pend_after_empty': pend_after_empty and bool(pend)}


def in_domain(text):
    h = header_of(text)
    if h is None:
        return False
    term, ele, sub = h['term'], h['ele'], h['sub']
    if len({term, ele, sub}) != 3 or ele in '\r\n ' or sub in '\r\n ' or term == ' ':
        return False
    if term in text[:ISA_LEN - 1] or text[:ISA_LEN].count(ele) != 16:
        return False          # not a well-formed ISA header: 16 elements, terminated at offset 105
    for piece in text.split(term):
        body = piece.lstrip('\r\n')
        if '\r' in body or '\n' in body:
            return False
        if body[:1] == ' ' and body.lstrip(' ') != body.lstrip():
            return False
    return True


def translate_newlines(text):
    return text.replace('\r\n', '\n').replace('\r', '\n')


# ------------------------------------------------------------------------------------ real code

class OracleIO(io.StringIO):
    """open text stream whose read(n) returns at most the next oracle size (exhausted oracle: full reads)"""

    def __init__(self, text, sizes):
        io.StringIO.__init__(self, text)
        self._sizes = sizes
        self._i = 0
        self.short_reads = 0

    def read(self, n=-1):
        if n is None or n < 0:
            n = 1 << 60
        k = n
        if self._i < len(self._sizes):
            k = min(n, self._sizes[self._i])
        self._i += 1
        data = io.StringIO.read(self, k)
        if k < n and len(data) == k:
            self.short_reads += 1
        return data


def crash_key(exc):
    tb = traceback.extract_tb(exc.__traceback__)
    fn, func = '?', '?'
    for fr in tb:
        if '/pyx12/' in fr.filename.replace('\\', '/'):
            fn, func = os.path.basename(fr.filename), fr.name
    return 'crash:%s:%s:%s' % (type(exc).__name__, fn, func)


def obs_seg(rd, seg, k):
    n = len(seg)
    elems, cfmt = [], []
    for i in range(1, min(n, 99) + 1):
        comp = []
        j = 1
        while True:
            v = seg.get_value('%02d-%d' % (i, j))
            if v is None:
                break
            comp.append(v)
            j += 1
        elems.append(comp)
        cfmt.append(seg.get_value('%02d' % i))
    allerr = [(e[1], e[4]) for e in rd.pop_errors() if e[0] == 'seg' and e[1] not in ('HL1', 'HL2', 'LX')]
    # errors of the envelope bookkeeping (X12Base._parse_segment, not part of C01) come last: '8' empty, '1' bad id
    base = (['8'] if seg.is_empty() else []) + (['1'] if not seg.is_seg_id_valid() else [])
    codes = [c for c, _ in allerr]
    if base and codes[len(codes) - len(base):] == base:
        codes = codes[:len(codes) - len(base)]
    elif base:
        codes = codes + ['?base']
    if any(ln != k for _, ln in allerr):
        codes = codes + ['?src_line']
    return {'errs': codes, 'id': seg.get_seg_id(), 'elems': elems, 'fmt': seg.format(), 'cfmt': cfmt, 'n': n}


def observe(src):
    """X12Reader(src), complete iteration, errors popped after every segment"""
    try:
        import pyx12.x12file
        import pyx12.errors
        Reader = pyx12.x12file.X12Reader
        X12Error = pyx12.errors.X12Error
    except (ImportError, AttributeError) as e:
        raise common.Infra('entry point missing: %r' % e)
    try:
        rd = Reader(src)
    except X12Error as e:
        return {'st': 'error', 'key': crash_key(e)}
    except Exception as e:
        return {'st': 'crash', 'key': crash_key(e), 'segs': []}
    out = []
    try:
        delims = (rd.seg_term, rd.ele_term, rd.subele_term, rd.repetition_term, rd.icvn)
    except AttributeError as e:
        raise common.Infra('entry point missing: %r' % e)
    try:
        k = 0
        for seg in rd:
            k += 1
            out.append(obs_seg(rd, seg, k))
        pend = [e[1] for e in rd.pop_errors() if e[0] == 'seg']
    except Exception as e:
        return {'st': 'crash', 'key': crash_key(e), 'segs': out, 'delims': delims}
    return {'st': 'ok', 'delims': delims, 'segs': out, 'pend': pend}


def read_stream(text, sizes):
    f = OracleIO(text, sizes)
    o = observe(f)
    o['short_reads'] = f.short_reads
    return o


def read_path(text, tag):
    path = os.path.join(common.WORK, 'c01_%s.x12' % tag)
    with open(path, 'wb') as f:
        f.write(text.encode('ascii'))
    try:
        return observe(path)
    finally:
        try:
            os.remove(path)
        except OSError:
            pass


# ------------------------------------------------------------------------------------ model

def model_line_read(text, sizes):
    return common.line('C01R', text, ','.join(str(k) for k in sizes))


def model_line_spec(text):
    return common.line('C01P', text)


def parse_segs(f, p, n, with_errs):
    segs = []
    for _ in range(n):
        errs = []
        if with_errs:
            errs = [x for x in f[p].split(',') if x]
            p += 1
        sid, fmt, ne = f[p], f[p + 1], int(f[p + 2])
        p += 3
        elems = []
        for _ in range(ne):
            ns = int(f[p])
            elems.append(f[p + 1:p + 1 + ns])
            p += 1 + ns
        segs.append({'errs': errs, 'id': sid, 'elems': elems, 'fmt': fmt[1:] if fmt[:1] == '=' else None})
    return segs, p


def parse_model(line):
    f = [common.unesc(x) for x in line.split('\t')]
    if f[0] == 'E':
        return {'st': 'error', 'kind': f[1]}
    if f[0] != 'K':
        raise common.Infra('model: ' + line[:200])
    term, ele, sub, rep, icvn, crashed, pend, n = f[1:9]
    segs, _ = parse_segs(f, 9, int(n), True)
    return {'st': 'crash' if crashed == '1' else 'ok', 'delims': (term, ele, sub, rep[1:] if rep[:1] == '+' else None, icvn),
            'segs': segs, 'pend': [x for x in pend.split(',') if x]}


# ------------------------------------------------------------------------------------ comparison

def seg_core(s):
    return (tuple(s['errs']), s['id'], tuple(tuple(c) for c in s['elems']), s['fmt'], s.get('n', len(s['elems'])))


def same_obs(a, b, fmt=True):
    """two observations agree (status, delimiters, per segment errs/id/values/format, pending errors)"""
    if a['st'] != b['st']:
        return False
    if a['st'] == 'error':
        return True
    if a.get('delims') != b.get('delims') and fmt:
        return False
    if len(a['segs']) != len(b['segs']):
        return False
    for x, y in zip(a['segs'], b['segs']):
        cx, cy = seg_core(x), seg_core(y)
        if not fmt:
            cx, cy = cx[:3] + (cx[3][:-1],) + cx[4:], cy[:3] + (cy[3][:-1],) + cy[4:]
        if cx != cy:
            return False
    return a.get('pend', []) == b.get('pend', [])


def outside_c01(got):
    """the envelope bookkeeping (X12Base/X12Reader._parse_segment, properties C04/C07) raised: not a C01 observation"""
    return got['st'] == 'crash' and got['key'].endswith(':_parse_segment')


def summary(o, limit=6):
    if o is None:
        return None
    if o['st'] == 'error':
        return 'X12Error from the constructor (%s)' % o.get('key', o.get('kind'))
    s = '%d segment(s)' % len(o['segs'])
    if o['st'] == 'crash':
        s += ' then %s' % o.get('key', 'crash')
    s += ': ' + ' '.join(repr(x['fmt']) for x in o['segs'][:limit])
    if len(o['segs']) > limit:
        s += ' ... ' + repr(o['segs'][-1]['fmt'])
    errs = [(i + 1, x['errs']) for i, x in enumerate(o['segs']) if x['errs']][:limit]
    if errs:
        s += ' errors=' + repr(errs)
    if o.get('pend'):
        s += ' pending=' + repr(o['pend'])
    return s[:1500]


def classify(got, want, short_reads):
    """rule-like key of the way `got` (real code) departs from `want` (property oracle); None when it does not"""
    if got['st'] in ('error', 'crash'):
        return got['key']
    gs, ws = got['segs'], want['segs']
    if got['delims'] != want['delims']:
        return 'pred:delimiters-differ'
    n = 0
    while n < len(gs) and n < len(ws) and seg_core(gs[n]) == seg_core(ws[n]) and gs[n]['cfmt'] == ws[n]['cfmt']:
        n += 1
    if n == len(gs) and n == len(ws):
        if got['pend'] == want['pend']:
            return None
        return 'pred:stops-at-empty-segment' if want.get('pend_after_empty') else 'pred:pending-errors-differ'
    if n == len(gs):
        nxt = ws[n]
        if nxt['after_empty']:
            return 'pred:stops-at-empty-segment'
        if short_reads:
            return 'pred:stops-after-short-read'
        if nxt['rawlen'] >= BUF - ISA_LEN or any(w['rawlen'] >= BUF - ISA_LEN for w in ws[:n]):
            return 'pred:stops-at-segment-longer-than-buffer'
        return 'pred:segments-dropped'
    if n == len(ws):
        return 'pred:extra-segments'
    g, w = gs[n], ws[n]
    if (g['id'], g['elems']) != (w['id'], w['elems']):
        return 'pred:segment-value-differs'
    if g['errs'] != w['errs']:
        return 'pred:reader-errors-differ'
    return 'pred:format-differs'


# ------------------------------------------------------------------------------------ generators

def make_header(rnd, triple, icvn, alpha, sub_in_isa):
    term, ele, sub = triple

    def fld(n, pool=None):
        pool = pool or alpha
        s = ''.join(rnd.choice(pool) for _ in range(rnd.randint(0, n)))
        if sub_in_isa and n >= 10 and rnd.random() < 0.7:
            s = (s[:3] + sub + s[3:])[:n]
        return s.ljust(n)
    digits = '0123456789'
    rep = rnd.choice('^' + '{}[]') if icvn == '00501' else 'U'
    if rep in triple:
        rep = '\x1e'
    f = ['00', fld(10), '00', fld(10), 'ZZ', fld(15), 'ZZ', fld(15), fld(6, digits).replace(' ', '0'),
         fld(4, digits).replace(' ', '0'), rep, icvn, ''.join(rnd.choice(digits) for _ in range(9)), rnd.choice('01'),
         rnd.choice('PT'), sub]
    head = 'ISA' + ele + ele.join(f) + term
    assert len(head) == ISA_LEN, (len(head), head)
    return head


def rand_value(rnd, alpha, maxlen=12):
    n = rnd.choice((0, 0, 1, 1, 2, 3, 5, 8, maxlen))
    return ''.join(rnd.choice(alpha) for _ in range(n))


def rand_segment(rnd, triple, alpha, feats, ids=IDS):
    """one segment body (no terminator)"""
    term, ele, sub = triple
    sid = rnd.choice(ids)
    if rnd.random() < 0.04:
        sid = rnd.choice(ODD_IDS)
        feats.add('odd_id')
    ne = rnd.choice((0, 1, 2, 3, 4, 5, 6, 9, 12, 17))
    elems = []
    for _ in range(ne):
        r = rnd.random()
        if r < 0.2:
            elems.append('')
        elif r < 0.75:
            elems.append(rand_value(rnd, alpha))
        else:
            comp = [rand_value(rnd, alpha, 6) for _ in range(rnd.randint(2, 5))]
            if rnd.random() < 0.3:
                comp += [''] * rnd.randint(1, 2)
                feats.add('trailing_component_sep')
            elems.append(sub.join(comp))
            feats.add('composite')
    body = ele.join([sid] + elems)
    if elems and elems[-1] == '':
        feats.add('trailing_sep')
    elif rnd.random() < 0.08:
        body += ele * rnd.randint(1, 3)
        feats.add('trailing_sep')
    if '' in elems[:-1]:
        feats.add('empty_element')
    return body


def long_segment(rnd, triple, alpha, length, feats):
    """segment body of exactly `length` characters (length >= 8)"""
    term, ele, sub = triple
    sid = rnd.choice(IDS)
    body = sid + ele
    mode = rnd.choice(('one', 'many', 'comp'))
    while len(body) < length:
        room = length - len(body)
        if mode == 'one':
            body += ''.join(rnd.choice(alpha) for _ in range(room))
        else:
            k = min(room, rnd.randint(max(1, length // 80), max(2, length // 40)))
            body += ''.join(rnd.choice(alpha) for _ in range(k))
            if len(body) < length:
                body += ele if (mode == 'many' or rnd.random() < 0.5) else sub
    if body[-1] == ' ':
        body = body[:-1] + 'X'
    if body[-1] == ele:
        feats.add('trailing_sep')
    return body


def assemble(rnd, header, bodies, triple, brk_style, feats, p_blank=0.0, p_empty=0.0, p_blankonly=0.0):
    term = triple[0]

    def brk():
        if brk_style == 'mixed':
            return rnd.choice(BREAKS)
        return brk_style
    out = [header, brk()]
    for b in bodies:
        if rnd.random() < p_empty:
            for _ in range(rnd.randint(1, 3)):
                out.append(term + brk())
            feats.add('empty_segment')
        if rnd.random() < p_blankonly:
            out.append(' ' * rnd.randint(1, 4) + term + brk())
            feats.add('blank_only_segment')
        if rnd.random() < p_blank:
            out.append(' ' * rnd.randint(1, 3))
            feats.add('leading_blank')
        out.append(b + term + brk())
    return ''.join(out)


def gen_text(rnd, tier, want_huge=False):
    """returns (text, meta)"""
    feats = set()
    triple = rnd.choice(TRIPLES) if rnd.random() < 0.85 else None
    pool = DATA
    if rnd.random() < 0.06:
        pool = DATA + NONASCII
        feats.add('non_ascii')
    if triple is None:
        cand = [c for c in '~*:!|>#+\\^<\'`{}\x15\x1e\x07' if True]
        triple = tuple(rnd.sample(cand, 3))
    alpha = [c for c in pool if c not in triple]
    icvn = rnd.choice(('00401', '00501'))
    brk_style = rnd.choice(BREAKS + ['mixed', '\n'])
    header = make_header(rnd, triple, icvn, [c for c in alpha if ord(c) < 128], rnd.random() < 0.5)
    kind = 'huge' if want_huge else rnd.choices(
        ('plain', 'envelope', 'straddle', 'long', 'tiny', 'outside'), (34, 10, 20, 14, 10, 12))[0]
    p_blank = rnd.choice((0, 0, 0.1, 0.3))
    p_empty = rnd.choice((0, 0, 0.05, 0.3))
    p_bo = rnd.choice((0, 0, 0, 0.05, 0.2))
    term, ele, sub = triple
    bodies = []
    if kind in ('plain', 'outside'):
        bodies = [rand_segment(rnd, triple, alpha, feats) for _ in range(rnd.randint(2, 40))]
    elif kind == 'envelope':
        inner = [rand_segment(rnd, triple, alpha, feats) for _ in range(rnd.randint(1, 20))]
        bodies = [ele.join(['GS', 'HC', 'S', 'R', '20200101', '1200', '7', 'X', '004010X098A1']),
                  ele.join(['ST', '837', '0001'])] + inner + \
                 [ele.join(['SE', str(len(inner) + 2), '0001']), ele.join(['GE', '1', '7']), ele.join(['IEA', '1', header[90:99]])]
    elif kind == 'tiny':
        bodies = [rand_segment(rnd, triple, alpha, feats) for _ in range(rnd.randint(0, 2))]
    elif kind == 'long':
        for _ in range(rnd.randint(1, 3)):
            bodies += [rand_segment(rnd, triple, alpha, feats) for _ in range(rnd.randint(0, 4))]
            ln = rnd.choice((8085, 8086, 8087, 8190, 8191, 8192, 8193, 8300, 16383, 16384, 16385, 20000, rnd.randint(8192, 30000)))
            bodies.append(long_segment(rnd, triple, alpha, ln, feats))
        bodies += [rand_segment(rnd, triple, alpha, feats) for _ in range(rnd.randint(1, 4))]
    elif kind == 'huge':
        total = 0
        goal = rnd.randint(66000, 140000)
        while total < goal:
            b = long_segment(rnd, triple, alpha, rnd.choice((300, 1500, 4000, 8192, 9000, 17000)), feats)
            bodies.append(b)
            total += len(b) + 1
            if rnd.random() < 0.5:
                b = rand_segment(rnd, triple, alpha, feats)
                bodies.append(b)
                total += len(b) + 1
    text = None
    if kind == 'straddle':
        # place a terminator / an element at a multiple of 8192 (+-3)
        k = rnd.choice((1, 1, 2, 3))
        target = k * BUF + rnd.randint(-3, 3)
        pre = [rand_segment(rnd, triple, alpha, feats) for _ in range(rnd.randint(0, 3))]
        brk = brk_style if brk_style != 'mixed' else '\n'
        cur = ISA_LEN + len(brk) + sum(len(b) + 1 + len(brk) for b in pre)
        fill = []
        while target - cur > 600:
            ln = rnd.randint(200, 500)
            fill.append(long_segment(rnd, triple, alpha, ln, feats))
            cur += ln + 1 + len(brk)
        room = target - cur      # the next segment's terminator goes exactly to offset `target`
        if room >= 8:
            fill.append(long_segment(rnd, triple, alpha, room, feats))
        post = [rand_segment(rnd, triple, alpha, feats) for _ in range(rnd.randint(1, 5))]
        bodies = pre + fill + post
        text = assemble(rnd, header, bodies, triple, brk, feats, p_blank=0, p_empty=0)
        feats.add('terminator_at_multiple_of_8192(+-3)')
    if text is None:
        text = assemble(rnd, header, bodies, triple, brk_style, feats, p_blank, p_empty, p_bo)
    r = rnd.random()
    if r < 0.12:
        text += ''.join(rnd.choice(alpha) for _ in range(rnd.randint(1, 30)))
        feats.add('trailing_garbage')
    elif r < 0.18:
        text += rnd.choice((' ', '\n\n', '\r\n', '  \n'))
        feats.add('trailing_garbage')
    elif r < 0.22 and kind != 'straddle':
        # last terminator missing: the tail is not a segment
        text = text.rstrip('\r\n')
        if text.endswith(term) and len(text) > ISA_LEN:
            text = text[:-1]
            feats.add('unterminated_tail')
    if kind == 'outside':
        text = mutate_outside(rnd, text, triple, feats)
    meta = {'kind': kind, 'triple': triple, 'brk': brk_style, 'icvn': icvn, 'feats': feats}
    return text, meta


def mutate_outside(rnd, text, triple, feats):
    """texts outside the oracle's domain (still read by code and model)"""
    term, ele, sub = triple
    m = rnd.choice(('notisa', 'short', 'version', 'cr_inside', 'ws_mix', 'ele_eq_sub', 'term_in_header', 'exact106',
                    'ws_term', 'blank_ele', 'ws_only'))
    feats.add('outside:' + m)
    if m == 'notisa':
        return rnd.choice(('ISB', 'isa', ' IS', 'GS*')) + text[3:]
    if m == 'short':
        return text[:rnd.choice((0, 1, 2, 3, 50, 104, 105))]
    if m == 'version':
        return text[:84] + rnd.choice(('00400', '00301', '     ', '00502')) + text[89:]
    if m == 'cr_inside':
        pos = sorted(rnd.sample(range(ISA_LEN, max(ISA_LEN + 2, len(text))), min(5, max(1, len(text) - ISA_LEN - 1))))
        for p in pos:
            if p < len(text):
                text = text[:p] + rnd.choice('\r\n') + text[p + 1:]
        return text
    if m == 'ws_mix':
        return text.replace(term, term + rnd.choice((' \t', ' \x0b ', ' \x1c', ' \xa0', '\t', ' \n ', ' \r')), 6)
    if m == 'ele_eq_sub':
        return text[:104] + ele + text[105:]
    if m == 'term_in_header':
        p = rnd.choice((10, 20, 40, 60))
        return text[:p] + term + text[p + 1:]
    if m == 'exact106':
        return text[:ISA_LEN]
    if m == 'ws_term':
        return text.replace(term, ' ')
    if m == 'blank_ele':
        return text.replace(ele, ' ')
    return text[:ISA_LEN] + rnd.choice((' ', '   ', ' \t ', '\n \n')) + term + text[ISA_LEN:]


def gen_oracles(rnd, text):
    """read-size oracles for one text; [] = every read is a full read"""
    n = len(text)
    out = [('full', [])]
    kinds = ['small', 'random', 'header_short', 'halves', 'around_buf', 'ones']
    for kind in rnd.sample(kinds, 2):
        if kind == 'ones':
            if n > 3000:
                kind = 'small'
            else:
                out.append(('ones', [1] * (n + 4)))
                continue
        if kind == 'small':
            if n > 20000:
                out.append(('small', [rnd.randint(1, 400) for _ in range(n // 40 + 8)]))
            else:
                out.append(('small', [rnd.randint(1, 40) for _ in range(n // 2 + 8)]))
        elif kind == 'random':
            out.append(('random', [rnd.randint(1, 9000) for _ in range(n // 500 + 8)]))
        elif kind == 'header_short':
            out.append(('header_short', [rnd.choice((1, 3, 50, 105)), rnd.choice((1, 2, 60)), 1, 1] +
                        ([rnd.randint(1, 9000) for _ in range(6)] if rnd.random() < 0.5 else [])))
        elif kind == 'halves':
            out.append(('halves', [max(1, n // 2)] * 2 + [max(1, n // 7)] * 8))
        elif kind == 'around_buf':
            out.append(('around_buf', [rnd.choice((8191, 8192, 8193, 4096, 106, 107)) for _ in range(n // 4000 + 6)]))
    return out


# ------------------------------------------------------------------------------------ one case = (text, oracles, path)

def check_text(text, oracles, do_path, tag, built, acc, meta):
    """run code (stream per oracle, path), oracle and model on one text; record into acc"""
    dom = in_domain(text)
    want = oracle(text) if dom else None
    lines = []
    got_full = None
    runs = []
    for okind, sizes in oracles:
        got = read_stream(text, sizes)
        runs.append((okind, sizes, got))
        if okind == 'full':
            got_full = got
        lines.append(model_line_read(text, sizes))
    lines.append(model_line_spec(text))
    models = [parse_model(l) for l in common.run_model(lines)] if built else None
    acc['evals'] += len(runs)
    nseg = len(want['segs']) if want else (len(got_full['segs']) if got_full and 'segs' in got_full else 0)
    for i, (okind, sizes, got) in enumerate(runs):
        acc['oracle_kinds'][okind] = acc['oracle_kinds'].get(okind, 0) + 1
        key = None
        if want is not None:
            key = classify(got, want, got.get('short_reads', 0))
            if key is not None:
                acc['viol'].append({'key': key, 'source': 'stream', 'text': text, 'sizes': sizes, 'dom': True,
                                    'observed': summary(got), 'required': summary(want)})
        if models is not None and key is None and not outside_c01(got):
            for which, m in (('reader', models[i]), ('spec', models[-1])):
                if not same_obs(got, m):
                    acc['broke'].append(('correspondence:%s-model-vs-X12Reader' % which,
                                         'text=%r sizes=%r code: %s model: %s' % (text[:400], sizes[:20], summary(got), summary(m))))
                    break
        nontrivial = nseg >= 3 and (meta['triple'] != ('~', '*', ':') or meta['brk'] != '\n' or got.get('short_reads', 0) > 0
                                    or bool(meta['feats'] & {'leading_blank', 'trailing_sep', 'terminator_at_multiple_of_8192(+-3)'})
                                    or len(text) > BUF)
        acc['distinct'].append(((text, tuple(sizes), 'stream'), nontrivial))
    if do_path:
        acc['evals'] += 1
        acc['path_reads'] += 1
        gp = read_path(text, tag)
        ttext = translate_newlines(text)
        wantp = oracle(ttext) if dom else None
        key = None
        if wantp is not None:
            key = classify(gp, wantp, 0)
            if key is None and got_full is not None and not same_obs(gp, got_full, fmt=('\r' not in text)):
                key = 'pred:path-differs-from-stream'
            if key is not None:
                acc['viol'].append({'key': key, 'source': 'path', 'text': text, 'sizes': [], 'dom': True,
                                    'observed': summary(gp), 'required': summary(wantp)})
        elif got_full is not None and '\r' not in text and not same_obs(gp, got_full):
            crashed_differently = gp['st'] == 'crash' and gp.get('key') != got_full.get('key')
            acc['viol'].append({'key': gp['key'] if crashed_differently else 'pred:path-differs-from-stream', 'source': 'path',
                                'text': text, 'sizes': [], 'dom': False, 'observed': summary(gp), 'required': summary(got_full)})
        acc['distinct'].append(((text, (), 'path'), nseg >= 3))
    # re-read law on the real code: format the yielded segments, read again -> same (trimmed) segments, same text
    if got_full is not None and got_full['st'] == 'ok' and want is not None and classify(got_full, want, 0) is None:
        acc['evals'] += 1
        text2 = ''.join(s['fmt'] for s in got_full['segs'])
        again = read_stream(text2, []) if len(got_full['segs']) > 0 else None
        if again is not None:
            want2 = oracle(text2) if in_domain(text2) else None
            key2 = classify(again, want2, 0) if want2 is not None else None
            if key2 is not None:
                # the formatted text is itself an interchange the reader mis-reads
                acc['viol'].append({'key': key2, 'source': 'stream', 'text': text2, 'sizes': [], 'dom': True,
                                    'observed': summary(again), 'required': summary(want2)})
            else:
                ok = again['st'] == 'ok' and [s['fmt'] for s in again['segs']] == [s['fmt'] for s in got_full['segs']] and \
                    [(s['id'], [rstrip_empty(c) or [''] for c in rstrip_empty_elems(s['elems'])]) for s in got_full['segs']] == \
                    [(s['id'], s['elems']) for s in again['segs']] and \
                    all(set(s['errs']) <= {'SEG1'} for s in again['segs'])
                if not ok:
                    acc['viol'].append({'key': again['key'] if again['st'] != 'ok' else 'pred:reread-differs', 'source': 'reread',
                                        'text': text, 'sizes': [], 'dom': True, 'observed': summary(again),
                                        'required': summary(got_full)})
    return want, got_full


def rstrip_empty_elems(elems):
    """trailing empty composites dropped; an element-less segment re-reads with one empty element (`ID*~`)"""
    e = list(elems)
    while e and all(v == '' for v in e[-1]):
        e.pop()
    return e or [['']]


def new_acc():
    return {'evals': 0, 'viol': [], 'broke': [], 'distinct': [], 'oracle_kinds': {}, 'path_reads': 0, 'dist': {}, 'samples': []}


def bump(d, k, n=1):
    d[k] = d.get(k, 0) + n


def chunk_worker(args):
    tier, chunk, ntexts, nhuge, built = args
    try:
        soft, hard = resource.getrlimit(resource.RLIMIT_STACK)
        resource.setrlimit(resource.RLIMIT_STACK, (hard if hard != resource.RLIM_INFINITY else 1 << 30, hard))
    except (ValueError, OSError):
        pass
    rnd = random.Random(common.seed() * 1000003 + chunk * 7919 + 101)
    acc = new_acc()
    dist = acc['dist']
    for i in range(ntexts):
        text, meta = gen_text(rnd, tier, want_huge=(i < nhuge))
        oracles = gen_oracles(rnd, text)
        if len(text) > 60000:
            oracles = oracles[:2]
        ascii_ok = all(ord(c) < 128 for c in text)
        do_path = ascii_ok and (len(text) < 20000 or rnd.random() < 0.3)
        want, got = check_text(text, oracles, do_path, '%d_%d' % (os.getpid(), chunk), built, acc, meta)
        bump(dist, 'kind:' + meta['kind'])
        bump(dist, 'delims:' + (repr(''.join(meta['triple'])) if meta['triple'] in TRIPLES else 'random triple of distinct punctuation/control characters'))
        bump(dist, 'linebreak:' + repr(meta['brk']))
        bump(dist, 'version:' + meta['icvn'])
        bump(dist, 'in_domain' if want is not None else 'outside_domain')
        for f in meta['feats']:
            bump(dist, 'feat:' + f)
        n = len(text)
        bump(dist, 'len:' + ('<200' if n < 200 else '<2k' if n < 2000 else '<8192' if n < BUF else '<16384' if n < 16384
                             else '<64KiB' if n < 65536 else '>=64KiB'))
        if want is not None:
            mx = max([s['rawlen'] for s in want['segs']] or [0])
            bump(dist, 'longest_segment:' + ('<=8192' if mx <= BUF else '<=16384' if mx <= 16384 else '>16384'))
            bump(dist, 'segments_total', len(want['segs']))
        if i == 3 and chunk < 4:
            acc['samples'].append({'text_head': text[:200], 'len': len(text), 'delims': ''.join(meta['triple']),
                                   'oracles': [(k, s[:8]) for k, s in oracles], 'path': do_path,
                                   'segments': len(want['segs']) if want else None,
                                   'code': (summary(got, 2) or '')[:300]})
    # distinct accounting is done in the parent on hashes only
    acc['distinct'] = [(hash_case(c), nt) for c, nt in acc['distinct']]
    return acc


def hash_case(c):
    import hashlib
    return hashlib.blake2b(repr(c).encode('utf-8', 'surrogatepass'), digest_size=8).hexdigest()


# ------------------------------------------------------------------------------------ small exhaustive layers

def exhaustive_bodies(tier):
    """every body over a 6-letter alphabet up to a length bound, after a fixed header: covers every arrangement of
    empty segments, blank-only segments, leading blanks, trailing separators and line breaks at small scale"""
    hdr = 'ISA*00*          *00*          *ZZ*SENDER         *ZZ*RECEIVER       *200101*1200*U*00401*000000001*0*P*:~'
    alpha = ['~', '*', ' ', 'A', '\n', ':']
    maxlen = 6 if tier == 'thorough' else 5
    for n in range(0, maxlen + 1):
        for tup in itertools.product(alpha, repeat=n):
            yield hdr + ''.join(tup)


def segment_strings(tier, rnd):
    """direct Segment(...) differential: all strings over {term, ele, sub, A, 1, blank} up to a bound, ISA variants"""
    alpha = ['~', '*', ':', 'A', '1', ' ']
    maxlen = 6 if tier == 'thorough' else 5
    for n in range(0, maxlen + 1):
        for tup in itertools.product(alpha, repeat=n):
            s = ''.join(tup)
            yield s
            if n <= 4:
                yield 'ISA' + s
                yield 'ISA*' + s
    for _ in range(4000 if tier == 'thorough' else 1000):
        yield ''.join(rnd.choice('~*:AB1 \n\r\tISA') for _ in range(rnd.randint(0, 30)))


def segment_direct(s):
    try:
        import pyx12.segment
        seg = pyx12.segment.Segment(s, '~', '*', ':')
    except (ImportError, AttributeError) as e:
        raise common.Infra('entry point missing: %r' % e)
    except Exception as e:
        return ('crash', crash_key(e))
    sid = seg.get_seg_id()
    if sid is None:
        return ('N',)
    n = len(seg)
    elems = []
    for i in range(1, min(n, 99) + 1):
        comp, j = [], 1
        while True:
            v = seg.get_value('%02d-%d' % (i, j))
            if v is None:
                break
            comp.append(v)
            j += 1
        elems.append(tuple(comp))
    return ('S', sid, tuple(elems), seg.format())


def segment_want(s):
    if s == '':
        return ('N',)
    body = s[:-1] if s[-1] == '~' else s
    parts = body.split('*')
    sid = parts[0]
    elems = [[p] for p in parts[1:]] if sid == 'ISA' else [p.split(':') for p in parts[1:]]
    return ('S', sid, tuple(tuple(c) for c in elems), oracle_format('~', '*', ':', sid, elems))


def segment_model(line):
    f = [common.unesc(x) for x in line.split('\t')]
    if f[0] == 'N':
        return ('N',)
    segs, _ = parse_segs(f, 1, 1, False)
    s = segs[0]
    return ('S', s['id'], tuple(tuple(c) for c in s['elems']), s['fmt'])


HDR = 'ISA*00*          *00*          *ZZ*SENDER         *ZZ*RECEIVER       *200101*1200*U*00401*000000001*0*P*:~'

# fixed witnesses of the defects found on the unchanged code (always run): (name, text, read sizes, by path too)
CORPUS = [
    ('D1 open by path', HDR + '\nGS*HC*S*R~\nST*837*0001~\n', [], True),
    ('D2 empty segment', HDR + 'GS*HC*S*R~~ST*837*0001~SE*2*0001~', [], False),
    ('D2 empty segment between line breaks', HDR + '\nGS*HC*S*R~\n~\nST*837*0001~\n', [], False),
    ('D3 segment longer than the buffer', HDR + 'NTE*ADD*' + 'X' * 20000 + '~ST*837*0001~', [], False),
    ('D3 segment of exactly one buffer', HDR + 'NTE*' + 'X' * (BUF - 4) + '~ST*837*0001~', [], False),
    ('D3 short reads', HDR + 'GS*HC*S*R~ST*837*0001~SE*2*0001~', [106, 8, 1, 1, 5], False),
    ('D3 header delivered in two reads', HDR + 'GS*HC*S*R~ST*837*0001~', [50], False),
    ('D4 blank-only segment', HDR + 'GS*HC*S*R~   ~ST*837*0001~', [], False),
    ('D4 blank-only last segment', HDR + 'GS*HC*S*R~\n ~', [], False),
]


# ------------------------------------------------------------------------------------ entry points

OBLIGATION_NOTE = 'see lean/Audit/C01.lean'


def minimise(v):
    """drop terminated pieces of the body while the same key is reported (bounded)"""
    text, sizes, source, key = v['text'], v['sizes'], v['source'], v['key']
    h = header_of(text)
    if h is None or source == 'reread':
        return v
    term = h['term']

    def fails(t):
        if not in_domain(t):
            return False
        if source == 'path':
            got = read_path(t, 'min_%d' % os.getpid())
            want = oracle(translate_newlines(t))
            sr = 0
        else:
            got = read_stream(t, sizes)
            want = oracle(t)
            sr = got.get('short_reads', 0)
        return want is not None and classify(got, want, sr) == key
    pieces = text[ISA_LEN:].split(term)
    budget = 150
    i = 0
    while i < len(pieces) and budget > 0 and len(pieces) > 1:
        cand = pieces[:i] + pieces[i + 1:]
        t = text[:ISA_LEN] + term.join(cand)
        budget -= 1
        if fails(t):
            pieces = cand
        else:
            i += 1
    t = text[:ISA_LEN] + term.join(pieces)
    if t != text and fails(t):
        v = dict(v)
        v['text'] = t
        got = read_path(t, 'min_%d' % os.getpid()) if source == 'path' else read_stream(t, sizes)
        v['observed'] = summary(got)
        v['required'] = summary(oracle(translate_newlines(t) if source == 'path' else t))
    return v


def run(tier):
    import multiprocessing
    res = common.Result('C01', tier)
    res.cov['rule'] = ('case = (interchange text, read-size oracle, source kind stream|path); distinct by that triple; '
                       'non-trivial = at least 3 segments and one of: non-default delimiters, line-break style other than '
                       'LF, a short read, a segment crossing a multiple of 8192, leading blank, trailing separator')
    built = common.proof_stage(res, 'C01')
    thorough = tier == 'thorough'
    ntexts = 100000 if thorough else 3000
    nchunks = 200 if thorough else 24
    per = ntexts // nchunks
    nhuge_total = 2000 if thorough else 24
    jobs = [(tier, c, per, nhuge_total // nchunks, built) for c in range(nchunks)]
    procs = min(16, os.cpu_count() or 2)
    with multiprocessing.get_context('fork').Pool(procs) as pool:
        accs = pool.map(chunk_worker, jobs, chunksize=1)
    # small exhaustive layers (parent process)
    acc = new_acc()
    meta0 = {'triple': ('~', '*', ':'), 'brk': '', 'feats': set()}
    nex = 0
    ex_texts = list(exhaustive_bodies(tier))
    if built:
        ex_model = common.run_model([model_line_read(t, [7, 1, 200, 1, 1, 3]) for t in ex_texts] +
                                    [model_line_spec(t) for t in ex_texts])
    for i, t in enumerate(ex_texts):
        nex += 1
        dom = in_domain(t)
        want = oracle(t) if dom else None
        for sizes in ([], [7, 1, 200, 1, 1, 3]):
            got = read_stream(t, sizes)
            acc['evals'] += 1
            key = classify(got, want, got.get('short_reads', 0)) if want is not None else None
            if key is not None:
                acc['viol'].append({'key': key, 'source': 'stream', 'text': t, 'sizes': sizes,
                                    'observed': summary(got), 'required': summary(want)})
            elif built:
                for which, ml in (('reader', ex_model[i]), ('spec', ex_model[len(ex_texts) + i])):
                    m = parse_model(ml)
                    if not same_obs(got, m):
                        acc['broke'].append(('correspondence:%s-model-vs-X12Reader' % which,
                                             'text=%r sizes=%r code: %s model: %s' % (t[ISA_LEN - 2:], sizes, summary(got), summary(m))))
                        break
            nseg = len(want['segs']) if want else 0
            acc['distinct'].append((hash_case((t, tuple(sizes), 'stream')), nseg >= 3 and (' ' in t[ISA_LEN:] or '*' in t[ISA_LEN:])))
    # fixed witnesses
    for name, t, sizes, by_path in CORPUS:
        m0 = {'triple': ('~', '*', ':'), 'brk': '', 'feats': set()}
        check_text(t, [('full', [])] + ([('corpus', sizes)] if sizes else []), by_path, 'corpus_%d' % os.getpid(), built, acc, m0)
    # direct Segment differential
    rnd = random.Random(common.seed() * 31 + 5)
    strs = list(segment_strings(tier, rnd))
    smodel = common.run_model([common.line('C01G', '~', '*', ':', s) for s in strs]) if built else None
    for i, s in enumerate(strs):
        got = segment_direct(s)
        want = segment_want(s)
        acc['evals'] += 1
        acc['distinct'].append((hash_case(('seg', s)), s != ''))
        if got != want:
            key = got[1] if got[0] == 'crash' else 'pred:segment-parse-or-format-differs'
            acc['viol'].append({'key': key, 'source': 'segment', 'text': s, 'sizes': [], 'observed': repr(got)[:600],
                                'required': repr(want)[:600]})
        elif smodel is not None and segment_model(smodel[i]) != got:
            acc['broke'].append(('correspondence:SegText.parseSeg/formatSeg', 'string=%r code=%r model=%r' % (s, got, segment_model(smodel[i]))))
    # the set str.lstrip() removes, every code point
    if built:
        acc['evals'] += 1
        ws_model = set()
        for lo in range(0, 0x110000, 0x10000):
            out = common.run_model([common.line('C01W', str(lo), str(lo + 0x10000))])[0]
            ws_model |= {int(x) for x in out.split(',') if x}
        ws_py = {c for c in range(0x110000) if not (0xD800 <= c <= 0xDFFF) and (' ' + chr(c) + 'x').lstrip() == 'x'}
        if ws_model != ws_py:
            acc['broke'].append(('correspondence:SegText.isPyWhitespace', 'differs at %r' % sorted(ws_model ^ ws_py)[:20]))
    accs.append(acc)

    dist, okinds = {}, {}
    viol = []
    for a in accs:
        res.count(a['evals'])
        for h, nt in a['distinct']:
            if nt:
                res._seen.add(h)
        for k, n in a['dist'].items():
            bump(dist, k, n)
        for k, n in a['oracle_kinds'].items():
            bump(okinds, k, n)
        bump(dist, 'path_reads', a['path_reads'])
        viol.extend(a['viol'])
        for b in a['broke'][:3]:
            res.broke(*b)
        for s in a['samples']:
            res.sample(s)
    dist['exhaustive_small_bodies'] = nex
    dist['direct_segment_strings'] = len(strs)
    res.notes['input_distribution'] = dict(sorted(dist.items()))
    res.notes['read_oracles'] = okinds
    res.notes['exhaustive'] = False
    res.notes['exhaustive_subdomains'] = ['all bodies over {~ * blank A LF :} up to length %d after a fixed header x 2 oracles' % (6 if thorough else 5),
                                          'all strings over {~ * : A 1 blank} up to length %d through Segment()' % (6 if thorough else 5),
                                          'str.lstrip() set: every code point']
    res.notes['domain'] = __doc__.split('Domain of the property oracle')[1].strip()
    # violations: per key the smallest text carries the replay (minimised), the rest only count
    bykey = {}
    for v in viol:
        bykey.setdefault(v['key'] + '|' + v['source'], []).append(v)
    for kk, items in sorted(bykey.items()):
        items.sort(key=lambda v: (not v.get('dom', True), len(v['text'])))
        first = minimise(items[0])
        key = first['key']
        what = '%s read: code gives %s; required %s' % (first['source'], first['observed'], first['required'])
        res.violation(key, what[:700], {'call': 'pyx12.x12file.X12Reader', 'source': first['source'], 'text': first['text'],
                                        'sizes': first['sizes'], 'observed': first['observed'], 'required': first['required'],
                                        'key': key})
        for v in items[1:]:
            res.violation(key, what[:200], {'text_len': len(v['text'])})
    res.assumptions = ['texts are Python str without lone surrogates; path reads only for ASCII texts',
                       'by path, Python text mode translates CR/CRLF to LF before pyx12 sees the text (not modelled, exercised)',
                       'the read-size oracle answers every read with 1..n characters; an empty read means end of input',
                       'errors of X12Base._parse_segment (codes 8, 1 for an invalid id, envelope codes) are outside C01 and '
                       'are separated from the reader errors with Segment.is_empty()/is_seg_id_valid()']
    return res.finish(trusted=common.TRUSTED_COMMON + [
        'modelled: RawX12File.__init__/__iter__, X12Reader.__iter__ (without _parse_segment), Segment.__init__, '
        'Composite.__init__, Segment.format, Composite.format',
        'not modelled, exercised: open(), ASCII decoding, universal-newline translation (path source)',
        'Python oracle: str.split on the declared terminator / separators'])


def replay(d):
    r = d['replay']
    text, sizes, source = r['text'], r.get('sizes', []), r.get('source', 'stream')
    if source == 'segment':
        got, want = segment_direct(text), segment_want(text)
        print('Segment(%r) -> %r\nrequired %r' % (text, got, want))
        return 0 if got == want else 1
    if source == 'path':
        got = read_path(text, 'replay_%d' % os.getpid())
        want = oracle(translate_newlines(text))
        key = classify(got, want, 0) if want else None
        if key is None and want is not None and '\r' not in text and not same_obs(got, read_stream(text, [])):
            key = 'pred:path-differs-from-stream'
    elif source == 'reread':
        g0 = read_stream(text, [])
        got = read_stream(''.join(s['fmt'] for s in g0.get('segs', [])), [])
        want = g0
        key = None if same_obs(got, g0) or got['st'] == 'ok' and [s['fmt'] for s in got['segs']] == [s['fmt'] for s in g0['segs']] else 'pred:reread-differs'
    else:
        got = read_stream(text, sizes)
        want = oracle(text)
        key = classify(got, want, got.get('short_reads', 0)) if want else None
    print('X12Reader over %s, %d chars, read sizes %r' % (source, len(text), sizes[:20]))
    print('observed: %s' % summary(got))
    print('required: %s' % summary(want))
    print('verdict : %s' % (key or 'agrees with the property oracle'))
    return 0 if key is None else 1
