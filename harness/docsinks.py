"""
End-to-end differential for the two output sinks of x12n_document: real `x12n_document(param, text, fd_997, fd_html, fd_xmldoc)`
versus the composed Lean model `Doc.docXmlText` / `Doc.docHtml` (lean/Pyx12Verif/Model/DocSinks.lean = Model/Document.lean
`validateDoc` feeding Model/XmlOut.lean, Model/HtmlOut.lean and Model/ErrIter.lean the way x12n_document drives the real
sinks; driver ops SKLN / SKDOC of Drv/DocSinks.lean on top of the maps loaded by the ops of Drv/Doc.lean).

    compare_sinks(texts) -> disagreements          list of (text index, class, detail)
                                                   (class `inherited:validateDoc:…` when harness/doc.py `compare_documents`
                                                   already disagrees on the text: the fault is below the sinks)

real side  : harness/pipeline.py `validate(text, want_html=True, want_xml=True)` (one run with both sinks; when that run
             raises, one run per sink, because the model states per sink whether the run completes);
model side : one SKDOC op per text.  Loop names (`loop_node.name`, not part of the translated skeleton) are read by this
             file's own parse of the map XML and loaded with SKLN ops.
compared   : XML   byte for byte;
             HTML  byte for byte after masking (i) the `Analysis Date:` text (clock) and (ii) the message TEXT of the
                   lines labelled "Segment Error Code" (texts of reader / envelope / walker messages are not modelled; the
                   line itself, its position and its code are compared).  Segment lines (with the highlighting spans),
                   loop information lines, element messages (text + code), header and footer are compared in full;
             whether the run completes (real raises  <=>  model answers `-…`), per sink;
oracle     : property (a) on the REAL code, independently of the model (`oracle_xml`): the XML parses as one tree
             (ElementTree) and the k-th `seg` element has the id of, and sits inside the loops spelling the map path of,
             the node x12n_document holds after the k-th segment (callback) - class `oracle:xml-nesting`;
side conditions of the theorems, evaluated by the model driver: per document `goodFromB` / `stepsFitB` / `wellFormed`
             (C08's run hypotheses and conclusion; field 4 of the SKDOC answer), per map set `mapsOKB` / `mapsOK2B` (op SKOK,
             `maps_ok()`): `MapsOK2` (hypothesis of `docXml_balanced_all`, `docXml_nesting_all`) holds for all shipped maps.

Self test:  cd /verif && /venv/bin/python -m harness.docsinks [quick|thorough] [seed] [kind prefix]
"""
import os
import random
import re
import sys
import time
import xml.etree.ElementTree as et

from . import common

DATE_MASK = '@'
_names = None


def _attr(e, name):
    v = e.get(name)
    return v if v else e.findtext(name)


def loop_names(fname, nodes):
    """[(index path, '%s' % loop name)] of one map file; the order of children is the loader's / translator's
    (position buckets, loops before segments inside a bucket); checked against the translated node list"""
    root = et.parse(os.path.join(common.REPO, 'pyx12', 'map', fname)).getroot()
    ids = {tuple(ip): (kind, nid) for ip, sp, kind, nid in nodes}
    out = []

    def walk(parent, ip):
        buckets = {}
        for e in parent.findall('loop'):
            buckets.setdefault(int(_attr(e, 'pos')), []).append(e)
        for e in parent.findall('segment'):
            buckets.setdefault(int(_attr(e, 'pos')), []).append(e)
        i = 0
        for pos in sorted(buckets):
            for e in buckets[pos]:
                here = ip + (i,)
                want = ids.get(here)
                if want is None or want[0] != e.tag or want[1] != e.get('xid'):
                    raise common.Infra('docsinks: %s node %r is %r in the map file, %r in the translation' % (
                        fname, here, (e.tag, e.get('xid')), want))
                if e.tag == 'loop':
                    nm = _attr(e, 'name')
                    out.append((here, 'None' if nm is None else nm))
                    walk(e, here)
                i += 1
    walk(root, ())
    return out


def name_lines():
    global _names
    if _names is None:
        from . import doc
        L = doc.loaded()
        lines = []
        for fname in L.doc['maps']:
            tbl = loop_names(fname, L.side['maps'][fname]['nodes'])
            f = ['SKLN', fname, len(tbl)]
            for ip, nm in tbl:
                f.extend(['.'.join(str(i) for i in ip), nm])
            lines.append(common.line(*f))
        _names = lines
    return _names


# ------------------------------------------------------------------------------------------------ model side

class ModelSinks:
    pass


def _field(f):
    if f.startswith('+'):
        return common.unesc(f[1:]), None
    return None, f[1:]


def run_model(texts, charset=None, chunk=150):
    from . import doc
    L = doc.loaded()
    pre = L.lines + name_lines()
    ext = 0 if charset == 'B' else 1
    out = []
    for a in range(0, len(texts), chunk):
        ops = []
        for t in texts[a:a + chunk]:
            h = L.hits(t)
            f = ['SKDOC', ext, DATE_MASK, len(h)]
            for p, v in h:
                f.extend([p, v])
            f.append(t)
            ops.append(common.line(*f))
        res = common.run_model(pre + ops)
        for x in res[:len(pre)]:
            if not x.startswith('ok'):
                raise common.Infra('docsinks: loading the maps into the driver: ' + x[:200])
        for x in res[len(pre):]:
            f = x.split('\t')
            if len(f) != 4:
                raise common.Infra('docsinks: model driver: ' + x[:200])
            m = ModelSinks()
            m.outcome = f[0]
            m.xml, m.xml_why = _field(f[1])
            m.html, m.html_why = _field(f[2])
            m.flags = f[3]          # goodFromB, stepsFitB, wellFormed of the model's steps / events ('-' when there are none)
            out.append(m)
    return out


# ------------------------------------------------------------------------------------------------ real side

_DATE = re.compile(r'(<h3>Analysis Date: )[^<]*(</h3>)')
_SEGMSG = re.compile(r'(<span class="error">&nbsp;)[^<]*?( \(Segment Error Code: [^<)]*\)</span><br />\n)')


def mask_html(html):
    html = _DATE.sub(lambda m: m.group(1) + DATE_MASK + m.group(2), html, count=1)
    return _SEGMSG.sub(lambda m: m.group(1) + m.group(2), html)


def first_diff(a, b):
    k = next((i for i in range(min(len(a), len(b))) if a[i] != b[i]), min(len(a), len(b)))
    return 'at %d (lengths %d / %d): real …%r model …%r' % (k, len(a), len(b), a[max(0, k - 60):k + 60], b[max(0, k - 60):k + 60])


def html_tokens(html):
    """classification of the written lines, for the statistics"""
    return {'seg': html.count('<span class="seg">'), 'msg': html.count('<span class="error">'),
            'info': html.count('<span class="info">'), 'mark': html.count('<span class="ele_err">')}


def compare_one(text, m, charset=None, stats=None):
    from . import pipeline
    bad = []
    r = pipeline.validate(text, want_997=False, want_html=True, want_xml=True, charset=charset)
    if m.outcome == 'refused':
        if not (r.exc is None and r.verdict is False and not r.nodes and r.html == '' and r.xml == ''):
            bad.append(('refused', 'model refused; real exc=%r verdict=%r html %d xml %d bytes' % (r.exc, r.verdict, len(r.html or ''), len(r.xml or ''))))
        return bad
    if r.exc is None:
        rx, rh = r.xml, r.html
        xe = he = None
    else:
        q = pipeline.validate(text, want_997=False, want_html=False, want_xml=True, charset=charset)
        rx, xe = (q.xml, None) if q.exc is None else (None, q.exc)
        q = pipeline.validate(text, want_997=False, want_html=True, want_xml=False, charset=charset)
        rh, he = (q.html, None) if q.exc is None else (None, q.exc)
    # XML
    if (rx is None) != (m.xml is None):
        bad.append(('xml-completes', 'real %s, model %s' % ('raises %r' % (xe,) if rx is None else 'completes',
                                                           'completes' if m.xml is not None else 'does not (%s)' % m.xml_why)))
    elif rx is not None and rx != m.xml:
        bad.append(('xml-text', first_diff(rx, m.xml)))
    if rx is not None and r.exc is None:
        why = oracle_xml(r, rx)
        if why:
            bad.append(('oracle:xml-nesting', why))
    if m.xml is not None:
        if m.flags[2:3] != '1':
            bad.append(('model:xml-not-wellFormed', 'flags %s' % m.flags))
        if stats is not None:
            stats['goodFromB'] = stats.get('goodFromB', 0) + (m.flags[0:1] == '1')
            stats['stepsFitB'] = stats.get('stepsFitB', 0) + (m.flags[1:2] == '1')
    # HTML
    if (rh is None) != (m.html is None):
        bad.append(('html-completes', 'real %s, model %s' % ('raises %r' % (he,) if rh is None else 'completes',
                                                            'completes' if m.html is not None else 'does not (%s)' % m.html_why)))
    elif rh is not None:
        a = mask_html(rh)
        if a != m.html:
            bad.append(('html-text', first_diff(a, m.html)))
        if stats is not None:
            for k, v in html_tokens(rh).items():
                stats['html_' + k] = stats.get('html_' + k, 0) + v
    if stats is not None:
        if rx is not None:
            stats['xml_bytes'] = stats.get('xml_bytes', 0) + len(rx)
            stats['xml_docs'] = stats.get('xml_docs', 0) + 1
        else:
            stats['xml_raises'] = stats.get('xml_raises', 0) + 1
        if rh is not None:
            stats['html_docs'] = stats.get('html_docs', 0) + 1
        else:
            stats['html_raises'] = stats.get('html_raises', 0) + 1
        if r.exc is None and r.errors:
            stats['with_errors'] = stats.get('with_errors', 0) + 1
        if any(p is None for _, p in r.nodes) or _unmatched(r):
            stats['with_unmatched'] = stats.get('with_unmatched', 0) + 1
    return bad


def xml_places(xml):
    """own reading of the XML document: [(loop ids around the seg element, its id)] in document order; None when the
    text is not one well-formed element tree (ElementTree as the independent parser)"""
    try:
        root = et.fromstring(xml)
    except et.ParseError:
        return None
    if root.tag != 'x12simple':
        return None
    out = []

    def walk(e, chain):
        for c in e:
            if c.tag == 'loop':
                walk(c, chain + [c.get('id')])
            elif c.tag == 'seg':
                out.append((chain, c.get('id')))
            else:
                out.append((chain, '?' + c.tag))
    walk(root, [])
    return out


_CTRL = re.compile(r'[\x00-\x08\x0b\x0c\x0e-\x1f]')


def oracle_xml(r, xml):
    """property (a) on the real code: the document is one balanced tree and the k-th `seg` element sits inside the loops
    that spell the map path of the node x12n_document holds after the k-th segment (callback), with that node's id"""
    if _CTRL.search(xml):
        return None                      # control characters as data: not parseable by any XML 1.0 reader (C08's domain)
    got = xml_places(xml)
    if got is None:
        return 'the XML document is not one well-formed x12simple tree'
    want = []
    for sid, path in r.nodes:
        if path is None:
            return None
        comps = [x for x in path.split('/') if x]
        want.append((comps[:-1], comps[-1].split('[')[0]))
    if got != want:
        k = next((i for i in range(min(len(got), len(want))) if got[i] != want[i]), min(len(got), len(want)))
        return 'seg element %d: XML %r, node %r (%d / %d)' % (k, got[k] if k < len(got) else None,
                                                              want[k] if k < len(want) else None, len(got), len(want))
    return None


def _unmatched(r):
    """a segment the walker did not place: reported as segment error 1 / 2"""
    return any(e[0] == 'seg' and e[1] in ('1', '2') for e in r.errors if len(e) == 8)


def maps_ok():
    """-> ({map file: bool}, mapsOKB for all maps together, mapsOK2B for all maps together): the side conditions of the
    XML theorems evaluated by the model driver on the loaded maps: `mapsOKB` = C08 `noSiblingLoopIdPrefix` over all loop
    paths of {control maps, that map}; `mapsOK2B` = per map + the envelope paths across maps (hypothesis `MapsOK2` of
    `docXml_balanced_all` / `docXml_nesting_all`)"""
    from . import doc
    L = doc.loaded()
    f = common.run_model(L.lines + [common.line('SKOK')])[-1].split('\t')
    n = int(f[0])
    per = {common.unesc(f[1 + 2 * i]): f[2 + 2 * i] == '1' for i in range(n)}
    return per, f[2 + 2 * n] == '1', f[4 + 2 * n] == '1'


def compare_sinks(texts, charset=None, stats=None):
    """-> list of (text index, class, detail)"""
    models = run_model(texts, charset)
    dis = []
    for i, (t, m) in enumerate(zip(texts, models)):
        if stats is not None:
            stats.setdefault('outcomes', {})
            stats['outcomes'][m.outcome] = stats['outcomes'].get(m.outcome, 0) + 1
            for k, why in (('xml', m.xml_why), ('html', m.html_why)):
                if why is not None:
                    stats.setdefault('model_incomplete', {})
                    stats['model_incomplete'][k + ':' + why] = stats['model_incomplete'].get(k + ':' + why, 0) + 1
        found = compare_one(t, m, charset, stats)
        if found and charset is None:
            # is the validation model itself (Model/Document.lean) already off on this text?  then the sinks only inherit it
            from . import doc
            under, _ = doc.compare_documents([t], with_ack=False)
            if under:
                found = [('inherited:validateDoc:' + under[0][1] + ':' + cls, detail + ' || validateDoc: ' + str(under[0][2])[:300])
                         for cls, detail in found]
        for cls, detail in found:
            dis.append((i, cls, detail))
    return dis


# ------------------------------------------------------------------------------------------------ self test

def sample_corpus(tier, seed, only=None):
    """documents of harness/doc.py's corpus (generated, injected faults, structural mutants, multi-set, C07 mutations,
    arbitrary); quick: a sample stratified by source"""
    from . import doc
    cases = doc.corpus(tier, seed)
    if only:
        cases = [c for c in cases if c[0].startswith(only)]
    if tier == 'thorough' or only:
        return cases
    rnd = random.Random(seed * 104729 + 7)
    by = {}
    for c in cases:
        if len(c[2]) <= 90000:          # the composed model is quadratic in the number of segments (list appends)
            by.setdefault(c[0].split(':')[0], []).append(c)
    quota = {'generated': 110, 'inject': 90, 'mutant': 110, 'multi': 70, 'c07': 90, 'arbitrary': 30}
    out = []
    for k in sorted(by):
        xs = by[k]
        rnd.shuffle(xs)
        out.extend(xs[:quota.get(k, 40)])
    return out


def main(argv):
    tier = argv[1] if len(argv) > 1 else 'quick'
    seed = int(argv[2]) if len(argv) > 2 else common.seed()
    only = argv[3] if len(argv) > 3 else None
    t0 = time.time()
    ok, log = common.lean_build()
    if not ok:
        print(log[-3000:])
        return 2
    per, union, all2 = maps_ok()
    print('mapsOKB per map (with the control maps): %d of %d hold; union of all loaded maps: %s; mapsOK2B (all loaded maps): %s' % (
        sum(per.values()), len(per), union, all2))
    if not all(per.values()):
        print('  fails for: %s' % sorted(k for k, v in per.items() if not v))
    cases = sample_corpus(tier, seed, only)
    texts = [c[2] for c in cases]
    stats = {}
    dis = compare_sinks(texts, stats=stats)
    by_kind = {}
    for kind, label, text in cases:
        k = kind.split(':')[0]
        by_kind[k] = by_kind.get(k, 0) + 1
    print('documents: %d by source %s' % (len(cases), by_kind))
    print('model outcomes:', stats.pop('outcomes', {}))
    print('real side:', stats)
    classes = {}
    for i, cls, detail in dis:
        classes.setdefault((cases[i][0].split(':')[0], cls), []).append((i, detail))
    print('disagreements: %d in %d documents' % (len(dis), len(set(i for i, _, _ in dis))))
    for (kind, cls), items in sorted(classes.items()):
        i, detail = items[0]
        print('  %-10s %-16s %4d   e.g. %r: %s' % (kind, cls, len(items), cases[i][1], detail[:600]))
    if dis:
        d = os.path.join(common.WORK, 'docsinks')
        os.makedirs(d, exist_ok=True)
        seen = set()
        for i, cls, detail in dis:
            key = (cases[i][0].split(':')[0], cls)
            if key in seen:
                continue
            seen.add(key)
            with open(os.path.join(d, 'dis_%s_%s.txt' % (key[0], re.sub(r'\W', '_', cls))), 'w') as f:
                f.write(cases[i][2])
    print('%.1fs' % (time.time() - t0))
    return 1 if dis else 0


if __name__ == '__main__':
    sys.exit(main(sys.argv))


# ------------------------------------------------------------------------------------------------ use by the checks

def attach(res, texts, label, audit=True, limit=None):
    """Sink tie for C08 / C19 (and C07): a disagreement breaks the correspondence `DocSinks.docXml` / `DocSinks.docHtml`;
    with audit=True the theorems of Audit/DocSinks.lean are added to the check's obligations."""
    if audit:
        ax, missing, _ = common.lean_audit('DocSinks')
        for thm, a in sorted(ax.items()):
            res.obligations.append(thm)
            if set(a) <= common.STD_AXIOMS:
                res.discharged.append(thm)
            else:
                res.broke('axioms:' + thm, 'depends on ' + ', '.join(a))
        for mth in missing:
            res.obligations.append(mth)
            res.broke('theorem:' + mth, 'not found by the audit')
    texts = list(texts)[:limit] if limit else list(texts)
    if not texts:
        return
    stats = {}
    dis = compare_sinks(texts, stats=stats)
    res.count(len(texts))
    res.notes.setdefault('sinks_end_to_end', {})[label] = dict(stats, documents=len(texts), disagreements=len(dis))
    for (i, cls, detail) in dis[:20]:
        res.broke('correspondence:DocSinks:' + cls, '%s document %d: %s' % (label, i, str(detail)[:400]))
