"""
Differential of the real map walker (pyx12.map_walker.walk_tree, driven exactly as x12n_document drives it)
against the Lean walker model (Model/Walker.lean) on whole documents.  Shared by C02 / C03 / C09.

real side : per segment (matched node index path | pops | pushes | [(code, node index path or None)])
model side: the same line from the driver op WWALK over the skeleton the translator produced.
"""
import io
import json
import os

from . import common

KIND_TO_CODE = {'segNotUsed': ('2', None), 'loopNotUsed': ('2', None), 'segMaxCount': ('5', 1), 'loopMaxCount': ('4', 1),
                'mandatoryMissing': ('3', 1), 'notFound': ('1', 1)}


class RecErrh:
    """records what the walker reports: add_seg(node, …) then seg_error(code, …)"""

    def __init__(self):
        self.events = []
        self.cur = None

    def add_seg(self, map_node, seg_data, seg_count, cur_line, ls_id):
        self.cur = map_node

    def seg_error(self, err_cde, err_str, err_value=None):
        self.events.append((err_cde, self.cur))
        self.cur = None

    def take(self):
        ev, self.events, self.cur = self.events, [], None
        return ev


class Tables:
    def __init__(self):
        self.side = json.load(open(os.path.join(common.WORK, 'gen', 'tables.json')))
        self.strings = {s: i for i, s in enumerate(self.side['strings'])}
        self.extra = {}
        self.maps = {}
        self.loaded_lines = []

    def intern(self, v):
        if v is None or v == '':
            return 0
        if v in self.strings:
            return self.strings[v]
        if v not in self.extra:
            self.extra[v] = len(self.strings) + len(self.extra) + 1
        return self.extra[v]

    def real_map(self, fname):
        """(loaded map, {id(node): index path}, [WMAP line])"""
        import pyx12.map_if
        import pyx12.params
        if fname not in self.maps:
            m = pyx12.map_if.load_map_file(fname, pyx12.params.params())
            from .c16 import walk
            ips = {}
            for ip, n in walk(m):
                ips[id(n)] = ip
            mx = self.side['maps'][fname]
            c = self.side['consts']
            ln = '\t'.join(['WMAP', fname, str(c['ENT']), str(c['HL']), str(c['CTX']), str(mx['xid_n']), mx['skel']])
            self.maps[fname] = (m, ips)
            self.loaded_lines.append(ln)
        return self.maps[fname]


def ipstr(ip):
    return '.'.join(str(i) for i in ip)


def trace_document(tables, text):
    """drive the real walker as x12n_document does; returns (real trace lines, model op lines).  Model lines start
    with WRESET; WMAP lines are collected separately in tables.loaded_lines."""
    import pyx12.map_index
    import pyx12.x12file
    from pyx12.map_walker import walk_tree
    src = pyx12.x12file.X12Reader(io.StringIO(text))
    ctl_name = 'x12.control.00501.xml' if src.icvn == '00501' else 'x12.control.00401.xml'
    control, cips = tables.real_map(ctl_name)
    idx = pyx12.map_index.map_index()
    walker = walk_tree()
    errh = RecErrh()
    node = control.getnodebypath('/ISA_LOOP/ISA')
    cur_name, cur_map, cur_ips = ctl_name, control, cips
    node_map = (ctl_name, cips)
    icvn = fic = vriic = None
    map_file = ctl_name
    real, ops = [], ['WRESET']
    I = tables.intern
    it = iter(src)
    while True:
        try:
            seg = next(it)
        except StopIteration:
            break
        except Exception as ex:     # reader crash (a C04/C07 matter): the trace ends here
            return real, ops, 'reader-crash:' + type(ex).__name__
        orig = (node, node_map)
        sid = seg.get_seg_id()
        if sid == 'ISA':
            node = control.getnodebypath('/ISA_LOOP/ISA')
            node_map = (ctl_name, cips)
            walker.forceWalkCounterToLoopStart('/ISA_LOOP', '/ISA_LOOP/ISA')
            ops.append('WFORCE\t%d,0\t%d,0;%d,0' % (I('ISA_LOOP'), I('ISA_LOOP'), I('ISA')))
            real.append('ok')
        elif sid == 'GS':
            node = control.getnodebypath('/ISA_LOOP/GS_LOOP/GS')
            node_map = (ctl_name, cips)
            walker.forceWalkCounterToLoopStart('/ISA_LOOP/GS_LOOP', '/ISA_LOOP/GS_LOOP/GS')
            ops.append('WFORCE\t%d,0;%d,0\t%d,0;%d,0;%d,0' % (I('ISA_LOOP'), I('GS_LOOP'), I('ISA_LOOP'), I('GS_LOOP'), I('GS')))
            real.append('ok')
        else:
            name, ips = node_map
            ops.append('\t'.join(['WWALK', name, ipstr(ips[id(node)]), str(I(sid)), str(I(seg.get_value('01'))),
                                  str(I(seg.get_value('02'))), str(I(seg.get_value('03'))), str(I(seg.get_value('01-1')))]))
            try:
                (n2, pops, pushes) = walker.walk(node, seg, errh, src.get_seg_count(), src.get_cur_line(), src.get_ls_id())
            except Exception as ex:     # the real walker raised: a disagreement with the (total) model, reported as such
                real.append('crash:%s' % type(ex).__name__)
                return real, ops, 'walker-crash:' + type(ex).__name__
            ev = errh.take()
            real.append('%s|%s|%s|%s' % (
                ipstr(ips[id(n2)]) if n2 is not None else 'none',
                ';'.join(ipstr(ips[id(p)]) for p in pops), ';'.join(ipstr(ips[id(p)]) for p in pushes),
                ';'.join('%s@%s' % (c, ipstr(ips[id(n)]) if n is not None else '') for c, n in ev)))
            node = n2
        if node is None:
            node, node_map = orig
        else:
            if sid == 'ISA':
                icvn = seg.get_value('ISA12')
            elif sid == 'GS':
                fic, vriic = seg.get_value('GS01'), seg.get_value('GS08')
                new = idx.get_filename(icvn, vriic, fic)
                if new != map_file:
                    map_file = new
                    if map_file is None:
                        return real, ops, 'map-not-found'
                    cur_map, cur_ips = tables.real_map(map_file)
                    cur_name = map_file
                if cur_name == ctl_name:
                    return real, ops, 'map-not-found'
                node = cur_map.getnodebypath('/ISA_LOOP/GS_LOOP/GS')
                node_map = (cur_name, cur_ips)
            elif sid == 'BHT' and vriic in ('004010X094', '004010X094A1'):
                new = idx.get_filename(icvn, vriic, fic, seg.get_value('BHT02'))
                if new != map_file:
                    map_file = new
                    if map_file is None:
                        return real, ops, 'map-not-found'
                    cur_map, cur_ips = tables.real_map(map_file)
                    cur_name = map_file
                    node = cur_map.getnodebypath('/ISA_LOOP/GS_LOOP/ST_LOOP/HEADER/BHT')
                    node_map = (cur_name, cur_ips)
    return real, ops, None


def model_view(line):
    """model output -> the comparable form (kinds mapped to (code, has-node))"""
    if line in ('ok', 'no-map', 'bad-op', 'parse-error'):
        return line
    node, pops, pushes, errs = line.split('|')
    out = []
    for e in [x for x in errs.split(';') if x]:
        kind, ip = e.split('@')
        code, has = KIND_TO_CODE[kind]
        out.append('%s@%s' % (code, ip if has else ''))
    return '%s|%s|%s|%s' % (node, pops, pushes, ';'.join(out))


def compare_documents(tables, texts):
    """returns list of (doc index, segment index, real, model) for the first disagreement of each document, plus stats"""
    allops = []
    spans = []
    reals = []
    for t in texts:
        real, ops, why = trace_document(tables, t)
        spans.append((len(allops), len(ops)))
        allops.extend(ops)
        reals.append(real)
    # the driver keeps the loaded maps in its process state: every batch starts with the WMAP lines
    out = []
    batch, nb = [], 0
    groups = []
    for (a, n) in spans:
        if nb + n > 250000 and batch:
            groups.append(batch)
            batch, nb = [], 0
        batch.append((a, n))
        nb += n
    if batch:
        groups.append(batch)
    for g in groups:
        ops = []
        for (a, n) in g:
            ops.extend(allops[a:a + n])
        res = common.run_model(tables.loaded_lines + ops, chunk=10 ** 9)
        out.extend(res[len(tables.loaded_lines):])
    dis = []
    nseg = 0
    for di, ((a, n), real) in enumerate(zip(spans, reals)):
        mod = [model_view(x) for x in out[a + 1:a + n]]      # skip the WRESET reply
        nseg += len(real)
        for si, (r, m) in enumerate(zip(real, mod)):
            if r != m:
                dis.append((di, si, r, m))
                break
    return dis, nseg
