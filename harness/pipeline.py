"""
Running the real validation pipeline and observing it (shared by C02 C03 C07 C12 C18 …).

validate(text, want_997=True, want_html=False, want_xml=False, charset=None) -> Run
  .verdict      True / False / None (exception escaped)
  .exc          None or (exception type name, innermost pyx12 file, function)
  .errors       list of (level, code, seg id, seg_count, line, ele_pos, subele_pos, value) from the captured error tree
  .ack / .html / .xml  the sink texts
  .nodes        list of (segment id, matched map node path or None) from the callback

The err_handler instance is captured by substituting a recording subclass for pyx12.error_handler.err_handler for
the duration of the call (x12n_document creates its own instance).  Nothing in /repo is modified.
"""
import io
import logging
import traceback

logging.disable(logging.CRITICAL)


class Run:
    pass


def _collector():
    import pyx12.error_visitor

    class Collect(pyx12.error_visitor.error_visitor):
        def __init__(self):
            self.out = []
            self.cur_seg = None

        def visit_isa_pre(self, n):
            for e in n.errors:
                self.out.append(('isa', e[0], 'ISA', None, n.cur_line_isa, None, None, None))
            self._eles('isa-ele', 'ISA', None, n.cur_line_isa, n)

        def visit_gs_pre(self, n):
            for e in n.errors:
                self.out.append(('gs', e[0], 'GS', None, n.cur_line_gs, None, None, None))
            self._eles('gs-ele', 'GS', None, n.cur_line_gs, n)

        def visit_st_pre(self, n):
            for e in n.errors:
                self.out.append(('st', e[0], 'ST', None, n.cur_line_st, None, None, None))
            self._eles('st-ele', 'ST', None, n.cur_line_st, n)

        def _eles(self, level, sid, cnt, line, n):
            for el in getattr(n, 'elements', []):
                for e in el.errors:
                    self.out.append((level, e[0], sid, cnt, line, el.ele_pos, el.subele_pos, e[2]))

        def visit_seg(self, n):
            self.cur_seg = n
            for e in n.errors:
                self.out.append(('seg', e[0], n.seg_id, n.seg_count, n.cur_line, None, None, e[2]))

        def visit_ele(self, n):
            s = self.cur_seg
            if s is None or n.parent is not s:
                return   # envelope-level elements are reported by _eles
            for e in n.errors:
                self.out.append(('ele', e[0], s.seg_id, s.seg_count, s.cur_line, n.ele_pos, n.subele_pos, e[2]))
    return Collect()


def where(tb):
    """innermost frame inside pyx12: (file, function)"""
    loc = ('?', '?')
    for fr in traceback.extract_tb(tb):
        if '/pyx12/' in fr.filename:
            loc = (fr.filename.split('/pyx12/')[-1], fr.name)
    return loc


def validate(text, want_997=True, want_html=False, want_xml=False, charset=None, src=None, param=None, map_path=None):
    import pyx12.error_handler
    import pyx12.params
    import pyx12.x12n_document
    r = Run()
    captured = []
    orig_cls = pyx12.error_handler.err_handler

    class Rec(orig_cls):
        def __init__(self, *a, **k):
            orig_cls.__init__(self, *a, **k)
            captured.append(self)
    if param is None:
        param = pyx12.params.params()
    if charset:
        param.set('charset', charset)
    fd997 = io.StringIO() if want_997 else None
    fdhtml = io.StringIO() if want_html else None
    fdxml = io.StringIO() if want_xml else None
    r.nodes = []

    def cb(seg, s, node, valid):
        r.nodes.append((seg.get_seg_id(), node.get_path() if node is not None else None))
    pyx12.error_handler.err_handler = Rec
    r.exc = None
    try:
        try:
            r.verdict = pyx12.x12n_document.x12n_document(param, src if src is not None else io.StringIO(text),
                                                          fd997, fdhtml, fdxml, None, map_path, cb)
        except Exception as ex:
            r.verdict = None
            f, fn = where(ex.__traceback__)
            r.exc = (type(ex).__name__, f, fn, str(ex)[:200])
            ex = None
            import gc
            gc.collect()      # the sinks are closed by __del__; after an exception that waits for the cycle collector
    finally:
        pyx12.error_handler.err_handler = orig_cls
    r.errors = []
    r.errh = captured[0] if captured else None
    if captured:
        c = _collector()
        try:
            captured[0].accept(c)
            r.errors = c.out
        except Exception as ex:
            r.errors = [('collector-failed', type(ex).__name__)]
    r.ack = fd997.getvalue() if fd997 else None
    r.html = fdhtml.getvalue() if fdhtml else None
    r.xml = fdxml.getvalue() if fdxml else None
    return r


def ack_summary(ack):
    """(list of AK5/IK5 codes, list of AK9 codes) from a 997/999 text; None when empty"""
    if not ack:
        return None
    segs = [s.strip() for s in ack.replace('\n', '').split('~') if s.strip()]
    ak5 = [s.split('*')[1] for s in segs if s.split('*')[0] in ('AK5', 'IK5') and len(s.split('*')) > 1]
    ak9 = [s.split('*')[1] for s in segs if s.split('*')[0] == 'AK9' and len(s.split('*')) > 1]
    return ak5, ak9, [s.split('*')[0] for s in segs]
