"""
End-to-end differential for the CONTEXT READER: real `X12ContextReader(params, errh, StringIO(text)).iter_segments(lid)`
versus the Lean model `Doc.ctxDoc` (lean/Pyx12Verif/Model/CtxDoc.lean, driver op XCTX of Drv/CtxDoc.lean), which computes
the yields from the TEXT by composing the tokenizer, the envelope bookkeeping, the Walker model and the data-tree model
exactly as `iter_segments` does (the walker answers come from the MODEL's walker, not from a real trace as in c09.py).

    compare_ctx(texts, loop_ids) -> disagreements          [(text index, loop id, class, detail)]

`loop_ids`: one list used for every text, or one list per text.  Compared per (text, loop id):
  * how the generator ended: done / refused (X12Error out of the constructor) / notX12 / mapNotFound / mapLoadFailed /
    crash:<site>  (real side: exception class + file + function + the source line of the raising statement, mapped to
    the model's site names below; anything unmapped is reported as crash:other:<Exc>:<file>:<func>);
  * the nodes yielded BEFORE that, in order: plain node = (formatted segment, seg_count, cur_line_number), tree = nested
    (loop id, children) read through `children`, leaves as above;
  * the errors found on every yielded plain node (err_isa / err_gs / err_st / err_seg codes).

Self test:  cd /verif && /venv/bin/python -m harness.ctxdoc [quick|thorough] [seed]
"""
import io
import os
import random
import sys
import time

from . import common

WRAPPERS = ('DETAIL', 'HEADER', 'FOOTER')
ENVELOPE = ('ISA_LOOP', 'GS_LOOP', 'ST_LOOP')

# raising statement (as the traceback shows it) -> model site; the exception class is checked as well
SITES = [
    ('EngineError', 'iter_segments', 'Either cur_data_node', 'crash:reader:noCurrentNode'),
    ('AttributeError', '_add_segment', 'last_path = cur_loop_node.x12_map_node', 'crash:reader:plainNodeAsLoop'),
    ('EngineError', '_add_segment', 'Loop pop', 'crash:reader:popMismatch'),
    ('AttributeError', '_add_segment', 'cur_loop_node.id != x12_loop.id', 'crash:reader:popPastRoot'),
    ('EngineError', '_add_segment', 'cur_loop_node is None', 'crash:reader:pushOnNone'),
    ('EngineError', '_add_segment', 'raise errors.EngineError(err_str)', 'crash:reader:appendOnNone'),
    ('AssertionError', 'iter_segments', 'push_loops', 'crash:reader:pushAssert'),
    ('AssertionError', 'iter_segments', 'cur_data_node.parent is not None', 'crash:noParent'),
]


# ------------------------------------------------------------------------------------------------ real side

def _classify(ex, constructed):
    import traceback
    tb = traceback.extract_tb(ex.__traceback__)
    fr = [f for f in tb if '/pyx12/' in f.filename and '/harness/' not in f.filename]
    f = fr[-1] if fr else tb[-1]
    name, fn, fname, src = type(ex).__name__, f.name, os.path.basename(f.filename), (f.line or '')
    where = '%s:%s:%s' % (name, fname, fn)
    msg = str(ex)
    if name == 'X12Error':
        return ('refused' if not constructed else 'notX12'), where
    if name == 'EngineError' and msg.startswith('Map not found'):
        return 'mapNotFound', where
    if fname == 'map_if.py' and fn in ('load_map_file', '__init__') or name in ('FileNotFoundError',):
        return 'mapLoadFailed', where
    if fname == 'x12file.py' and fn == '__iter__' and name == 'IndexError':
        return 'crash:readerLine', where
    if fname == 'x12context.py':
        for (cls, func, needle, site) in SITES:
            if name == cls and fn == func and (needle in src or needle in msg):
                return site, where
    return 'crash:other:' + where, where


def real_ctx(text, lid, intern):
    """-> (stop, where, yield fields, [(isa codes, gs codes, st codes, seg codes) per plain node])"""
    import pyx12.error_handler
    import pyx12.params
    import pyx12.x12context
    if not hasattr(pyx12.x12context, 'X12ContextReader'):
        raise common.Infra('pyx12.x12context.X12ContextReader is missing')
    fields, errs = [], []
    constructed = False

    def leaf(n):
        return ['S', n.seg_data.format(), str(n.seg_count), str(n.cur_line_number)]

    def node(n, depth=0):
        if depth > 300:
            raise common.Infra('data tree deeper than 300')
        if n.type == 'loop':
            out = ['[', str(intern(n.id))]
            for c in n.children:
                if c.type is not None:
                    out.extend(node(c, depth + 1))
            out.append(']')
            return out
        return leaf(n)
    try:
        param = pyx12.params.params()
        errh = pyx12.error_handler.errh_null()
        rd = pyx12.x12context.X12ContextReader(param, errh, io.StringIO(text))
        constructed = True
        for d in rd.iter_segments(lid):
            fields.extend(node(d))
            if d.type == 'seg':
                errs.append(([e[0] for e in d.err_isa], [e[0] for e in d.err_gs], [e[0] for e in d.err_st],
                             [e[0] for e in d.err_seg]))
    except common.Infra:
        raise
    except Exception as ex:
        stop, where = _classify(ex, constructed)
        return stop, where, fields, errs
    return 'done', None, fields, errs


# ------------------------------------------------------------------------------------------------ model side

class Interner:
    """loop id string -> the translator's number (work/gen/tables.json `strings`), `unk` for a string no map mentions"""

    def __init__(self, L):
        self.ix = {s: i for i, s in enumerate(L.side['strings'])}
        self.unk = L.unk

    def __call__(self, s):
        return self.ix.get(s, self.unk)


def parse_reply(line, nlids):
    f = line.split('\t')
    if f and f[0] in ('bad-op', 'parse-error'):
        raise common.Infra('model driver: %s (Drv/CtxDoc.lean not registered in Driver.lean?)' % line[:100])
    out = []
    k = 0
    for _ in range(nlids):
        stop, n = f[k], int(f[k + 1])
        ys = [common.unesc(x) for x in f[k + 2:k + 2 + n]]
        k += 2 + n
        ne = int(f[k])
        k += 1
        errs = []
        for _e in range(ne):
            idx, w, r = f[k:k + 3]
            k += 3
            ws = [common.unesc(x) for x in w.split(',')] if w else []
            rs = [tuple(x.split(':', 1)) for x in r.split(',')] if r else []
            errs.append(([common.unesc(c) for lv, c in rs if lv == 'isa'], [common.unesc(c) for lv, c in rs if lv == 'gs'],
                         [common.unesc(c) for lv, c in rs if lv == 'st'],
                         ws + [common.unesc(c) for lv, c in rs if lv == 'seg']))
        out.append((stop, ys, errs))
    if k != len(f):
        raise common.Infra('model reply has %d fields, %d consumed' % (len(f), k))
    return out


def run_model(texts, lids_per_text, chunk=120):
    from . import doc
    L = doc.loaded()
    I = Interner(L)
    out = []
    pin = None
    for a in range(0, len(texts), chunk):
        ops = ['XPIN']
        for t, lids in zip(texts[a:a + chunk], lids_per_text[a:a + chunk]):
            ops.append(common.line('XCTX', ' '.join('-' if l is None else str(I(l)) for l in lids), t))
        res = common.run_model(L.lines + ops)[len(L.lines):]
        pin = res[0]
        for r, lids in zip(res[1:], lids_per_text[a:a + chunk]):
            out.append(parse_reply(r, len(lids)))
    return out, pin, I


def first_diff(a, b):
    k = next((i for i in range(min(len(a), len(b))) if a[i] != b[i]), min(len(a), len(b)))
    return 'field %d: real …%r model …%r (%d / %d fields)' % (k, a[max(0, k - 3):k + 4], b[max(0, k - 3):k + 4], len(a), len(b))


def compare_ctx(texts, loop_ids, stats=None):
    """-> [(text index, loop id, class, detail)]; classes: stop, yields, errors, pin"""
    texts = list(texts)
    if len(loop_ids) == len(texts) and all(isinstance(x, (list, tuple)) for x in loop_ids):
        per = [list(x) for x in loop_ids]
    else:
        per = [list(loop_ids)] * len(texts)
    models, pin, I = run_model(texts, per)
    dis = []
    st = stats if stats is not None else {}
    st.setdefault('pairs', 0)
    st.setdefault('stops', {})
    st.setdefault('loop_nodes', 0)
    st.setdefault('plain_nodes', 0)
    st.setdefault('plain_with_errors', 0)
    st.setdefault('real_sites', {})
    bad_pin = [x for x in (pin or '').split(' ') if x.endswith('=0') and 'control' in x]
    if bad_pin:
        dis.append((-1, None, 'pin', 'isaPinOK fails for ' + ' '.join(bad_pin)))
    for i, (t, lids, ms) in enumerate(zip(texts, per, models)):
        for lid, (mstop, mys, merrs) in zip(lids, ms):
            rstop, where, rys, rerrs = real_ctx(t, lid, I)
            st['pairs'] += 1
            st['stops'][mstop] = st['stops'].get(mstop, 0) + 1
            st['loop_nodes'] += sum(1 for x in mys if x == '[')
            st['plain_nodes'] += len(merrs)
            st['plain_with_errors'] += sum(1 for e in merrs if any(e))
            if where is not None:
                st['real_sites'][rstop + ' <- ' + where] = st['real_sites'].get(rstop + ' <- ' + where, 0) + 1
            if rstop != mstop:
                dis.append((i, lid, 'stop', 'real %s (%s) model %s; yields real %d model %d fields' % (rstop, where, mstop, len(rys), len(mys))))
                continue
            if rys != mys:
                dis.append((i, lid, 'yields', first_diff(rys, mys)))
                continue
            if rerrs != merrs:
                k = next((j for j in range(min(len(rerrs), len(merrs))) if rerrs[j] != merrs[j]), min(len(rerrs), len(merrs)))
                dis.append((i, lid, 'errors', 'plain node %d: real %r model %r (%d / %d)' % (
                    k, rerrs[k] if k < len(rerrs) else None, merrs[k] if k < len(merrs) else None, len(rerrs), len(merrs))))
    return dis


# ------------------------------------------------------------------------------------------------ corpus

def map_loop_ids(side, fname):
    m = side['maps'].get(fname)
    if not m:
        return []
    out = []
    for ip, sp, kind, nid in m['nodes']:
        if kind == 'loop' and nid not in out:
            out.append(nid)
    return out


def pick_lids(side, files, rnd, extra=3):
    """None, the envelope loops, a wrapper id, a few loop ids of the maps involved, now and then an id no map has"""
    pool = []
    for f in files:
        for l in map_loop_ids(side, f):
            if l not in pool and l not in ENVELOPE:
                pool.append(l)
    wr = [w for w in WRAPPERS if w in pool] or ['DETAIL']
    rest = [l for l in pool if l not in WRAPPERS]
    lids = [None] + list(ENVELOPE) + [rnd.choice(wr)]
    if rest:
        lids += rnd.sample(rest, min(extra, len(rest)))
    if rnd.random() < 0.15:
        lids.append('NOSUCH')
    return lids


def corpus(tier, seed):
    """-> [(kind, label, text, [map files])]: the corpus of harness/doc.py (generated, injected faults, structural mutants,
    multi-group / multi-set documents, the C07 mutation kinds, arbitrary texts) plus the arrangements of harness/c09.py
    (interchange / group / set repeated inside one file, a partner group of another transaction type)"""
    from . import doc, gendoc, c09
    out = []
    for kind, label, text in doc.corpus(tier, seed):
        if kind == 'multi':
            files = list(label[0])
        elif kind.startswith('arbitrary'):
            files = []
        else:
            files = [label[0]]
        out.append((kind, label, text, files))
    rnd = random.Random(seed * 104729 + 17)
    entries = gendoc.index_entries()
    n = 120 if tier == 'thorough' else 45
    for j in range(n):
        m = entries[j % len(entries)]
        sd = rnd.randrange(1 << 30)
        copies = rnd.choice((1, 2, 3, 4))
        g = gendoc.Gen(m['map_file'], m['icvn'], m['vriic'], m['fic'], seed=sd, p_opt=rnd.choice((0.15, 0.3, 0.5)),
                       max_rep=rnd.choice((1, 2, 3)), tspc=m.get('tspc'), p_perm=(0.5 if sd % 3 == 0 else 0.0))
        g.doc()
        gsegs = c09.arrange(list(g.segs), copies)
        files = [m['map_file']]
        partners = [e for e in entries if e['icvn'] == m['icvn'] and e['vriic'] == m['vriic'] and e['fic'] != m['fic']]
        if partners and j % 3 == 1:
            e = partners[sd % len(partners)]
            g2 = gendoc.Gen(e['map_file'], e['icvn'], e['vriic'], e['fic'], seed=sd + 1, p_opt=0.2, max_rep=2, tspc=e.get('tspc'))
            g2.doc()
            ids2 = [sg.get_seg_id() for sg, _ in g2.segs]
            grp = g2.segs[ids2.index('GS'):ids2.index('GE') + 1]
            ids1 = [sg.get_seg_id() for sg, _ in gsegs]
            k = len(ids1) - 1 - ids1[::-1].index('GE')
            gsegs = gsegs[:k + 1] + list(grp) + gsegs[k + 1:]
            files.append(e['map_file'])
        text = ''.join(sg.format('~', '*', ':') + '\n' for sg, _ in gsegs)
        out.append(('arranged', (m['map_file'], sd, copies, len(files)), text, files))
    return out


def main(argv):
    from . import doc
    tier = argv[1] if len(argv) > 1 else 'quick'
    seed = int(argv[2]) if len(argv) > 2 else common.seed()
    only = argv[3] if len(argv) > 3 else None
    t0 = time.time()
    ok, log = common.lean_build()
    if not ok:
        print(log[-3000:])
        return 2
    L = doc.loaded()
    cases = corpus(tier, seed)
    if only:
        cases = [c for c in cases if c[0].startswith(only)]
    rnd = random.Random(seed * 31337 + 5)
    # the full corpus with a small loop-id set would repeat doc.py; sample it and spend the budget on loop ids
    keep = 520 if tier == 'thorough' else 170
    if len(cases) > keep and not only:
        # the same number of documents per source, and inside a source round-robin over the maps (every indexed map is kept)
        by = {}
        for c in cases:
            by.setdefault(c[0].split(':')[0], {}).setdefault(tuple(c[3][:1]), []).append(c)
        cases = []
        share = max(1, keep // len(by))
        for k in sorted(by):
            groups = [by[k][f] for f in sorted(by[k])]
            for grp in groups:
                rnd.shuffle(grp)
            picked, j = [], 0
            while len(picked) < share and any(groups):
                grp = groups[j % len(groups)]
                if grp:
                    picked.append(grp.pop())
                j += 1
            cases.extend(picked)
    texts = [c[2] for c in cases]
    lids = [pick_lids(L.side, c[3], rnd) for c in cases]
    stats = {}
    dis = compare_ctx(texts, lids, stats)
    by_kind = {}
    for c in cases:
        k = c[0].split(':')[0]
        by_kind[k] = by_kind.get(k, 0) + 1
    print('documents by source:', by_kind)
    print('(document, loop id) pairs: %d   distinct loop ids: %d   maps: %d' % (
        stats['pairs'], len(set(l for ls in lids for l in ls)), len(set(f for c in cases for f in c[3]))))
    print('model stops:', stats['stops'])
    print('real exception sites:', stats['real_sites'])
    print('loop data nodes %d, plain nodes %d (with errors %d)' % (stats['loop_nodes'], stats['plain_nodes'], stats['plain_with_errors']))
    classes = {}
    for i, lid, cls, detail in dis:
        kind = cases[i][0].split(':')[0] if i >= 0 else '-'
        classes.setdefault((kind, cls), []).append((i, lid, detail))
    print('disagreements: %d' % len(dis))
    for (kind, cls), items in sorted(classes.items()):
        i, lid, detail = items[0]
        print('  %-10s %-8s %4d   e.g. %r lid=%r: %s' % (kind, cls, len(items), cases[i][1] if i >= 0 else None, lid, detail[:500]))
    if dis:
        d = os.path.join(common.WORK, 'ctxdoc')
        os.makedirs(d, exist_ok=True)
        seen = set()
        for i, lid, cls, detail in dis:
            key = (cases[i][0].split(':')[0] if i >= 0 else '-', cls)
            if key in seen or i < 0:
                continue
            seen.add(key)
            with open(os.path.join(d, 'dis_%s_%s_%s.txt' % (key[0], cls, lid)), 'w') as f:
                f.write(cases[i][2])
    print('%.1fs' % (time.time() - t0))
    return 1 if dis else 0


if __name__ == '__main__':
    sys.exit(main(sys.argv))


# ------------------------------------------------------------------------------------------------ use by the checks

def attach(res, texts, loop_ids, label, audit=True, limit=None):
    """End-to-end tie for C07 / C09: real `iter_segments` and the composed Lean model `Doc.ctxDoc` on the same
    (text, loop id) pairs; a disagreement breaks the correspondence.  With audit=True the theorems of Audit/CtxDoc.lean
    are added to the check's obligations."""
    if audit:
        ax, missing, _ = common.lean_audit('CtxDoc')
        for thm, a in sorted(ax.items()):
            res.obligations.append(thm)
            if set(a) <= common.STD_AXIOMS:
                res.discharged.append(thm)
            else:
                res.broke('axioms:' + thm, 'depends on ' + ', '.join(a))
        for mth in missing:
            res.obligations.append(mth)
            res.broke('theorem:' + mth, 'not found by the audit')
    if limit:
        texts = list(texts)[:limit]
        if loop_ids and isinstance(loop_ids[0], list):
            loop_ids = loop_ids[:limit]
    texts = list(texts)
    if not texts:
        return
    stats = {}
    dis = compare_ctx(texts, loop_ids, stats)
    res.count(stats.get('pairs', 0))
    res.notes.setdefault('end_to_end_ctx', {})[label] = dict(stats, disagreements=len(dis))
    for (i, lid, cls, detail) in dis[:20]:
        res.broke('correspondence:CtxDoc.ctxDoc:' + cls, '%s document %d loop %r: %s' % (label, i, lid, str(detail)[:400]))
