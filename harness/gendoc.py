"""
Conformant-document generator shared by the pipeline checks (C02 C03 C05-C10 C12 C18 C19).

Walks a loaded map in position order.  Rules: wrapper loops are transparent; a loop instance always
starts with its first segment exactly once; ISA/IEA are built from the control map; ST03 only where
usable; DTP03 follows DTP02; 1251 follows its 1250; regex elements get 123456789; segments are never
empty; composite fallback = first usable sub-element.  All random choices come from one seeded
random.Random.

Gen(map_file, icvn, vriic, fic, seed, p_opt, max_rep, tspc).doc() -> text;  .segs = [(Segment, map_node)]
index_entries() lists the selectable maps.
"""
import random, io, sys, logging, warnings, re
warnings.filterwarnings('ignore'); logging.disable(logging.CRITICAL)
import pyx12.map_if, pyx12.params, pyx12.map_index, pyx12.segment, pyx12.syntax, pyx12.validation

DATEFMT = {'D8':'20200101','RD8':'20200101-20200102','D6':'200101','DT':'20200101','TM':'1200'}
_maps = {}
def load(map_file):
    if map_file not in _maps:
        _maps[map_file] = pyx12.map_if.load_map_file(map_file, pyx12.params.params())
    return _maps[map_file]

class Gen:
    def __init__(self, map_file, icvn, vriic, fic, seed=0, p_opt=0.0, max_rep=1, tspc=None, rand_codes=True, p_rich=0.0, p_perm=0.0):
        self.map = load(map_file)
        self.icvn, self.vriic, self.fic, self.tspc = icvn, vriic, fic, tspc
        self.rng = random.Random(seed)
        self.p_opt = p_opt; self.max_rep = max_rep; self.rand_codes = rand_codes
        self.p_rich = p_rich
        self.p_perm = p_perm      # probability of permuting same-position siblings (they have no map order among themselves)
        self.segs = []
        self.hl_count = 0; self.lx = 0; self.stseg = 0
        self.is837 = self.map.id == '837'
        self.ctl = load('x12.control.%s.xml' % icvn)
        self.ctlnodes = {n.id: n for n in self.ctl.loop_segment_iterator() if n.is_segment()}
    def opt(self): return self.rng.random() < self.p_opt
    def value(self, el, dt_override=None):
        de = self.map.data_elements.get_by_elem_num(el.data_ele)
        dt, mn, mx = de['data_type'], de['min_len'], de['max_len']
        if el.valid_codes:
            return self.rng.choice(el.valid_codes) if self.rand_codes else el.valid_codes[0]
        if dt_override in DATEFMT: return DATEFMT[dt_override]
        if el.rec is not None: return '123456789'
        if el.external_codes:
            codes = self.map.ext_codes.codes[el.external_codes]['codes']
            cands = [c for c in codes if mn <= len(c) <= mx]
            if cands: return cands[0]
        if self.p_rich and self.rng.random() < self.p_rich:
            # boundary-admissible values of the declared type (length counted without sign and point for numbers)
            mn_i, mx_i = int(mn), int(mx)
            cands = []
            if dt == 'R':
                cands = [v for v in ('-.5', '.5', '-1.5', '0.25', '-1', '9' * mx_i, '-' + '9' * mx_i) if mn_i <= len(v.replace('-', '').replace('.', '')) <= mx_i]
            elif dt[0] == 'N':
                cands = [v for v in ('-1', '0', '9' * mx_i, '-' + '9' * mx_i, '1' * mn_i) if mn_i <= len(v.replace('-', '')) <= mx_i]
            elif dt == 'AN':
                cands = [v for v in ('A B', "O'NEIL", 'A-B/C', '(X)', 'A.B,C', 'Z' * mx_i, 'A' * mn_i + '!') if mn_i <= len(v) <= mx_i]
            elif dt == 'TM':
                cands = [v for v in ('0000', '2359', '235959', '23595999', '1200301') if mn_i <= len(v) <= mx_i]
            elif dt in ('DT', 'D8') and mx_i >= 8:
                cands = ['20240229', '18000101', '20001231']
            if cands:
                return self.rng.choice(cands)
        if dt in ('ID','AN','B'): return 'A'*mn
        if dt[0]=='N' or dt=='R': return '1'*mn
        if dt in ('DT','D8'): return '20200101' if mx>=8 else '200101'
        if dt=='D6': return '200101'
        if dt=='TM': return '1200'
        if dt=='RD8': return '20200101-20200102'
        raise Exception('dtype %s'%dt)
    def flat(self, sn):
        """list of (i, j, node) for simple elements and sub-elements"""
        out=[]
        for i,c in enumerate(sn.children):
            if c.is_composite():
                for j,sc in enumerate(c.children): out.append((i,j,sc,c))
            else: out.append((i,None,c,None))
        return out
    def build_seg(self, sn):
        seg = pyx12.segment.Segment(sn.id, '~','*',':')
        n = len(sn.children)
        want = [False]*n
        for i,c in enumerate(sn.children):
            if c.usage=='R': want[i]=True
            elif c.usage=='S' and self.opt(): want[i]=True
        usable = [c.usage!='N' for c in sn.children]
        # 1251 needs its 1250
        for i,c in enumerate(sn.children):
            if not c.is_composite() and c.data_ele=='1251' and want[i]:
                for k in range(i-1,-1,-1):
                    ck = sn.children[k]
                    if not ck.is_composite() and ck.data_ele=='1250' and usable[k]: want[k]=True; break
        if not any(want):
            for i in range(n):
                if usable[i]: want[i]=True; break
        for _ in range(6):
            for syn in sn.syntax:
                t, idx = syn[0], [i-1 for i in syn[1:]]
                idx_ok = [i for i in idx if i < n]
                pres = [i for i in idx_ok if want[i]]
                if t=='P' and 0 < len(pres) < len(idx):
                    if all(usable[i] for i in idx_ok) and len(idx_ok)==len(idx):
                        for i in idx: want[i]=True
                    else:
                        for i in idx_ok:
                            if sn.children[i].usage!='R': want[i]=False
                elif t=='R' and not pres:
                    for i in idx_ok:
                        if usable[i]: want[i]=True; break
                elif t=='E' and len(pres)>1:
                    keep = [i for i in pres if sn.children[i].usage=='R'] or pres[:1]
                    for i in pres:
                        if i not in keep[:1]: want[i]=False
                elif t=='C' and idx[0]<n and want[idx[0]]:
                    for i in idx[1:]:
                        if i<n and usable[i]: want[i]=True
                elif t=='L' and idx[0]<n and want[idx[0]] and not any(want[i] for i in idx[1:] if i<n):
                    for i in idx[1:]:
                        if i<n and usable[i]: want[i]=True; break
        dtp_fmt=None; type1250=None; types1250=[]
        for i,c in enumerate(sn.children):
            if not c.is_composite() and c.data_ele=='1250': types1250 += c.valid_codes
            if not want[i]: continue
            rd = '%02i'%(i+1)
            if c.is_composite():
                t1250=None; any_set=False
                for j,sc in enumerate(c.children):
                    need = sc.usage=='R' or (sc.usage=='S' and self.opt())
                    if sc.data_ele=='1251' and need:
                        pass
                    if need:
                        ov = t1250 if sc.data_ele=='1251' else None
                        v = self.value(sc, ov)
                        if sc.data_ele=='1250': t1250 = v
                        seg.set('%s-%i'%(rd,j+1), v); any_set=True
                if not any_set:
                    for j,sc in enumerate(c.children):
                        if sc.usage!='N':
                            seg.set('%s-%i'%(rd,j+1), self.value(sc)); break
            else:
                ov=None
                if sn.id=='DTP' and i==2 and dtp_fmt in DATEFMT: ov=dtp_fmt
                if c.data_ele=='1251':
                    ov = type1250 if type1250 in DATEFMT else (types1250[0] if types1250 and types1250[0] in DATEFMT else ov)
                v = self.value(c, ov)
                if sn.id=='DTP' and i==1: dtp_fmt=v
                if c.data_ele=='1250': type1250 = v
                seg.set(rd, v)
        return seg
    def emit_seg(self, sn, loop_ctx):
        src_node = self.ctlnodes[sn.id] if sn.id in ('ISA','IEA') else sn
        seg = self.build_seg(src_node)
        sid = sn.id
        if sid=='ISA':
            seg.set('ISA12', self.icvn); seg.set('ISA11', '^' if self.icvn=='00501' else 'U'); seg.set('ISA13','000000001'); seg.set('ISA16', ':'); seg.set('ISA14','0')
        elif sid=='GS':
            seg.set('GS01', self.fic); seg.set('GS08', self.vriic); seg.set('GS06','1')
        elif sid=='ST':
            seg.set('ST02','0001'); self.stseg = len(self.segs)
            if self.icvn=='00501' and len(sn.children)>=3 and sn.children[2].usage!='N': seg.set('ST03', self.vriic)
            self.hl_count=0
        elif sid=='SE':
            seg.set('SE01', str(len(self.segs)-self.stseg+1)); seg.set('SE02','0001')
        elif sid=='GE':
            seg.set('GE01','1'); seg.set('GE02','1')
        elif sid=='IEA':
            seg.set('IEA01','1'); seg.set('IEA02','000000001')
        elif sid=='BHT' and self.tspc:
            seg.set('BHT02', self.tspc)
        elif sid=='HL':
            self.hl_count+=1
            seg.set('HL01', str(self.hl_count))
            par = loop_ctx.get('hl_parent')
            seg.set('HL02', str(par) if par else '')
            loop_ctx['hl_self'] = self.hl_count
        elif sid=='CLM' and self.is837:
            self.lx=0
        elif sid=='LX' and self.is837:
            self.lx+=1; seg.set('LX01', str(self.lx))
        self.segs.append((seg, sn))
    def emit_children(self, node, ctx):
        first = True
        for o in sorted(node.pos_map):
            bucket = list(node.pos_map[o])
            if self.p_perm and len(bucket) > 1 and not first and self.rng.random() < self.p_perm:
                self.rng.shuffle(bucket)
            for c in bucket:
                if c.is_loop(): self.emit_loop(c, ctx)
                elif first and node.is_loop() and node.type != 'wrapper':
                    # a loop instance always begins with its first segment, exactly once
                    self.emit_seg(c, ctx)
                else: self.emit_segnode(c, ctx)
                first = False
    def count(self, usage, mx):
        if usage=='N': return 0
        if usage!='R' and not self.opt(): return 0
        return self.rng.randint(1, max(1,min(mx, self.max_rep)))
    def emit_segnode(self, sn, ctx):
        for _ in range(self.count(sn.usage, sn.get_max_repeat())):
            self.emit_seg(sn, ctx)
    def emit_loop(self, ln, ctx):
        n = self.count(ln.usage, ln.get_max_repeat())
        if ln.id in ('ISA_LOOP','GS_LOOP','ST_LOOP'): n = 1
        if ln.type == 'wrapper': n = 0 if ln.usage=='N' else 1
        for _ in range(n):
            c2 = {'hl_parent': ctx.get('hl_self', ctx.get('hl_parent'))}
            self.emit_children(ln, c2)
    def doc(self):
        self.emit_children(self.map, {})
        return '\n'.join(s.format('~','*',':') for s,_ in self.segs)+'\n'

def index_entries():
    mi = pyx12.map_index.map_index()
    out=[]
    for m in mi.maps:
        if m['abbr']=='X12' or m['icvn']=='00400': continue
        if m['fic']=='FA' and m['vriic'] not in ('004010','005010X231','005010X231A1'): continue
        if m['map_file'].startswith('841'): continue
        out.append(m)
    return out
