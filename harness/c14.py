"""
C14 - syntax notes (P, R, E, C, L) are evaluated exactly as X12 defines them.

Theorems (lean/Pyx12Verif/Props/C14.lean): the model of pyx12.syntax.is_syntax_valid reports a note violated iff the
X12 definition says so (every note with >= 2 positions in 01..99, every segment = every length x every presence
pattern), a violated note is routed to one element error (10 for E, 2 otherwise) at its first position, a satisfied
note to none; the note-text parser inverts the two-digit rendering.

Tie (EXHAUSTIVE, the domain is finite and small; quick = thorough):
 A. every syntax note of every map file (own xml.etree parse, both schema styles), deduplicated by
    (type, positions, child count) x all 2^n presence patterns of the mentioned positions x all lengths 0..max+1
    x {other elements empty, other elements filled} (+ "empty composite" spelling of an absent element),
    through pyx12.syntax.is_syntax_valid on synthetic pyx12.segment.Segment objects;
 B. generic: all five types x arities 2-4 x ordered tuples of distinct positions 1..6 x every segment over
    lengths 0..7, whether or not a map contains the note (disagreement => correspondence broken, no failing input),
    plus the corners outside the theorems' hypotheses (position 00, three-digit position, < 2 positions, unknown
    type, repeated position) model-vs-code only;
 C. routing: every distinct (segment id, children, note list) of every loadable map through segment_if.is_valid with
    pyx12.error_handler.errh_list, all patterns x all lengths 0..children+1;
 D. parsing: every note text of every map: own parse = what the loader attached to the node = the model's parse, and
    the theorems' hypotheses (>= 2 positions, 01..99, no repeats) hold for each.
Property oracle: the X12 definitions as the property text words them (x12_violated), independent of code and model.
"""
import glob
import itertools
import os
import re
import xml.etree.ElementTree as ET

from . import common

TYPES = 'PRECL'
NOTE_RE = re.compile(r'([PRECL])((?:[0-9][0-9])+)\Z')


# ------------------------------------------------------------------------------------ the property oracle

def x12_violated(t, pres):
    """pres[i]: is the i-th listed position present.  Wording of the property text."""
    if t == 'P':        # paired - some but not all present
        return any(pres) and not all(pres)
    if t == 'R':        # required - none present
        return not any(pres)
    if t == 'E':        # exclusion - more than one present
        return any(pres[i] and pres[j] for i in range(len(pres)) for j in range(i + 1, len(pres)))
    if t == 'C':        # conditional - first present and any other absent
        return pres[0] and not all(pres[1:])
    if t == 'L':        # list conditional - first present and all others absent
        return pres[0] and not any(pres[1:])
    raise ValueError(t)


def is_present(vals, k):
    """vals: element values of the synthetic segment (element 1 first)"""
    return 1 <= k <= len(vals) and vals[k - 1] not in ('', ':')


def want_verdict(t, pos, vals):
    return 'violated' if x12_violated(t, [is_present(vals, k) for k in pos]) else 'valid'


def want_errors(notes, vals):
    out = []
    for t, pos in notes:
        if x12_violated(t, [is_present(vals, k) for k in pos]):
            out.append(('10' if t == 'E' else '2', pos[0]))
    return out


# ------------------------------------------------------------------------------------ synthetic segments

def seg_text(seg_id, vals):
    return seg_id + ''.join('*' + v for v in vals) + '~'


def mk_segment(seg_id, vals):
    import pyx12.segment
    return pyx12.segment.Segment(seg_text(seg_id, vals), '~', '*', ':')


def bits(vals):
    return ''.join('0' if v in ('', ':') else '1' for v in vals)


def impl_verdict(seg, t, pos):
    from pyx12.syntax import is_syntax_valid
    try:
        r = is_syntax_valid(seg, [t] + list(pos))
    except Exception as e:
        return 'crash:' + type(e).__name__
    ok = r[0] if isinstance(r, tuple) else r
    return 'valid' if ok else 'violated'


def crash_key(exc):
    import traceback
    tb = traceback.extract_tb(exc.__traceback__)
    inner = [f for f in tb if os.sep + 'pyx12' + os.sep in f.filename]
    f = inner[-1] if inner else tb[-1]
    return 'crash:%s:%s:%s' % (type(exc).__name__, os.path.basename(f.filename), f.name)


def in_syntax_stage(exc, node):
    """did the exception come from the syntax loop of segment_if.is_valid?  Yes iff the traceback passes through
    syntax.py or the exception was raised directly in the body of this node's is_valid (everything before the
    syntax loop there is a call into element/composite validation).  Otherwise element validation raised first and
    the syntax loop was never reached: not observable here (C07/C15/C16 territory)."""
    tb = exc.__traceback__
    last = None
    while tb is not None:
        if os.path.basename(tb.tb_frame.f_code.co_filename) == 'syntax.py':
            return True
        last = tb
        tb = tb.tb_next
    return last is not None and last.tb_frame.f_locals.get('self') is node


# ------------------------------------------------------------------------------------ own parse of the map files

def map_dir():
    return os.path.join(common.REPO, 'pyx12', 'map')


def own_parse(text):
    m = NOTE_RE.match(text or '')
    if not m:
        return None
    return (m.group(1), tuple(int(m.group(2)[i:i + 2]) for i in range(0, len(m.group(2)), 2)))


def xml_segments(path):
    """[(segment id, child count, [note texts])] for one map file; None if it is not a transaction map"""
    root = ET.parse(path).getroot()
    if root.tag != 'transaction':
        return None, 0
    out = []
    for seg in root.iter('segment'):
        seqs = set()
        for e in seg.findall('element') + seg.findall('composite'):
            s = e.get('seq') if e.get('seq') else e.findtext('seq')
            seqs.add(int(s))
        out.append((seg.get('xid'), len(seqs), [s.text for s in seg.findall('syntax')]))
    ncomp = sum(len(c.findall('syntax')) for c in root.iter('composite'))
    return out, ncomp


def wf(note):
    t, pos = note
    return len(pos) >= 2 and all(1 <= k <= 99 for k in pos) and len(set(pos)) == len(pos) and t in TYPES


# ------------------------------------------------------------------------------------ parts

def enum_vals(pos, length, mask, background, absent=''):
    """element values of a segment of `length` elements: listed position pos[i] present iff bit i of mask"""
    vals = [background] * length
    for i, k in enumerate(pos):
        if 1 <= k <= length:
            vals[k - 1] = 'X' if (mask >> i) & 1 else absent
    return vals


def part_direct(res, classes, where, built):
    """A: is_syntax_valid on every map note class"""
    cases = []
    for (t, pos, cc) in sorted(classes):
        top = max(cc, max(pos)) + 1
        for length in range(0, top + 1):
            for mask in range(1 << len(pos)):
                for bg, absent in (('', ''), ('X', ''), ('', ':')):
                    cases.append((t, pos, cc, enum_vals(pos, length, mask, bg, absent)))
    model = None
    if built:
        model = common.run_model([common.line('SYN.V', t, ','.join(map(str, pos)), bits(v)) for (t, pos, cc, v) in cases])
    nviol = 0
    for i, (t, pos, cc, vals) in enumerate(cases):
        seg = mk_segment('TST', vals)
        got = impl_verdict(seg, t, pos)
        want = want_verdict(t, pos, vals)
        res.count()
        res.distinct(('A', t, pos, tuple(vals)), nontrivial=len(vals) > 0)
        if want == 'violated':
            nviol += 1
        if (i + common.seed() * 37) % 9973 == 5:
            res.sample({'note': t + ''.join('%02d' % k for k in pos), 'segment': seg_text('TST', vals), 'impl': got,
                        'model': model[i] if model else None, 'x12': want})
        if got != want:
            if got.startswith('crash'):
                key = 'crash:%s:syntax.py:is_syntax_valid' % got.split(':')[1]
            else:
                key = 'pred:%s:%s' % (t, 'violated-note-reported-valid' if want == 'violated' else 'satisfied-note-reported-violated')
            res.violation(key, 'note %s%s on %s (child count %d): is_syntax_valid says %s, X12 says %s; e.g. in %s' %
                          (t, ''.join('%02d' % k for k in pos), seg_text('TST', vals), cc, got, want, where[(t, pos, cc)][0]),
                          {'kind': 'direct', 'call': 'pyx12.syntax.is_syntax_valid', 'segment': seg_text('TST', vals),
                           'note': [t] + list(pos), 'observed': got, 'required': want,
                           'model': model[i] if model else None, 'maps': where[(t, pos, cc)][:5]})
        elif model is not None and model[i] != got:
            res.broke('correspondence:Syn.isSyntaxValid[%s]' % t,
                      'map note %s%s segment %s: code %s, model %s (theorem syntaxViolated_iff no longer transfers)' %
                      (t, ''.join('%02d' % k for k in pos), seg_text('TST', vals), got, model[i]))
    res.notes['A_direct'] = {'note_classes': len(classes), 'evaluations': len(cases), 'violated_by_x12': nviol}


def part_generic(res, classes, built):
    """B: all five types x arities 2-4 x positions 1..6 on every segment of length 0..7"""
    segs = []
    for length in range(0, 7):
        for m in range(1 << length):
            segs.append(['X' if (m >> i) & 1 else '' for i in range(length)])
    for m in range(1 << 6):
        segs.append(['X' if (m >> i) & 1 else '' for i in range(6)] + ['X'])
    seg_objs = [mk_segment('TST', v) for v in segs]
    seg_bits = [bits(v) for v in segs]
    notes = []
    for ar in (2, 3, 4):
        for pos in itertools.permutations(range(1, 7), ar):
            for t in TYPES:
                notes.append((t, pos))
    lines = []
    for (t, pos) in notes:
        p = ','.join(map(str, pos))
        for b in seg_bits:
            lines.append(common.line('SYN.V', t, p, b))
    model = common.run_model(lines) if built else None
    in_maps = set((t, pos) for (t, pos, cc) in classes)
    bad = {}
    i = 0
    for (t, pos) in notes:
        for j, vals in enumerate(segs):
            got = impl_verdict(seg_objs[j], t, pos)
            want = want_verdict(t, pos, vals)
            mod = model[i] if model else got
            i += 1
            res.distinct(('B', t, pos, seg_bits[j]), nontrivial=len(vals) > 0)
            if got != want or mod != got:
                # the same note inside a map is reported as a violation by part A; here: the theorem no longer transfers
                bad.setdefault(t, []).append('note %s%s segment %s: code %s, model %s, X12 %s%s' % (
                    t, ''.join('%02d' % k for k in pos), seg_text('TST', vals), got, mod, want,
                    ' (note occurs in maps)' if (t, pos) in in_maps else ' (no map note affected)'))
    res.count(i)
    for t, items in sorted(bad.items()):
        res.broke('correspondence:Syn.isSyntaxValid[%s]:generic' % t,
                  '%d generic case(s) disagree; theorem syntaxViolated_iff/syntaxValid_iff no longer transfers for type %s; first: %s'
                  % (len(items), t, ' | '.join(items[:3])))
    # corners outside the hypotheses of the theorems: model vs code only
    corner_notes = [('R', (0, 1)), ('P', (0, 2)), ('C', (0, 1)), ('L', (0, 1)), ('E', (0, 0)), ('P', (1, 100)), ('C', (100, 1)),
                    ('L', (100, 1)), ('C', (1, 100)), ('L', (1, 100)), ('R', (100, 101)), ('E', (2, 2)), ('E', (1, 2, 1)),
                    ('P', (2, 2)), ('X', (1, 2)), ('p', (1, 2)), ('P', (1,)), ('E', (2,)), ('C', (1,)), ('P', ()), ('E', ())]
    csegs = [s for s in segs if len(s) <= 3]
    clines = [common.line('SYN.V', t, ','.join(map(str, pos)), bits(v)) for (t, pos) in corner_notes for v in csegs]
    cmodel = common.run_model(clines) if built else None
    n = 0
    cbad = []
    for (t, pos) in corner_notes:
        for v in csegs:
            got = impl_verdict(mk_segment('TST', v), t, pos).split(':')[0]
            if cmodel is not None and cmodel[n] != got:
                cbad.append('note %s%r segment %s: code %s, model %s' % (t, pos, seg_text('TST', v), got, cmodel[n]))
            n += 1
    res.count(n)
    if cbad:
        res.broke('correspondence:Syn.isSyntaxValid:corners', '%d corner case(s); first: %s' % (len(cbad), ' | '.join(cbad[:3])))
    res.notes['B_generic'] = {'notes': len(notes), 'segments': len(segs), 'evaluations': i, 'corner_evaluations': n,
                              'disagreements': sum(len(v) for v in bad.values()) + len(cbad)}


def node_signature(node):
    kids = tuple((bool(c.is_composite()), c.usage) for c in node.children)
    return (node.id, node.get_child_count(), tuple(tuple(s) for s in node.syntax), kids)


def child_refdes(node):
    out = set()
    for c in node.children:
        out.add(getattr(c, 'refdes', None))
        if c.is_composite():
            for sc in c.children:
                out.add(getattr(sc, 'refdes', None))
    return out


def observe_errors(node, seg):
    """syntax-note errors among the element-level errors of segment_if.is_valid: [(code, position)], result flag"""
    import pyx12.error_handler
    errh = pyx12.error_handler.errh_list()
    ok = node.is_valid(seg, errh)
    own = child_refdes(node)
    too_many = '%02i' % (node.get_child_count() + 1)
    out = []
    for ent in errh.err_ele:
        code, refdes = ent[0], ent[3]
        if refdes is None:
            continue                # composite errors of maps whose composites carry no reference designator
        if isinstance(refdes, str):
            if refdes in own or (code == '3' and refdes == too_many):
                continue            # an element's / composite's own error, or "too many elements"
            if refdes.isdigit():
                refdes = int(refdes)
        out.append((str(code), refdes))
    return out, ok


def routing_patterns(notes, cc):
    """value lists for one node: all lengths 0..cc+1; all patterns of the union of mentioned positions when it is
    small, otherwise per note all patterns of its positions with the other mentioned positions all empty / all filled"""
    union = sorted(set(k for _, pos in notes for k in pos))
    seen = set()
    for length in range(0, cc + 2):
        if len(union) <= 6:
            for mask in range(1 << len(union)):
                vals = enum_vals(union, length, mask, 'X')
                if tuple(vals) not in seen:
                    seen.add(tuple(vals))
                    yield vals
        else:
            for _, pos in notes:
                others = [k for k in union if k not in pos]
                for mask in range(1 << len(pos)):
                    for fill in (0, (1 << len(others)) - 1):
                        vals = enum_vals(list(pos) + others, length, mask | (fill << len(pos)), 'X')
                        if tuple(vals) not in seen:
                            seen.add(tuple(vals))
                            yield vals


def part_routing(res, nodes, built):
    """C: segment_if.is_valid + errh_list"""
    cases = []
    for sig, (node, mapfile) in sorted(nodes.items(), key=lambda kv: repr(kv[0])):
        notes = [(s[0], tuple(s[1:])) for s in sig[2]]
        for vals in routing_patterns(notes, sig[1]):
            cases.append((sig, node, mapfile, notes, vals))
    model = None
    if built:
        model = common.run_model([common.line('SYN.R', ';'.join('%s:%s' % (t, ','.join(map(str, pos))) for t, pos in notes), bits(vals))
                                  for (_, _, _, notes, vals) in cases])
    nerr = 0
    unobs = {}
    for i, (sig, node, mapfile, notes, vals) in enumerate(cases):
        seg = mk_segment(node.id, vals)
        rep = {'kind': 'routing', 'call': 'segment_if.is_valid', 'map': mapfile, 'node_path': node.get_path(),
               'notes': [[t] + list(pos) for t, pos in notes], 'segment': seg_text(node.id, vals)}
        res.count()
        res.distinct(('C', sig[0], sig[1], sig[2], tuple(vals)), nontrivial=len(vals) > 0)
        want = want_errors(notes, vals)
        try:
            got, ok = observe_errors(node, seg)
        except Exception as e:
            if not in_syntax_stage(e, node):
                k = crash_key(e)
                unobs[k] = unobs.get(k, 0) + 1
                continue
            rep.update({'observed': 'raise ' + repr(e), 'required': want})
            res.violation(crash_key(e), 'segment_if.is_valid raised on %s (%s %s)' % (seg_text(node.id, vals), mapfile, node.get_path()), rep)
            continue
        nerr += len(want)
        if i % 4001 == (common.seed() * 13) % 4001:
            res.sample({'map': mapfile, 'node': node.get_path(), 'segment': seg_text(node.id, vals), 'syntax_errors': got,
                        'model': model[i] if model else None, 'x12': want})
        bad = None
        if sorted(got, key=repr) != sorted(want, key=repr):
            missing = list(want)
            extra = []
            for g in got:
                if g in missing:
                    missing.remove(g)
                else:
                    extra.append(g)
            tmiss = [t for t, pos in notes if (('10' if t == 'E' else '2'), pos[0]) in missing][:1]
            if missing and extra:
                bad = 'pred:routing:%s:wrong-code-or-position' % ''.join(tmiss)
            elif missing:
                bad = 'pred:routing:%s:violated-note-without-error' % ''.join(tmiss)
            else:
                bad = 'pred:routing:error-for-satisfied-note:code-%s' % extra[0][0]
        elif want and ok:
            bad = 'pred:routing:violated-note-but-segment-reported-valid'
        if bad:
            rep.update({'observed': got, 'required': want, 'is_valid_result': ok, 'model': model[i] if model else None})
            res.violation(bad, '%s %s segment %s: syntax errors %r, X12 requires %r' %
                          (mapfile, node.get_path(), seg_text(node.id, vals), got, want), rep)
        elif model is not None:
            m = 'crash' if model[i] == 'crash' else [(x.split('@')[0], int(x.split('@')[1])) for x in model[i].split(';') if x]
            if m != got:
                res.broke('correspondence:Syn.syntaxErrors', '%s %s segment %s: code %r, model %r' %
                          (mapfile, node.get_path(), seg_text(node.id, vals), got, m))
    res.notes['C_routing'] = {'node_classes': len(nodes), 'evaluations': len(cases), 'expected_syntax_errors': nerr,
                              'element_validation_raised_before_the_syntax_loop (not observable, other properties)': unobs}


def part_parser(res, texts_cc, built):
    """D (model side): every note text: model parse = own parse; hypotheses of the theorems hold"""
    items = sorted(texts_cc)
    if built:
        mp = common.run_model([common.line('SYN.P', t) for (t, cc) in items])
        mw = common.run_model([common.line('SYN.W', t, cc) for (t, cc) in items])
    nbad = 0
    beyond = []
    for i, (text, cc) in enumerate(items):
        own = own_parse(text)
        res.count()
        ok = own is not None and wf(own)
        within = own is not None and all(k <= cc for k in own[1])
        if own is not None and not within:
            beyond.append('%s/%d' % (text, cc))
        if built:
            exp = 'ok:%s:%s' % (own[0], ','.join(map(str, own[1]))) if own else None
            if own is not None and mp[i] != exp:
                res.broke('correspondence:Syn.splitSyntax', 'text %r: own parse %s, model %s' % (text, exp, mp[i]))
            if mw[i] != '%d%d' % (ok, within):
                res.broke('correspondence:Syn.wfB', 'text %r child count %d: own %d%d, model %s' % (text, cc, ok, within, mw[i]))
        if not ok:
            nbad += 1
            res.broke('hypothesis:WF', 'map note %r is outside the theorems (needs a type in PRECL and >= 2 two-digit '
                      'positions in 01..99, none repeated)' % (text,))
    # generic texts through the loader's splitter, when it is still there under that name (anchor, not observe_at)
    import pyx12.map_if
    split = getattr(pyx12.map_if.segment_if, '_split_syntax', None)
    gen = ['P0304', 'R020305', 'L07030506', 'E0809', 'C1110', 'P03045', 'P0304056', 'X0304', 'p0304', 'P', 'P03', 'E', 'P9900',
           'P0a04', 'P 304', '', 'P0000']
    n = 0
    if split is not None and built:
        mg = common.run_model([common.line('SYN.P', t) for t in gen])
        for t, m in zip(gen, mg):
            try:
                r = split(None, t)
                got = 'dropped' if r is None else 'ok:%s:%s' % (r[0], ','.join(map(str, r[1:])))
            except Exception:
                got = 'crash'
            n += 1
            if m == 'outside':
                continue            # a chunk that is not two ASCII digits: outside the modelled domain
            if m != got:
                res.broke('correspondence:Syn.splitSyntax:generic', 'text %r: code %s, model %s' % (t, got, m))
    res.count(n)
    res.notes['D_parser'] = {'distinct_text_childcount': len(items), 'outside_hypotheses': nbad, 'generic_texts': n,
                            'notes_mentioning_a_position_beyond_the_child_count (text/children; map information only)': beyond}


def collect(res):
    """own XML parse of every map + the loaded maps; returns note classes, node classes, texts"""
    import pyx12.map_if
    import pyx12.params
    for name in ('load_map_file',):
        if not hasattr(pyx12.map_if, name):
            raise common.Infra('pyx12.map_if.%s missing' % name)
    classes = {}        # (type, positions, cc) -> [map files]
    texts_cc = set()
    nodes = {}          # signature -> (node, map file)
    files = []
    skipped = {}
    total_notes = 0
    comp_notes = {}
    for path in sorted(glob.glob(os.path.join(map_dir(), '*.xml'))):
        fn = os.path.basename(path)
        try:
            segs, ncomp = xml_segments(path)
        except ET.ParseError as e:
            skipped[fn] = 'xml: %s' % e
            continue
        if segs is None:
            continue
        files.append(fn)
        if ncomp:
            comp_notes[fn] = ncomp
        xml_ms = {}
        for (sid, cc, texts) in segs:
            parsed = []
            for text in texts:
                total_notes += 1
                texts_cc.add((text or '', cc))
                own = own_parse(text)
                if own is None:
                    continue            # reported by part D as outside the hypotheses
                parsed.append(own)
                classes.setdefault((own[0], own[1], cc), []).append(fn)
            k = (sid, cc, tuple(parsed))
            xml_ms[k] = xml_ms.get(k, 0) + 1
        try:
            m = pyx12.map_if.load_map_file(fn, pyx12.params.params())
        except Exception as e:
            skipped[fn] = 'load_map_file: %s: %s' % (type(e).__name__, str(e)[:80])
            continue
        load_ms = {}
        file_nodes = {}
        for node in m.loop_segment_iterator():
            if not node.is_segment():
                continue
            k = (node.id, node.get_child_count(), tuple((s[0], tuple(s[1:])) for s in node.syntax))
            load_ms[k] = load_ms.get(k, 0) + 1
            if node.syntax:
                file_nodes.setdefault(node_signature(node), (node, fn))
        if load_ms == xml_ms:
            for k, v in file_nodes.items():
                nodes.setdefault(k, v)
        else:               # the routing part would run on notes that are not the file's notes: report and leave the file out
            diff = sorted(set(xml_ms.items()) ^ set(load_ms.items()), key=repr)[:4]
            res.violation('map:%s:notes-attached-differ-from-file' % fn,
                          'notes the loader attached to the segments of %s differ from the note texts in the file: %s' % (fn, repr(diff)[:300]),
                          {'kind': 'loader', 'map': fn, 'difference (segment id, child count, notes) -> multiplicity': repr(diff)})
    res.notes['maps'] = {'transaction_map_files': len(files), 'not_loadable_skipped_for_routing': skipped,
                         'segment_level_notes': total_notes,
                         'composite_level_notes_never_evaluated_by_pyx12': comp_notes}
    return classes, nodes, texts_cc


def run(tier):
    res = common.Result('C14', tier)
    res.cov['rule'] = ('EXHAUSTIVE. A case is (note, child count, synthetic segment) resp. (segment node class, synthetic segment); '
                       'distinct by that tuple; non-trivial = the segment has at least one element. '
                       'Domain: every syntax note of every map file x all presence patterns of its positions x all lengths '
                       '0..max(child count, highest position)+1 x backgrounds; generic 5 types x arity 2-4 x positions 1..6 x all '
                       'segments of length 0..7; routing through segment_if.is_valid for every node class of every loadable map')
    built = common.proof_stage(res, 'C14')
    for mod, names in (('pyx12.syntax', ['is_syntax_valid']), ('pyx12.segment', ['Segment']), ('pyx12.error_handler', ['errh_list'])):
        m = __import__(mod, fromlist=names)
        for nme in names:
            if not hasattr(m, nme):
                raise common.Infra('%s.%s missing' % (mod, nme))
    classes, nodes, texts_cc = collect(res)
    part_parser(res, texts_cc, built)
    part_direct(res, set(classes), classes, built)
    part_generic(res, set(classes), built)
    part_routing(res, nodes, built)
    res.notes['exhaustive'] = True
    res.notes['input_distribution'] = {
        'note_shapes': dict(sorted(_shape_hist(classes).items())),
        'tier_note': 'quick = thorough: the whole domain is enumerated; VERIF_SEED only selects which cases are kept as samples'}
    res.assumptions = ['a data segment is observed by the anchored code only through len() and get_value(); synthetic segments '
                       'use the values "X" (present), "" and ":" (absent)',
                       'composite-level <syntax> children (only in 837Q3.I.5010.X223.A1.v2.xml) are outside the property: '
                       'pyx12 never evaluates them',
                       'the Lean spec (Satisfied/Violated) and the Python oracle x12_violated are two independent transcriptions']
    return res.finish(trusted=common.TRUSTED_COMMON + [
        'modelled: syntax.is_syntax_valid, segment_if._split_syntax, the syntax loop of segment_if.is_valid; '
        'Segment.get_value abstracted to a list of strings (position 00 / three-digit designators modelled as observed)',
        'own xml.etree parse of the map files for the enumeration of notes'])


def _shape_hist(classes):
    h = {}
    for (t, pos, cc) in classes:
        k = '%s%d' % (t, len(pos))
        h[k] = h.get(k, 0) + 1
    return h


def replay(d):
    r = d['replay']
    if 'broken' in r:
        for b in r['broken']:
            print('%s: %s' % (b['name'], b['detail']))
        print('no failing input recorded: re-run ./check C14 to see whether the obligation / correspondence still breaks')
        return 1
    kind = r.get('kind')
    if kind == 'direct':
        note = r['note']
        seg = r['segment']
        import pyx12.segment
        got = impl_verdict(pyx12.segment.Segment(seg, '~', '*', ':'), note[0], note[1:])
        print('is_syntax_valid(%s, %r) -> %s (required %s)' % (seg, note, got, r['required']))
        return 0 if got == r['required'] else 1
    if kind == 'routing':
        import pyx12.map_if
        import pyx12.params
        import pyx12.segment
        m = pyx12.map_if.load_map_file(r['map'], pyx12.params.params())
        want = [tuple(x) for x in r['required']] if isinstance(r['required'], list) else r['required']
        for node in m.loop_segment_iterator():
            if node.is_segment() and node.get_path() == r['node_path'] and [list(s) for s in node.syntax] == r['notes']:
                try:
                    got, ok = observe_errors(node, pyx12.segment.Segment(r['segment'], '~', '*', ':'))
                except Exception as e:
                    print('segment_if.is_valid raised %r (required syntax errors %r)' % (e, want))
                    return 1
                print('%s %s on %s: syntax errors %r, is_valid=%s (required %r)' % (r['map'], r['node_path'], r['segment'], got, ok, want))
                good = sorted(got, key=repr) == sorted(want, key=repr) and not (want and ok)
                return 0 if good else 1
        print('node %s with notes %r not found in %s' % (r['node_path'], r['notes'], r['map']))
        return 1
    if kind == 'loader':
        print('loader/file note mismatch in %s: %s' % (r['map'], r.get('difference (segment id, child count, notes) -> multiplicity')))
        return 1
    print('unknown replay kind')
    return 2
