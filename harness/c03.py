"""
C03 - every single injected fault is rejected and localised.

Proof side: lean/Pyx12Verif/Props/C03.lean (detection + isolation lemmas per element-level fault kind from the
C15 `elemErrors_spec` and the C13 language theorems, syntax-note kinds from C14 `syntaxViolated_iff` and the routing
theorems, `unknown_segment_not_found` over Model/Walker.lean; the other structural kinds are stated `_full`).

Tie / oracle (this file): conformant documents from harness/gendoc.py (1-3 transaction sets in one group) x the
fault catalogue of the statement.  For every case
   impl  = pyx12.x12n_document on the faulty document: verdict, the captured error tree, the 997/999 text
   want  = the expected standard code at (set, segment position in the set, element, sub-element) and the IMPLIED
           SET: everything the one edit implies by the element spec (harness.c15.spec_elem), the X12 syntax-note
           definitions (harness.c14.x12_violated) and the segment's element count
   model = element level: the compiled ElemValid model (op E15) on the faulty value; syntax notes: op SYN.R;
           walker: the real walker trace of the faulty document against the Lean walker model (walkcorr)
"does not alter how neighbouring segments are matched" is decided with the real walker (walkcorr.trace_document):
the matched nodes of all other segments equal those of the conformant document.  Only then "nothing else is
reported" and "the other sets stay accepted" are required.
"""
import multiprocessing
import os
import random
import re
import time

from . import common, gendoc, pipeline, walkcorr, c13, c14, c15
from .c16 import run_xlate

ENVELOPE = ('ISA', 'IEA', 'GS', 'GE', 'ST', 'SE')
DATE_TYPES = ('DT', 'D8', 'D6', 'RD8')
SYN_KINDS = {'P': 'syntax-note-P', 'R': 'syntax-note-R', 'E': 'syntax-note-E', 'C': 'syntax-note-C', 'L': 'syntax-note-L'}
ELEMENT_KINDS = ['too-long', 'too-short', 'code-list', 'char-class', 'bad-date', 'bad-time', 'missing-required',
                 'not-used-filled', 'too-many-elements', 'composite-missing', 'composite-not-used',
                 'too-many-subelements'] + sorted(SYN_KINDS.values())
STRUCT_KINDS = ['unknown-segment', 'unknown-segment-outside-set', 'out-of-place-segment', 'missing-required-segment',
                'segment-max-use', 'loop-repeat']
ALL_KINDS = ELEMENT_KINDS + STRUCT_KINDS
# the standard (997 AK304 / AK403) code each kind must draw
KIND_CODE = {'too-long': '5', 'too-short': '4', 'code-list': '7', 'char-class': '6', 'bad-date': '8', 'bad-time': '9',
             'missing-required': '1', 'not-used-filled': '10', 'too-many-elements': '3', 'composite-missing': '2',
             'composite-not-used': '5', 'too-many-subelements': '3', 'unknown-segment': '1',
             'unknown-segment-outside-set': '1', 'out-of-place-segment': '2|7', 'missing-required-segment': '3',
             'segment-max-use': '5', 'loop-repeat': '4'}
BADCHARS = ['`', 'é', '{', 'a']


# ------------------------------------------------------------------------------------ documents

class Doc(object):
    """texts[i] (no terminator), nodes[i] (map node or None), sets[i] (index of the transaction set or None)"""

    def __init__(self, entry, texts, nodes, sets):
        self.entry, self.texts, self.nodes, self.sets = entry, texts, nodes, sets

    def text(self, texts=None):
        return '\n'.join(t + '~' for t in (texts if texts is not None else self.texts)) + '\n'


def build_doc(entry, seeds, p_opt, max_rep):
    """one interchange, one group, len(seeds) transaction sets with control numbers 0001, 0002, ..."""
    gens = []
    for sd in seeds:
        g = gendoc.Gen(entry['map_file'], entry['icvn'], entry['vriic'], entry['fic'], seed=sd, p_opt=p_opt,
                       max_rep=max_rep, tspc=entry.get('tspc'))
        g.doc()
        gens.append(g)
    texts, nodes, sets = [], [], []

    def put(seg, node, k):
        texts.append(seg.format('~', '*', ':').rstrip('~'))
        nodes.append(node)
        sets.append(k)
    g0 = gens[0]
    ids = [s.get_seg_id() for s, _ in g0.segs]
    i_st, i_se = ids.index('ST'), ids.index('SE')
    for s, n in g0.segs[:i_st]:
        put(s, n, None)
    for k, g in enumerate(gens):
        gi = [s.get_seg_id() for s, _ in g.segs]
        a, b = gi.index('ST'), gi.index('SE')
        for s, n in g.segs[a:b + 1]:
            if s.get_seg_id() == 'ST':
                s.set('ST02', '%04d' % (k + 1))
            elif s.get_seg_id() == 'SE':
                s.set('SE02', '%04d' % (k + 1))
            put(s, n, k)
    for s, n in g0.segs[i_se + 1:]:
        if s.get_seg_id() == 'GE':
            s.set('GE01', str(len(gens)))
        put(s, n, None)
    return Doc(entry, texts, nodes, sets)


def parse_seg(text):
    """'NM1*85*2*A::B' -> ('NM1', [['85'], ['2'], ['A', '', 'B']])"""
    parts = text.split('*')
    return parts[0], [p.split(':') for p in parts[1:]]


def format_seg(sid, elems):
    out = [':'.join(_trim(e)) for e in elems]
    while out and out[-1] == '':
        out.pop()
    return '*'.join([sid] + out)


def _trim(e):
    e = list(e)
    while e and e[-1] == '':
        e.pop()
    return e


def set_start(doc, k):
    return doc.sets.index(k)


def seg_count_of(doc, i):
    """position of segment i in its transaction set (ST = 1)"""
    return i - set_start(doc, doc.sets[i]) + 1


# ------------------------------------------------------------------------------------ definitions

_DEFS = {}
_DATAELE = None
_CODESETS = None


def tables():
    global _DATAELE, _CODESETS
    if _DATAELE is None:
        _DATAELE = c15.own_dataele()
        _CODESETS = c15.own_codes()
    return _DATAELE, _CODESETS


def seg_defs(node, mapfile):
    """[('e', Def) | ('c', usage, [Def])] for the children of a segment node"""
    key = id(node)
    if key not in _DEFS:
        dataele, _ = tables()
        out = []
        path = node.get_path()
        for i, c in enumerate(node.children):
            if c.is_composite():
                kids = [c15.make_def(sc, mapfile, '%s%02d-%d' % (path, i + 1, j + 1), True, dataele)
                        for j, sc in enumerate(c.children)]
                out.append(('c', c.usage, kids))
            else:
                out.append(('e', c15.make_def(c, mapfile, '%s%02d' % (path, i + 1), False, dataele)))
        _DEFS[key] = out
    return _DEFS[key]


def type_list(node, sid, elems, i):
    """the qualifier-selected format list segment_if.is_valid hands to child i"""
    if sid == 'DTP' and i == 2:
        q = elems[1][0] if len(elems) > 1 and elems[1] else ''
        return (q,) if q in c15.KNOWN_TL else ()
    c = node.children[i]
    if not c.is_composite() and c.data_ele == '1251':
        tl = []
        for k in range(i):
            ck = node.children[k]
            if not ck.is_composite() and ck.data_ele == '1250':
                tl.extend(ck.valid_codes)
        return tuple(tl)
    return ()


def ctx_of(d, v):
    _, codesets = tables()
    extm = d.ext is not None and v is not None and v in codesets.get(d.ext, ())
    rfound = d.regex is not None and v is not None and re.search(d.regex, v, re.S) is not None
    return extm, rfound


def elem_codes(d, tl, icvn, v):
    """codes the definition implies for value v (None = absent) - independent transcription in harness.c15"""
    if d.dangling:
        return set()
    extm, rfound = ctx_of(d, v)
    return set(str(c) for c in c15.spec_elem(d, tl, 'E', icvn, extm, rfound, 'a' if v is None else 's', v))


def implied(node, mapfile, icvn, sid, elems):
    """everything the element spec, the syntax definitions and the element count imply for this segment:
    set of ('ele', code, pos, sub) and ('syn', code, positions)"""
    defs = seg_defs(node, mapfile)
    out = set()
    n = len(defs)
    if len(elems) > n:
        out.add(('ele', '3', n + 1, None))
    if not any(x != '' for e in elems for x in e):
        out.add(('seg', ('8',)))        # the reader reports a segment without any element (code 8 at segment level)
    for i, df in enumerate(defs):
        raw = elems[i] if i < len(elems) else None
        if df[0] == 'e':
            d = df[1]
            if raw is not None and len(_trim(raw)) > 1:
                out.add(('ele', '6', i + 1, None))
                continue
            v = None if raw is None else (raw[0] if raw else '')
            for c in elem_codes(d, type_list(node, sid, elems, i), icvn, v):
                out.add(('ele', c, i + 1, None))
        else:
            usage, kids = df[1], df[2]
            vals = None if raw is None else list(raw)
            if vals is None or all(x == '' for x in vals):
                if usage == 'R':
                    out.add(('ele', '2', i + 1, None))
                continue
            if usage == 'N':
                out.add(('ele', '5', i + 1, None))
                continue
            if len(vals) > len(kids):
                out.add(('ele', '3', i + 1, None))
            for j, d in enumerate(kids):
                v = vals[j] if j < len(vals) else None
                for c in elem_codes(d, (), icvn, v):
                    out.add(('ele', c, i + 1, j + 1))
    pres = lambda k: 1 <= k <= len(elems) and any(x != '' for x in elems[k - 1])
    for syn in node.syntax:
        t, idx = syn[0], list(syn[1:])
        if c14.x12_violated(t, [pres(k) for k in idx]):
            out.add(('syn', '10' if t == 'E' else '2', tuple(idx)))
    return out


def matches(item, err):
    """does a reported element error (code, pos, sub) satisfy an implied item"""
    if item[0] == 'ele':
        return err == item[1:]
    return err[0] == item[1] and err[1] in item[2] and err[2] is None


# ------------------------------------------------------------------------------------ element-level catalogue

def lengthen(d, v):
    fill = '1' if (c15.is_num_type(d.ty) or d.ty in DATE_TYPES or d.ty == 'TM') else 'A'
    n = len(v) - v.count('-') - v.count('.') if c15.is_num_type(d.ty) else len(v)
    return v + fill * (d.mx + 1 - n)


def outside_codes(d, icvn, earlier=None, rnd=None):
    """a value outside the element's code list; when possible (every other time) one that occurred EARLIER in the same
    document as a valid code of another element with the same data element number"""
    _, codesets = tables()
    ext = codesets.get(d.ext, ()) if d.ext is not None else ()
    if earlier and rnd is not None and rnd.random() < 0.6:
        pool = sorted(v for v in earlier.get(d.data_ele, ()) if v not in d.codeset and v not in ext and d.mn <= len(v) <= d.mx
                      and (d.regex is None or re.search(d.regex, v)))
        if pool:
            return rnd.choice(pool)
    for L in range(max(d.mn, 1), d.mx + 1):
        for ch in ('Z', 'Q', '9', '7', 'X'):
            v = ch * L
            if v not in d.codeset and v not in ext and c13.spec(v, d.ty, 'E', icvn) and (d.regex is None or re.search(d.regex, v)):
                return v
    return None


def wrong_class(d, v, icvn):
    if c15.is_num_type(d.ty):
        return 'A' * max(d.mn, 1)
    if d.ty in ('AN', 'ID'):
        for ch in BADCHARS:
            nv = (v[:-1] + ch) if len(v) > 1 else ch
            if not c13.spec(nv, d.ty, 'E', icvn) and len(nv) >= d.mn:
                return nv
    return None


IMPOSSIBLE_MD = ['1301', '0001', '0100', '0132', '0230', '0431', '0631', '0931', '1131', '1232', '0229']


def bad_date(v, rnd=None):
    if re.fullmatch(r'\d{8}', v) and rnd is not None:
        md = rnd.choice(IMPOSSIBLE_MD)
        return ('2023' if md == '0229' else v[:4]) + md
    if re.fullmatch(r'\d{8}-\d{8}', v) and rnd is not None:
        md = rnd.choice(IMPOSSIBLE_MD)
        return v[:9] + ('2023' if md == '0229' else v[9:13]) + md
    if re.fullmatch(r'\d{8}', v):
        return v[:4] + '13' + v[6:]
    if re.fullmatch(r'\d{6}', v):
        return v[:2] + '13' + v[4:]
    if re.fullmatch(r'\d{8}-\d{8}', v):
        return v[:13] + '13' + v[15:]
    if re.fullmatch(r'\d{12}', v):
        return v[:4] + '13' + v[6:]
    return None


def bad_time(v, mx=None, k=0):
    """an impossible time of an admissible length: hour 25, minute 61, or (six digits and more) seconds 60-99"""
    if re.fullmatch(r'\d{4}(\d{2}(\d{1,2})?)?', v):
        k = k % 3
        if k == 1:
            return v[:2] + '61' + v[4:]
        if k == 2 and len(v) >= 6:
            return v[:4] + '75' + v[6:]
        if k == 2 and mx is not None and mx >= 6:
            return v[:4] + '60'
        return '25' + v[2:]
    return None


def with_value(elems, i, j, v, nkids=None):
    """copy of elems with element i (sub j or None) set to v"""
    out = [list(e) for e in elems]
    while len(out) <= i:
        out.append([''])
    if j is None:
        out[i] = [v]
    else:
        while len(out[i]) <= j:
            out[i].append('')
        out[i][j] = v
    return out


def is_key_position(node, sid, i, j):
    """element positions the reader/envelope logic or the map selection keys on (not element faults of C03)"""
    if sid == 'HL' and i in (0, 1):
        return True         # HL01 / HL02 are sequence-checked by the reader (C04)
    if sid == 'LX' and i == 0:
        return True         # LX01 likewise (837)
    if sid == 'BHT' and i == 1:
        return True         # BHT02 selects the 278 map
    return False


def earlier_codes(doc, si):
    """{data element number: values carried by coded elements of the segments before si}"""
    cache = doc.__dict__.setdefault('_earlier', {})
    if si in cache:
        return cache[si]
    out = {}
    for k in range(si):
        node = doc.nodes[k]
        if node is None:
            continue
        try:
            sid, elems = parse_seg(doc.texts[k])
            defs = seg_defs(node, doc.entry['map_file'])
        except Exception:
            continue
        for i, dd in enumerate(defs):
            if i >= len(elems):
                break
            if dd[0] == 'e':
                pairs = [(dd[1], elems[i][0] if elems[i] else '')]
            else:
                pairs = [(kd, elems[i][j] if j < len(elems[i]) else '') for j, kd in enumerate(dd[2])]
            for d, v in pairs:
                if v and (d.codes or d.ext is not None):
                    out.setdefault(d.data_ele, set()).add(v)
    cache[si] = out
    return out


def element_candidates(doc, si, rnd):
    """yield (kind, ele_pos, sub_pos, new_elems, primary item) for body segment si"""
    node = doc.nodes[si]
    mapfile, icvn = doc.entry['map_file'], doc.entry['icvn']
    sid, elems = parse_seg(doc.texts[si])
    defs = seg_defs(node, mapfile)
    n = len(defs)
    _, codesets = tables()

    def value_faults(d, i, j, v, tl):
        pos, sub = i + 1, (None if j is None else j + 1)
        if d.dangling or is_key_position(node, sid, i, j):
            return
        if v != '' and d.usage != 'N':
            yield 'too-long', pos, sub, lengthen(d, v), '5'
            if d.mn >= 2:
                yield 'too-short', pos, sub, v[:d.mn - 1], '4'
            if d.codes or d.ext is not None:
                nv = outside_codes(d, icvn, earlier_codes(doc, si), rnd)
                if nv is not None:
                    yield 'code-list', pos, sub, nv, '7'
            nv = wrong_class(d, v, icvn)
            if nv is not None:
                yield 'char-class', pos, sub, nv, '6'
            if d.ty in DATE_TYPES or any(t in DATE_TYPES for t in tl):
                nv = bad_date(v, rnd)
                if nv is not None:
                    yield 'bad-date', pos, sub, nv, '8'
            if d.ty == 'TM' or 'TM' in tl:
                nv = bad_time(v, d.mx, rnd.randrange(3))
                if nv is not None:
                    yield 'bad-time', pos, sub, nv, '9'
            if d.usage == 'R':
                yield 'missing-required', pos, sub, '', '1'
        elif v == '' and d.usage == 'N':
            yield 'not-used-filled', pos, sub, c15.good_value(d, codesets), '10'

    for i, df in enumerate(defs):
        raw = elems[i] if i < len(elems) else None
        if df[0] == 'e':
            v = '' if raw is None or not raw else raw[0]
            for kind, pos, sub, nv, code in value_faults(df[1], i, None, v, type_list(node, sid, elems, i)):
                yield kind, pos, sub, with_value(elems, i, None, nv), ('ele', code, pos, None, nv)
        else:
            usage, kids = df[1], df[2]
            vals = [] if raw is None else list(raw)
            present = any(x != '' for x in vals)
            if usage == 'N':
                if not present:
                    fillv = c15.good_value(kids[0], codesets) if (kids and not kids[0].dangling) else 'X'
                    yield 'composite-not-used', i + 1, None, with_value(elems, i, 0, fillv), ('ele', '5', i + 1, None)
                continue
            if present:
                if usage == 'R' and not is_key_position(node, sid, i, 0) and i != 0:
                    yield 'composite-missing', i + 1, None, with_value(elems, i, None, ''), ('ele', '2', i + 1, None)
                padded = (vals + [''] * len(kids))[:max(len(kids), len(vals))]
                if i != 0 or sid not in ('CTX',):
                    ne = [list(e) for e in elems]
                    ne[i] = padded[:len(kids)] + ['X']
                    yield 'too-many-subelements', i + 1, None, ne, ('ele', '3', i + 1, None)
                for j, d in enumerate(kids):
                    v = vals[j] if j < len(vals) else ''
                    if i == 0 and j == 0:
                        continue          # 01-1 is the match key of the segment
                    for kind, pos, sub, nv, code in value_faults(d, i, j, v, ()):
                        yield kind, pos, sub, with_value(elems, i, j, nv), ('ele', code, pos, sub, nv)
    # too many elements
    ne = [list(e) for e in elems]
    while len(ne) < n:
        ne.append([''])
    ne.append(['X'])
    yield 'too-many-elements', n + 1, None, ne, ('ele', '3', n + 1, None)
    # syntax notes
    pres = lambda k: 1 <= k <= len(elems) and any(x != '' for x in elems[k - 1])

    def fillable(k):
        if not (1 <= k <= n):
            return None
        df = defs[k - 1]
        d = df[1] if df[0] == 'e' else (df[2][0] if df[2] else None)
        if d is None or d.dangling or (df[0] == 'c' and df[1] == 'N') or d.usage == 'N':
            return None
        return with_value, k - 1, (None if df[0] == 'e' else 0), c15.good_value(d, codesets)

    def blank(es, k):
        return with_value(es, k - 1, None, '')

    def fill(es, k):
        f = fillable(k)
        return None if f is None else f[0](es, f[1], f[2], f[3])

    for syn in node.syntax:
        t, idx = syn[0], list(syn[1:])
        if len(idx) < 2 or any(not (1 <= k <= n) for k in idx):
            continue
        p = [pres(k) for k in idx]
        if c14.x12_violated(t, p):
            continue
        code = '10' if t == 'E' else '2'
        item = ('syn', code, tuple(idx))
        variants = []
        if t == 'P':
            if all(p):
                variants = [(k, blank(elems, k)) for k in idx if k != 1]
            else:
                variants = [(k, fill(elems, k)) for k in idx]
        elif t == 'R':
            ne = elems
            for k in idx:
                if pres(k):
                    ne = blank(ne, k)
            if 1 not in [k for k in idx if pres(k)]:
                variants = [(idx[0], ne)]
        elif t == 'E':
            if any(p):
                variants = [(k, fill(elems, k)) for k, q in zip(idx, p) if not q]
        elif t == 'C':
            if p[0]:
                variants = [(k, blank(elems, k)) for k in idx[1:] if k != 1]
            elif not all(p[1:]):
                variants = [(idx[0], fill(elems, idx[0]))]
        elif t == 'L':
            if p[0]:
                ne = elems
                for k in idx[1:]:
                    if pres(k):
                        ne = blank(ne, k)
                if 1 not in idx[1:]:
                    variants = [(idx[1], ne)]
            elif not any(p[1:]):
                variants = [(idx[0], fill(elems, idx[0]))]
        variants = [(k, ne) for k, ne in variants if ne is not None]
        if variants:
            k, ne = variants[rnd.randrange(len(variants))]
            yield SYN_KINDS[t], k, None, ne, item


# ------------------------------------------------------------------------------------ loop instances of a document

class Inst(object):
    __slots__ = ('loop', 'start', 'end', 'parent')


def chain(node):
    out = []
    p = node.parent
    while p is not None and not p.is_map_root():
        if p.is_loop():
            out.append(p)
        p = p.parent
    return out[::-1]


def first_child(loop):
    return loop.get_first_node()


def loop_instances(doc):
    """[Inst] in opening order; inst_of[i] = innermost loop instance of segment i"""
    insts, stack, inst_of = [], [], []
    for i, n in enumerate(doc.nodes):
        ch = chain(n)
        k = 0
        while k < len(stack) and k < len(ch) and stack[k].loop is ch[k]:
            k += 1
        if k == len(ch) and ch and ch[-1].type != 'wrapper' and first_child(ch[-1]) is n:
            k = len(ch) - 1       # the first segment of a loop opens a new instance of it
        for x in stack[k:]:
            x.end = i
        del stack[k:]
        for l in ch[k:]:
            x = Inst()
            x.loop, x.start, x.end, x.parent = l, i, None, (stack[-1] if stack else None)
            insts.append(x)
            stack.append(x)
        inst_of.append(stack[-1] if stack else None)
    for x in stack:
        x.end = len(doc.nodes)
    return insts, inst_of


def fix_se(texts, sets, k):
    """recompute SE01 of set k (texts/sets are parallel lists)"""
    idx = [i for i, s in enumerate(sets) if s == k]
    a, b = idx[0], idx[-1]
    sid, el = parse_seg(texts[b])
    if sid == 'SE':
        el[0] = [str(b - a + 1)]
        texts[b] = format_seg(sid, el)


def structural_candidates(doc, rnd, kinds):
    """yield fault dicts for the structural kinds"""
    body = [i for i, s in enumerate(doc.sets) if s is not None and parse_seg(doc.texts[i])[0] not in ('ST', 'SE')]
    insts, inst_of = loop_instances(doc)

    def edit(ins=None, dele=None):
        texts, nodes, sets = list(doc.texts), list(doc.nodes), list(doc.sets)
        if dele is not None:
            k = sets[dele]
            del texts[dele], nodes[dele], sets[dele]
        if ins is not None:
            at, new, k = ins
            texts[at:at] = new
            nodes[at:at] = [None] * len(new)
            sets[at:at] = [k] * len(new)
        if k is not None:
            fix_se(texts, sets, k)
        return texts, sets

    if 'unknown-segment' in kinds:
        for i in body + [j for j, s in enumerate(doc.sets) if s is not None and doc.texts[j].startswith('SE*')]:
            k = doc.sets[i]
            texts, sets = edit(ins=(i, ['ZZZ*1'], k))
            yield dict(kind='unknown-segment', si=i, set=k, texts=texts, sets=sets, seg_id='ZZZ',
                       primary=('seg', ('1',), 'ZZZ'), segpos=i - set_start(doc, k) + 1, skip=[i], base_skip=[], line_idx=i,
                       where=doc.nodes[i].get_path() if doc.nodes[i] is not None else '?')
    if 'unknown-segment-outside-set' in kinds:
        ids = [parse_seg(t)[0] for t in doc.texts]
        spots = [('before-group', ids.index('GS')), ('before-set', ids.index('ST')), ('after-last-set', ids.index('GE')),
                 ('after-group', ids.index('IEA'))]
        sts = [i for i, x in enumerate(ids) if x == 'ST']
        if len(sts) > 1:
            spots.append(('between-sets', sts[1]))
        for name, at in spots:
            texts, sets = list(doc.texts), list(doc.sets)
            texts.insert(at, 'ZZZ*1')
            sets.insert(at, None)
            yield dict(kind='unknown-segment-outside-set', variant=name, si=at, set=None, texts=texts, sets=sets, seg_id='ZZZ',
                       primary=('seg', ('1',), 'ZZZ'), segpos=None, skip=[at], base_skip=[], where=name)
    # per node bookkeeping inside the innermost loop instance
    for i in body:
        n = doc.nodes[i]
        inst = inst_of[i]
        if inst is None:
            continue
        sid = parse_seg(doc.texts[i])[0]
        k = doc.sets[i]
        same = [j for j in range(inst.start, inst.end) if doc.nodes[j] is n and inst_of[j] is inst]
        is_first = first_child(inst.loop) is n      # the segment through which the walker enters the loop (wrappers too)
        if 'missing-required-segment' in kinds and n.usage == 'R' and not is_first and len(same) == 1:
            texts, sets = edit(dele=i)
            # the walker can only tell when it leaves the run of same-position siblings (their order is free)
            run_len = 0
            while i + 1 + run_len < len(doc.nodes) and inst_of[i + 1 + run_len] is inst and doc.nodes[i + 1 + run_len].pos == n.pos:
                run_len += 1
            p0 = i - set_start(doc, k) + 1
            yield dict(kind='missing-required-segment', si=i, set=k, texts=texts, sets=sets, seg_id=sid,
                       primary=('seg', ('3',), sid), segpos=p0, segpos_hi=p0 + run_len, skip=[], base_skip=[i], where=n.get_path(),
                       next_is_se=doc.texts[i + 1 + run_len].startswith('SE*'),
                       variant=('first-segment-alone-then-the-loop-repeats'
                                if (inst.start == i - 1 and run_len == 0 and doc.nodes[i + 1] is first_child(inst.loop)
                                    and chain(doc.nodes[i + 1])[-1:] == [inst.loop]) else None))
        if 'segment-max-use' in kinds and not is_first and same[-1] == i:
            mx = n.get_max_repeat()
            if mx <= 6 and len(same) <= mx:
                add = mx - len(same) + 1
                texts, sets = edit(ins=(i + 1, [doc.texts[i]] * add, k))
                yield dict(kind='segment-max-use', si=i, set=k, texts=texts, sets=sets, seg_id=sid,
                           primary=('seg', ('5',), sid), segpos=i + add - set_start(doc, k) + 1, line_idx=i + add,
                           skip=list(range(i + 1, i + 1 + add)), base_skip=[], where=n.get_path(),
                           copies=[(i + 1 + q, i) for q in range(add)])
        if 'out-of-place-segment' in kinds and not is_first and (n.usage == 'S' or len(same) > 1):
            for dest in ('after-st', 'before-se'):
                a = set_start(doc, k)
                b = max(j for j, s in enumerate(doc.sets) if s == k)
                at = a + 1 if dest == 'after-st' else b
                if at in (i, i + 1):
                    continue
                texts, sets = list(doc.texts), list(doc.sets)
                t = texts.pop(i)
                at2 = at - 1 if at > i else at
                texts.insert(at2, t)
                base_map = list(range(len(doc.texts)))
                base_map.pop(i)
                base_map.insert(at2, i)
                yield dict(kind='out-of-place-segment', variant=dest, si=i, set=k, texts=texts, sets=sets, seg_id=sid,
                           primary=('seg', ('2', '7'), sid), segpos=at2 - a + 1, skip=[at2], base_skip=[i], must_be_unmatched=at2,
                           where=n.get_path())
    if 'loop-repeat' in kinds:
        for x in insts:
            l = x.loop
            if l.type == 'wrapper' or l.id in ('ISA_LOOP', 'GS_LOOP', 'ST_LOOP') or doc.sets[x.start] is None:
                continue
            mx = l.get_max_repeat()
            if mx > 5:
                continue
            sibs = [y for y in insts if y.loop is l and y.parent is x.parent]
            if sibs[-1] is not x or len(sibs) > mx:
                continue
            span = doc.texts[x.start:x.end]
            ids = [parse_seg(t)[0] for t in span]
            if 'HL' in ids or 'LX' in ids or 'SE' in ids or any(s != doc.sets[x.start] for s in doc.sets[x.start:x.end]):
                continue
            add = mx - len(sibs) + 1
            if add * len(span) > 120:
                continue
            k = doc.sets[x.start]
            texts, sets = list(doc.texts), list(doc.sets)
            texts[x.end:x.end] = span * add
            sets[x.end:x.end] = [k] * (len(span) * add)
            fix_se(texts, sets, k)
            first = x.end + len(span) * (add - 1)
            yield dict(kind='loop-repeat', si=x.start, set=k, texts=texts, sets=sets, seg_id=ids[0],
                       primary=('seg', ('4',), ids[0]), segpos=first - set_start(doc, k) + 1, line_idx=first,
                       skip=list(range(x.end, x.end + len(span) * add)), base_skip=[], where=l.get_path(),
                       copies=[(x.end + q, x.start + q % len(span)) for q in range(len(span) * add)])


# ------------------------------------------------------------------------------------ observing one run

def read_tree(errh):
    """the error tree by plain attribute reads: list of dicts, sets numbered in document order"""
    out = []
    k = -1
    for isa in errh.children:
        for e in isa.errors:
            out.append(dict(level='isa', code=e[0], set=None))
        for el in getattr(isa, 'elements', []):
            for e in el.errors:
                out.append(dict(level='isa-ele', code=e[0], set=None, pos=el.ele_pos))
        for gs in isa.children:
            for e in gs.errors:
                out.append(dict(level='gs', code=e[0], set=None))
            for el in getattr(gs, 'elements', []):
                for e in el.errors:
                    out.append(dict(level='gs-ele', code=e[0], set=None, pos=el.ele_pos))
            for st in gs.children:
                k += 1
                for e in st.errors:
                    out.append(dict(level='st', code=e[0], set=k))
                for el in getattr(st, 'elements', []):
                    for e in el.errors:
                        out.append(dict(level='st-ele', code=e[0], set=k, pos=el.ele_pos))
                for sg in st.children:
                    for e in sg.errors:
                        out.append(dict(level='seg', code=e[0], set=k, seg_id=sg.seg_id, seg_count=sg.seg_count, line=sg.cur_line,
                                        value=e[2]))
                    for el in sg.elements:
                        for e in el.errors:
                            out.append(dict(level='ele', code=e[0], set=k, seg_id=sg.seg_id, seg_count=sg.seg_count,
                                            line=sg.cur_line, pos=el.ele_pos, sub=el.subele_pos, value=e[2],
                                            own=el.parent is sg))
    return out


def read_ack(ack):
    """[{ctrl, segs:[(seg id, pos, code, [(elepos text, code)])], ak5}] per AK2 loop, or None when nothing was written"""
    if not ack:
        return None
    segs = [s.strip() for s in ack.replace('\n', '').split('~') if s.strip()]
    sets, cur = [], None
    for s in segs:
        f = s.split('*')
        if f[0] == 'AK2':
            cur = dict(ctrl=f[2] if len(f) > 2 else '', segs=[], ak5=None)
            sets.append(cur)
        elif cur is None:
            continue
        elif f[0] in ('AK3', 'IK3'):
            cur['segs'].append([f[1] if len(f) > 1 else '', f[2] if len(f) > 2 else '', f[4] if len(f) > 4 else '', []])
        elif f[0] in ('AK4', 'IK4') and cur['segs']:
            cur['segs'][-1][3].append((f[1] if len(f) > 1 else '', f[3] if len(f) > 3 else ''))
        elif f[0] in ('AK5', 'IK5'):
            cur['ak5'] = f[1] if len(f) > 1 else ''
            cur = None
    return sets


def node_trace(tb, text):
    """matched node per segment from the REAL walker (walkcorr), plus the model ops of the same drive"""
    real, ops, why = walkcorr.trace_document(tb, text)
    return [r.split('|')[0] for r in real], real, ops, why


# ------------------------------------------------------------------------------------ the oracle

def judge(doc, base_nodes, f, run, nodes_f, nset):
    """-> (list of (key, what), info) for one executed fault"""
    kind = f['kind']
    out = []
    errs = read_tree(run.errh) if run.errh is not None else []
    info = dict(rematch=False, self_rematch=False, errors=len(errs))
    if run.exc is not None:
        return [('crash:%s:%s:%s' % run.exc[:3], 'validation raised %s' % (run.exc,))], info
    # --- does the fault alter how the other segments are matched?
    if f.get('ele_fault'):
        si = f['si']
        info['self_rematch'] = si >= len(nodes_f) or nodes_f[si] != base_nodes[si]
        info['rematch'] = [x for i, x in enumerate(nodes_f) if i != si] != [x for i, x in enumerate(base_nodes) if i != si]
    else:
        fa = [x for i, x in enumerate(nodes_f) if i not in f['skip']]
        ba = [x for i, x in enumerate(base_nodes) if i not in f['base_skip']]
        info['rematch'] = fa != ba or any(fi >= len(nodes_f) or nodes_f[fi] != base_nodes[bi] for fi, bi in f.get('copies', ()))
    weak = info['rematch'] or info['self_rematch']
    if info['self_rematch'] and f['si'] < len(nodes_f) and nodes_f[f['si']] != 'none':
        info['na'] = 'value-selects-another-map-node'       # the edited key value is admissible for a sibling node: not this fault
        return [], info
    # --- verdict
    if run.verdict is not False:
        if kind == 'unknown-segment-outside-set':
            out.append(('pred:unknown-segment-outside-set:swallowed',
                        'unknown segment %s: verdict %r, %d error(s) in the tree' % (f['variant'], run.verdict, len(errs))))
        elif kind == 'missing-required-segment' and f.get('variant'):
            out.append(('pred:missing-required-segment:unreported-when-only-the-first-segment-precedes-a-repeat-of-the-loop',
                        '%s (required) removed, leaving the loop instance with its first segment only, next segment opens the '
                        'next instance: verdict %r, %d error(s)' % (f['seg_id'], run.verdict, len(errs))))
        else:
            out.append(('pred:%s:accepted' % kind, 'verdict %r with %d error(s)' % (run.verdict, len(errs))))
        return out, info
    if kind == 'unknown-segment-outside-set':
        hit = [e for e in errs if e['level'] == 'seg' and e.get('seg_id') == 'ZZZ' and e['code'] == '1']
        if not hit:
            out.append(('pred:unknown-segment-outside-set:rejected-without-a-segment-error',
                        '%s: verdict False but no segment error for ZZZ: %r' % (f['variant'], errs[:4])))
        else:
            a = read_ack(run.ack)
            if a is not None and f['variant'] in ('after-last-set', 'between-sets') and a and any(s['ak5'] == 'A' for s in a if s['segs']):
                out.append(('pred:unknown-segment-after-set-close:set-accepted-with-segment-errors',
                            '%s: the error is attached to the closed set which the acknowledgement accepts: %r' % (f['variant'], a)))
        return out, info
    if info['self_rematch']:
        # the edited element is what the segment is matched on: only "rejected, at this segment" is required
        here = [e for e in errs if e['set'] == f['set'] and e.get('seg_count') == f['segpos']]
        if not here:
            out.append(('pred:%s:match-key-fault-not-reported-at-the-segment' % kind,
                        'no error at segment position %d: %r' % (f['segpos'], errs[:4])))
        return out, info
    # --- the primary error: right code at the right coordinates (error tree)
    prim = f['primary']
    hi = f.get('segpos_hi', f['segpos'])
    here = [e for e in errs if e['set'] == f['set'] and e.get('seg_count') is not None and f['segpos'] <= e['seg_count'] <= hi
            and e.get('seg_id') == f['seg_id']]
    explained = []
    found = False
    if prim[0] == 'seg':
        for e in here:
            if e['level'] == 'seg' and e['code'] in prim[1]:
                found = True
                explained.append(e)
                if 'line_idx' in f and e['line'] != f['line_idx'] + 1:
                    out.append(('pred:%s:wrong-source-line' % kind, 'segment is on line %d, the error says %r' % (f['line_idx'] + 1, e['line'])))
        if not found:
            anyw = [e for e in errs if e['level'] == 'seg' and e.get('seg_id') == f['seg_id']]
            if kind == 'out-of-place-segment' and any(e['level'] == 'seg' and e['code'] == '1' for e in here):
                out.append(('pred:out-of-place-segment:reported-as-unrecognized-segment-id',
                            '%s moved %s: code 1 (unrecognized segment ID) instead of 2/7 at position %d' % (f['seg_id'], f['variant'], f['segpos'])))
                explained += [e for e in here if e['level'] == 'seg' and e['code'] == '1']
            elif kind == 'missing-required-segment' and f.get('next_is_se') and any(
                    e['code'] == '3' and e['set'] == f['set'] and e['seg_count'] == f['segpos'] - 1 for e in anyw):
                e = [e for e in anyw if e['code'] == '3'][0]
                out.append(('pred:missing-required-segment:position-of-preceding-segment-when-detected-at-SE',
                            '%s missing before SE (position %d) reported at position %d' % (f['seg_id'], f['segpos'], e['seg_count'])))
                explained.append(e)
            elif kind == 'missing-required-segment' and any(e['code'] == '3' and e['set'] == f['set'] and e['seg_count'] > hi for e in anyw):
                e = [e for e in anyw if e['code'] == '3'][0]
                out.append(('pred:missing-required-segment:reported-at-later-segment',
                            '%s missing at position %d reported at %d' % (f['seg_id'], f['segpos'], e['seg_count'])))
                explained.append(e)
            elif any(e['code'] in prim[1] for e in anyw):
                e = [e for e in anyw if e['code'] in prim[1]][0]
                out.append(('pred:%s:wrong-segment-position' % kind, 'expected position %d in set %d, reported %r/%r' % (
                    f['segpos'], f['set'], e['set'], e['seg_count'])))
                explained.append(e)
            else:
                out.append(('pred:%s:code-not-reported' % kind, 'expected seg error %s for %s at %d; tree: %r' % (
                    '/'.join(prim[1]), f['seg_id'], f['segpos'], [(e['level'], e['code'], e.get('seg_id'), e.get('seg_count')) for e in errs][:6])))
    else:
        for e in here:
            if e['level'] == 'ele' and matches(prim, (e['code'], e['pos'], e['sub'])):
                found = True
                if e['line'] != f['si'] + 1:
                    out.append(('pred:%s:wrong-source-line' % kind, 'segment is on line %d, the error says %r' % (f['si'] + 1, e['line'])))
                if f.get('newv') and kind in ('too-long', 'too-short', 'code-list', 'char-class', 'bad-date', 'bad-time') \
                        and e['value'] != f['newv']:
                    out.append(('pred:%s:offending-value-not-reported' % kind, 'injected %r, the error carries %r' % (f['newv'], e['value'])))
                break
        if not found:
            code = prim[1]
            same_code_here = [e for e in here if e['level'] == 'ele' and e['code'] == code]
            elsewhere = [e for e in errs if e['level'].endswith('ele') and e['code'] == code and e not in here]
            nkids = f['nchildren']
            if same_code_here:
                e = same_code_here[0]
                if kind == 'too-many-elements':
                    key = 'pred:too-many-elements:stale-element-position'
                elif kind.startswith('syntax-note'):
                    key = ('pred:syntax-note:error-at-last-element-of-definition' if e['pos'] == nkids
                           else 'pred:syntax-note:error-at-unrelated-element')
                elif kind.startswith('composite') or kind == 'too-many-subelements':
                    key = 'pred:composite-level-error:stale-element-position'
                else:
                    key = 'pred:%s:wrong-element-position' % kind
                out.append((key, 'code %s expected at element %s, reported at element %s%s (segment %s, %d children)' % (
                    code, prim[2] if prim[0] == 'ele' else list(prim[2]), e['pos'], '-%s' % e['sub'] if e['sub'] else '', f['seg_id'], nkids)))
                explained.append(e)
            elif elsewhere:
                e = elsewhere[0]
                out.append(('pred:%s:error-at-another-segment' % ('syntax-note' if kind.startswith('syntax-note') else kind),
                            'code %s reported at %s/%s position %s instead of %s/%d' % (code, e['level'], e.get('seg_id'), e.get('seg_count'),
                                                                                       f['seg_id'], f['segpos'])))
                explained.append(e)
            else:
                out.append(('pred:%s:code-not-reported' % kind, 'expected %r at %s/%d; tree: %r' % (
                    prim, f['seg_id'], f['segpos'], [(e['level'], e['code'], e.get('seg_id'), e.get('seg_count'), e.get('pos')) for e in errs][:6])))
    # --- the acknowledgement (when one is written and it covers the set)
    a = read_ack(run.ack)
    info['ack'] = a is not None
    if a is not None and found:
        mine = a[f['set']] if f['set'] < len(a) else None
        if mine is None or len(a) != nset:
            info['ack_incomplete'] = True
        else:
            ak3 = [s for s in mine['segs'] if s[0] == f['seg_id'] and s[1].isdigit() and f['segpos'] <= int(s[1]) <= hi]
            if prim[0] == 'seg':
                if not any(s[2] in prim[1] for s in ak3):
                    out.append(('pred:%s:ack-segment-line-missing' % kind, 'no AK3/IK3*%s*%d with code %s: %r' % (
                        f['seg_id'], f['segpos'], '/'.join(prim[1]), mine['segs'][:4])))
            else:
                ok = False
                for s in ak3:
                    for (p, c) in s[3]:
                        pp = p.split(':')
                        pos = int(pp[0]) if pp[0].isdigit() else None
                        sub = int(pp[1]) if len(pp) > 1 and pp[1].isdigit() else None
                        if matches(prim, (c, pos, sub)):
                            ok = True
                if not ok:
                    out.append(('pred:%s:ack-element-line-missing' % ('syntax-note' if kind.startswith('syntax-note') else kind),
                                'no AK4/IK4 for %r under AK3/IK3*%s*%d: %r' % (prim, f['seg_id'], f['segpos'], ak3[:3])))
    # --- isolation: nothing else is reported, the other sets stay accepted
    if not weak:
        imp = f['implied']
        kname = 'syntax-note' if kind.startswith('syntax-note') else kind
        at_seg = lambda e: e['set'] == f['set'] and e.get('seg_count') is not None and f['segpos'] <= e['seg_count'] <= hi and e.get('seg_id') == f['seg_id']
        sat = set()
        rest = []
        items = sorted(imp, key=lambda it: (it[0] != 'ele', repr(it)))      # exact element items first
        cand_errs = [e for e in errs if not any(e is x for x in explained)]

        def adj(e):
            if at_seg(e) and e['level'] == 'ele':
                return [j for j, it in enumerate(items) if it[0] in ('ele', 'syn') and matches(it, (e['code'], e['pos'], e['sub']))]
            if at_seg(e) and e['level'] == 'seg':
                return [j for j, it in enumerate(items) if it[0] == 'seg' and e['code'] in it[1]]
            return []
        owner = {}

        def augment(i, seen):
            for j in adj(cand_errs[i]):
                if j in seen:
                    continue
                seen.add(j)
                if j not in owner or augment(owner[j], seen):
                    owner[j] = i
                    return True
            return False
        for i in range(len(cand_errs)):
            augment(i, set())
        matched = set(owner.values())
        sat.update(items[j] for j in owner)
        for i, e in enumerate(cand_errs):
            if i in matched:
                continue
            if adj(e) and not (e['level'] == 'ele' and any(it not in sat and it[0] in ('ele', 'syn') and it[1] == e['code'] for it in imp)):
                continue            # a second report of an implied item (the spec is set-valued)
            rest.append(e)
        if prim in imp and (found or explained):
            sat.add(prim)
        if prim[0] == 'seg' and (found or explained):
            sat.update(it for it in imp if it[0] == 'seg' and it[1] == prim[1])
        keys = set(k for k, _ in out)
        for e in rest:
            cand = [it for it in imp if it not in sat and it[0] in ('ele', 'syn') and it[1] == e['code']] if (at_seg(e) and e['level'] == 'ele') else []
            if cand:
                it = cand[0]
                sat.add(it)
                if it[0] == 'syn':
                    key = ('pred:syntax-note:error-at-last-element-of-definition' if e['pos'] == f['nchildren']
                           else 'pred:syntax-note:error-at-unrelated-element')
                elif it[2] in f.get('comp_positions', ()) and it[3] is None:
                    key = 'pred:composite-level-error:stale-element-position'
                elif it[1] == '3' and it[2] == f['nchildren'] + 1:
                    key = 'pred:too-many-elements:stale-element-position'
                else:
                    key = 'pred:%s:implied-error-at-wrong-element' % kname
                if key not in keys:
                    keys.add(key)
                    out.append((key, 'implied %r reported at element %s%s (segment %s, %d children)' % (
                        it, e['pos'], '-%s' % e['sub'] if e['sub'] else '', f['seg_id'], f['nchildren'])))
                continue
            out.append(('pred:%s:extra-error:%s-%s' % (kname, e['level'], e['code']),
                        'not implied by the fault: %r (implied %r)' % (
                            {k: v for k, v in e.items() if k in ('level', 'code', 'set', 'seg_id', 'seg_count', 'pos', 'sub')}, sorted(imp, key=repr))))
            break
        for it in imp:
            if it not in sat and not (it[0] == 'seg' and prim[0] == 'seg'):
                if found or it != prim:
                    out.append(('pred:%s:implied-error-missing:%s' % (kname, it[1] if it[0] != 'seg' else 'seg-' + '/'.join(it[1])),
                                'implied %r not reported at %s/%d' % (it, f['seg_id'], f['segpos'])))
                    break
        if a is not None and len(a) == nset:
            for k2, s in enumerate(a):
                if k2 != f['set'] and s['ak5'] != 'A':
                    out.append(('pred:%s:other-set-not-accepted' % kind, 'set %d acknowledged %r (fault in set %d)' % (k2, s['ak5'], f['set'])))
                    break
    return out, info


# ------------------------------------------------------------------------------------ one document (worker)

def plan(tier, seed):
    """[(entry index, doc seeds, p_opt, max_rep, per-kind budget)]"""
    entries = gendoc.index_entries()
    rnd = random.Random(seed * 7919 + 3)
    jobs = []
    if tier == 'thorough':
        per = max(1, 300 // len(entries))
        for j in range(per):            # round robin over the maps, so that a time limit cuts all maps alike
            for ei in range(len(entries)):
                nset = (1, 2, 3)[j % 3]
                jobs.append((ei, [rnd.randrange(1 << 30) for _ in range(nset)], rnd.choice((0.1, 0.2, 0.35)) if j else 0.0,
                             rnd.choice((1, 2)), None))
    else:
        for ei in range(len(entries)):
            jobs.append((ei, [rnd.randrange(1 << 30)], rnd.choice((0.3, 0.5)), 2, 2))
            jobs.append((ei, [rnd.randrange(1 << 30) for _ in range(2)], 0.25, 1, 1))
            jobs.append((ei, [rnd.randrange(1 << 30) for _ in range(3)], 0.1, 1, 1))
    return entries, jobs


_TB = None


def work(job):
    global _TB
    (entries, ei, seeds, p_opt, max_rep, budget, seed, deadline) = job
    entry = entries[ei]
    rnd = random.Random('%d/%d/%r' % (seed, ei, seeds))
    res = dict(entry=entry['map_file'], nset=len(seeds), cases=[], skipped=None, applic={}, run={}, ops=[], maps=set(),
               lines=[], errkinds={}, rematch=0, self_rematch=0, seglen=0, timeout=False, rejected_conformant={}, rejected_docs={})
    doc = None
    for attempt in range(5):
        try:
            d = build_doc(entry, seeds, p_opt, max_rep)
        except Exception as e:
            res['skipped'] = 'generator: %s: %s' % (type(e).__name__, e)
            return res
        base = pipeline.validate(d.text())
        if base.exc is not None or base.verdict is not True or (base.errh is not None and read_tree(base.errh)):
            # the validator rejects a conformant document: a C02 finding, not a C03 case - counted, another seed is tried
            if base.exc is not None:
                why = 'crash:%s:%s:%s' % base.exc[:3]
            elif base.errors:
                e0 = base.errors[0]
                why = 'map:%s:%s:%s:%s' % (entry['map_file'], e0[0], e0[1], e0[2])      # the key C02 reports it under
            else:
                why = 'pred:verdict-false-without-error'
            res['rejected_conformant'][why] = res['rejected_conformant'].get(why, 0) + 1
            res['rejected_docs'].setdefault(why, d.text())
            seeds = [rnd.randrange(1 << 30) for _ in seeds]
            continue
        doc = d
        break
    if doc is None:
        res['skipped'] = why
        return res
    res['seglen'] = len(doc.texts)
    if _TB is None:
        _TB = walkcorr.Tables()
    tb = _TB
    base_nodes, base_real, base_ops, why = node_trace(tb, doc.text())
    res['ops'].append(('base', base_real, base_ops))
    base_cb = [p if p is not None else 'none' for _, p in base.nodes]
    mapfile, icvn = entry['map_file'], entry['icvn']
    # ---- enumerate
    cands = {}
    for si, n in enumerate(doc.nodes):
        if doc.sets[si] is None or n is None:
            continue
        sid = parse_seg(doc.texts[si])[0]
        if sid in ENVELOPE:
            continue
        for kind, pos, sub, ne, prim in element_candidates(doc, si, rnd):
            newv = prim[4] if len(prim) > 4 else None
            prim = prim[:4] if prim[0] == 'ele' else prim
            imp = implied(n, mapfile, icvn, sid, ne)
            if not any(it == prim for it in imp):
                res['applic']['n/a:%s:not-implied-by-the-element-spec' % kind] = res['applic'].get('n/a:%s:not-implied-by-the-element-spec' % kind, 0) + 1
                continue
            texts = list(doc.texts)
            texts[si] = format_seg(sid, ne) if kind != 'too-many-elements' and kind != 'too-many-subelements' else \
                '*'.join([sid] + [':'.join(e) for e in ne])
            f = dict(kind=kind, si=si, set=doc.sets[si], texts=texts, sets=doc.sets, seg_id=sid, primary=prim,
                     segpos=seg_count_of(doc, si), skip=[], base_skip=[], ele_fault=True, implied=imp, nchildren=len(n.children),
                     comp_positions=[i + 1 for i, c in enumerate(n.children) if c.is_composite()],
                     where=n.get_path(), ele=pos, subele=sub, new_elems=ne, newv=newv)
            cands.setdefault(kind, []).append(f)
    for f in structural_candidates(doc, rnd, STRUCT_KINDS):
        f.setdefault('implied', {('seg', f['primary'][1])})
        f['nchildren'] = 0
        cands.setdefault(f['kind'], []).append(f)
    for k, v in cands.items():
        res['applic'][k] = len(v)
    # ---- choose
    chosen = []
    for k in ALL_KINDS:
        v = cands.get(k, [])
        if budget is None:
            chosen += v
        else:
            b = budget * (2 if k in ('too-many-elements', 'unknown-segment') else 1)
            if k == 'unknown-segment-outside-set':
                chosen += v
            elif k == 'missing-required-segment':
                special = [x for x in v if x.get('variant')]
                pick = rnd.sample(v, min(b, len(v)))
                chosen += pick + [x for x in special[:2] if not any(x is y for y in pick)]
            else:
                chosen += rnd.sample(v, min(b, len(v)))
    if budget is None:
        rnd.shuffle(chosen)
    # ---- run
    for f in chosen:
        if deadline and time.time() > deadline:
            res['timeout'] = True
            break
        text = doc.text(f['texts'])
        run = pipeline.validate(text)
        use_trace = budget is not None or not f.get('ele_fault') or f['ele'] <= 3 or rnd.random() < 0.1
        if use_trace:
            nodes_f, real_f, ops_f, why = node_trace(tb, text)
        else:
            # thorough tier, element beyond the positions any segment is matched on: the matched nodes as the
            # validation run itself reported them (callback), against the conformant run's
            nodes_f = [p if p is not None else 'none' for _, p in run.nodes]
        if f['kind'] == 'out-of-place-segment' and (f['must_be_unmatched'] >= len(nodes_f) or nodes_f[f['must_be_unmatched']] != 'none'):
            res['applic']['n/a:out-of-place-segment:matches-at-the-destination'] = res['applic'].get('n/a:out-of-place-segment:matches-at-the-destination', 0) + 1
            continue
        if use_trace:
            res['ops'].append((f['kind'], real_f, ops_f))
        viol, info = judge(doc, base_nodes if use_trace else base_cb, f, run, nodes_f, len(seeds))
        if info.get('na'):
            kk = 'n/a:%s:%s' % (f['kind'], info['na'])
            res['applic'][kk] = res['applic'].get(kk, 0) + 1
            continue
        res['run'][f['kind']] = res['run'].get(f['kind'], 0) + 1
        res['rematch'] += 1 if info['rematch'] else 0
        res['self_rematch'] += 1 if info['self_rematch'] else 0
        if run.errh is not None:
            for e in read_tree(run.errh):
                kk = '%s:%s' % (e['level'], e['code'])
                res['errkinds'][kk] = res['errkinds'].get(kk, 0) + 1
        case = dict(kind=f['kind'], sub=f.get('variant'), where=f['where'], ele=f.get('ele'), subele=f.get('subele'),
                    viol=viol, weak=info['rematch'] or info['self_rematch'])
        if viol or len(res['cases']) < 3:
            case['replay'] = dict(map=mapfile, document=text, kind=f['kind'], set=f['set'], seg_id=f['seg_id'], seg_count=f['segpos'],
                                  primary=list(f['primary'][:2]) + [list(x) if isinstance(x, tuple) else x for x in f['primary'][2:]],
                                  implied=sorted([list(x) for x in f['implied']], key=repr), isolated=not case['weak'],
                                  faulty_segment=f['texts'][f['si']] if f['si'] < len(f['texts']) else None,
                                  conformant_segment=doc.texts[f['si']] if f['si'] < len(doc.texts) else None,
                                  observed=dict(verdict=run.verdict, errors=[{k: v for k, v in e.items() if k != 'own'} for e in read_tree(run.errh)][:8]
                                                if run.errh is not None else None),
                                  call='pyx12.x12n_document.x12n_document(params(), StringIO(document), fd_997, None)',
                                  required='verdict False; code %s at set %s segment position %s %s; nothing else when isolated' % (
                                      f['primary'][1], f['set'], f['segpos'], f['primary'][2:]))
        # model tie, element level: the ElemValid model on the faulty value
        if f.get('ele_fault') and f['primary'][0] == 'ele' and f['kind'] not in ('too-many-elements', 'composite-missing',
                                                                               'composite-not-used', 'too-many-subelements'):
            n = doc.nodes[f['si']]
            df = seg_defs(n, mapfile)[f['ele'] - 1]
            d = df[1] if df[0] == 'e' else df[2][f['subele'] - 1]
            raw = f['new_elems'][f['ele'] - 1]
            v = (raw[0] if raw else '') if df[0] == 'e' else (raw[f['subele'] - 1] if f['subele'] - 1 < len(raw) else '')
            tl = type_list(n, f['seg_id'], f['new_elems'], f['ele'] - 1) if df[0] == 'e' else ()
            extm, rfound = ctx_of(d, v)
            res['lines'].append((common.line('E15', 's', v, *c15.kid_fields(d, True, icvn == '00501', extm, rfound, tl)),
                                 sorted(elem_codes(d, tl, icvn, v)), f['kind'], f['where'], v))
        elif f.get('ele_fault') and f['kind'].startswith('syntax-note'):
            n = doc.nodes[f['si']]
            notes = ';'.join('%s:%s' % (s[0], ','.join(str(k) for k in s[1:])) for s in n.syntax)
            ne = f['new_elems']
            bits = ''.join('1' if any(x != '' for x in e) else '0' for e in ne)
            want = sorted(('%s@%d' % (it[1], it[2][0])) for it in f['implied'] if it[0] == 'syn')
            res['lines'].append((common.line('SYN.R', notes, bits), want, f['kind'], f['where'], bits))
        res['cases'].append(case)
    return res


# ------------------------------------------------------------------------------------ run

def run(tier):
    res = common.Result('C03', tier)
    res.cov['rule'] = ('conformant documents of every indexed map (harness/gendoc.py; 1-3 transaction sets in one group) x the fault '
                       'catalogue (element too long / too short / outside the code list / wrong character class / impossible date / '
                       'impossible time / required element blanked / not-used element filled / surplus element / composite-level '
                       'variants / each syntax note type P R E C L broken / unknown segment inside and outside a set / valid segment '
                       'moved where it cannot match / required segment removed / segment beyond max_use / loop beyond repeat); '
                       'a case is (document, position, kind); distinct by (map, node path, element, kind)')
    run_xlate()
    built = common.proof_stage(res, 'C03', targets=('Pyx12Verif', 'pyx12model', '+Pyx12Verif.Props.C03'))
    seed = common.seed()
    entries, jobs = plan(tier, seed)
    t0 = time.time()
    deadline = t0 + int(os.environ.get('VERIF_C03_BUDGET_S', 150 if tier != 'thorough' else 14 * 60))
    jobs = [(entries, ei, seeds, p, mr, b, seed, deadline) for (ei, seeds, p, mr, b) in jobs]
    nproc = min(16, os.cpu_count() or 4)
    with multiprocessing.Pool(nproc) as pool:
        results = pool.map(work, jobs, chunksize=1)
    notes = dict(documents=0, documents_skipped={}, by_kind_map={}, applicable={}, run={}, error_kinds={}, rematch_cases=0,
                 match_key_cases=0, multi_set_documents=0, segments=0, weak_oracle=0, timeouts=0, conformant_rejected={})
    tb = walkcorr.Tables() if built else None
    allops, spans, lines = [], [], []
    c02_known = set(k.key for k in common.load_known() if k.prop == 'C02')
    for r in results:
        for why, n in r['rejected_conformant'].items():
            notes['conformant_rejected'][why] = notes['conformant_rejected'].get(why, 0) + n
            if why not in c02_known:
                # not one of the known C02 findings: the antecedent of C03 cannot be built - reported here as well
                res.violation('conformant-rejected:' + why, '%s: the validator rejects a generated conformant document (%d time(s)); '
                              'no fault could be injected into it' % (r['entry'], n),
                              dict(map=r['entry'], document=r['rejected_docs'].get(why), kind='conformant', set=0, seg_id=None,
                                   seg_count=None, primary=['none'], implied=[], isolated=True,
                                   required='verdict True, no error (property C02)'))
        if r['skipped']:
            notes['documents_skipped'][r['entry']] = notes['documents_skipped'].get(r['entry'], 0) + 1
            notes.setdefault('skip_reasons', {}).setdefault(r['skipped'][:90], 0)
            notes['skip_reasons'][r['skipped'][:90]] += 1
            continue
        notes['documents'] += 1
        notes['segments'] += r['seglen']
        notes['multi_set_documents'] += 1 if r['nset'] > 1 else 0
        notes['timeouts'] += 1 if r['timeout'] else 0
        for k, v in r['applic'].items():
            notes['applicable'][k] = notes['applicable'].get(k, 0) + v
        for k, v in r['run'].items():
            notes['run'][k] = notes['run'].get(k, 0) + v
            notes['by_kind_map'].setdefault(k, {})
            notes['by_kind_map'][k][r['entry']] = notes['by_kind_map'][k].get(r['entry'], 0) + v
        for k, v in r['errkinds'].items():
            notes['error_kinds'][k] = notes['error_kinds'].get(k, 0) + v
        notes['rematch_cases'] += r['rematch']
        notes['match_key_cases'] += r['self_rematch']
        for c in r['cases']:
            res.count()
            res.distinct((r['entry'], c['where'], c['ele'], c['subele'], c['kind'], c['sub']))
            notes['weak_oracle'] += 1 if c['weak'] else 0
            if not c['viol'] and 'replay' in c and not c['weak']:
                res.sample({'map': r['entry'], 'kind': c['kind'], 'where': c['where'], 'element': c['ele'],
                            'faulty_segment': c['replay']['faulty_segment'], 'observed': c['replay']['observed']})
            for key, what in c['viol']:
                res.violation(key, '%s %s %s%s: %s' % (r['entry'], c['kind'], c['where'], ' element %s' % c['ele'] if c['ele'] else '', what),
                              c['replay'])
        if built:
            for (kind, real, ops) in r['ops']:
                spans.append((len(allops), len(ops), real, r['entry'], kind))
                allops.extend(ops)
            for m in set(o.split('\t')[1] for _, _, ops in r['ops'] for o in ops if o.startswith('WWALK')):
                tb.real_map(m)
            lines.extend(r['lines'])
    # ---- model ties
    ndis = 0
    if built and allops:
        nseg = 0
        # the driver keeps the loaded maps per process: every batch is sent with the WMAP lines in front
        batches, cur, size = [], [], 0
        for sp in spans:
            cur.append(sp)
            size += sp[1]
            if size > 250000:
                batches.append(cur)
                cur, size = [], 0
        if cur:
            batches.append(cur)
        for batch in batches:
            lo = batch[0][0]
            hi = batch[-1][0] + batch[-1][1]
            out = common.run_model(tb.loaded_lines + allops[lo:hi], chunk=10 ** 9)[len(tb.loaded_lines):]
            for (a, n, real, entry, kind) in batch:
                mod = [walkcorr.model_view(x) for x in out[a - lo + 1:a - lo + n]]
                nseg += len(real)
                for si, (x, y) in enumerate(zip(real, mod)):
                    if x != y:
                        ndis += 1
                        if ndis <= 20:
                            res.broke('correspondence:Walker.walk', '%s (%s) segment %d: real %s model %s' % (entry, kind, si, x, y))
                        break
        res.count(nseg)
        notes['walker_segments_compared'] = nseg
    if built and lines:
        out = common.run_model([l[0] for l in lines])
        for (ln, want, kind, where, v), got in zip(lines, out):
            res.count()
            if ln.startswith('E15'):
                g = sorted(x for x in got.partition(' ')[2].split(',') if x)
                if sorted(set(g)) != sorted(want):
                    ndis += 1
                    res.broke('correspondence:ElemValid.elemValid', '%s %s value %r: model %s, spec transcription %s' % (kind, where, v, g, want))
            else:
                g = sorted(x for x in got.split(';') if x)
                if g != want:
                    ndis += 1
                    res.broke('correspondence:Syntax.syntaxErrors', '%s %s presence %s: model %s, X12 definition %s' % (kind, where, v, g, want))
        notes['model_element_cases'] = len(lines)
    notes['disagreements_checked'] = ndis
    notes['wall_jobs_s'] = round(time.time() - t0, 1)
    res.notes['input_distribution'] = notes
    res.assumptions = ['conformant = output of harness/gendoc.py that the validator accepts (rejected ones are C02 findings: skipped, counted)',
                       'envelope segments (ISA GS ST SE GE IEA) and the reader-controlled elements HL01 HL02 LX01 BHT02 are not fault positions here (C04/C05)',
                       'a fault on the element a segment is matched on (the walker then matches the segment elsewhere or nowhere) only has to be '
                       'rejected with an error at that segment position',
                       'a required first sub-element of an optional composite is not a missing-required position (C15 Spec: no code is implied)',
                       'the acknowledgement lines are checked when an acknowledgement is written and contains one AK2 loop per set']
    return res.finish(trusted=common.TRUSTED_COMMON + [
        'element spec transcription harness.c15.spec_elem, X12 syntax definitions harness.c14.x12_violated, value languages harness.c13.spec',
        'the real walker (walkcorr.trace_document) decides whether a fault alters the matching of the other segments',
        'modelled: element_if.is_valid, is_syntax_valid + routing, walk_tree.walk; NOT modelled: err_handler attachment (cur_ele_node), '
        'the 997/999 visitors - these are covered by the oracle on the real code only'])


def replay(d):
    r = d['replay']
    run = pipeline.validate(r['document'])
    errs = read_tree(run.errh) if run.errh is not None else []
    if r.get('kind') == 'conformant':
        print('verdict', run.verdict, 'exception', run.exc, 'errors', errs[:4])
        return 0 if (run.verdict is True and not errs) else 1
    print('verdict', run.verdict, 'exception', run.exc)
    for e in errs[:12]:
        print('  ', {k: v for k, v in e.items() if k in ('level', 'code', 'set', 'seg_id', 'seg_count', 'pos', 'sub')})
    print('required:', r.get('required'))
    if run.exc is not None or run.verdict is not False:
        return 1
    prim = r['primary']
    ok = False
    for e in errs:
        if e['set'] != r['set'] or (r['seg_count'] is not None and e.get('seg_count') != r['seg_count']):
            continue
        if prim[0] == 'seg' and e['level'] == 'seg' and e['code'] in prim[1]:
            ok = True
        if prim[0] == 'ele' and e['level'] == 'ele' and (e['code'], e['pos'], e['sub']) == tuple(prim[1:4]):
            ok = True
        if prim[0] == 'syn' and e['level'] == 'ele' and e['code'] == prim[1] and e['pos'] in prim[2]:
            ok = True
    if not ok:
        return 1
    if r.get('isolated'):
        imp = [tuple(tuple(y) if isinstance(y, list) else y for y in x) for x in r['implied']]
        for e in errs:
            if e['level'] == 'ele' and any(matches(it, (e['code'], e['pos'], e['sub'])) for it in imp if it[0] != 'seg'):
                continue
            if e['level'] == 'seg' and any(it[0] == 'seg' and e['code'] in it[1] for it in imp):
                continue
            return 1
    return 0
