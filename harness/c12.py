"""
C12 - validation results do not depend on delimiters or line layout.

Proof side (Props/C12.lean, on the tokenizer / segment-text model of C01): encoding one segment list with two admissible
delimiter triples and line-break styles parses to the same segments (`reencode_invariant`); the rest of the pipeline is a
function of the parsed segments.
Tie: the metamorphic relation run directly on the real code - generated documents (valid and with injected faults) x
delimiter triples x line-break styles through pyx12.x12n_document: verdict, error set (level, code, segment position,
element position, offending value) and acknowledgement body must be identical.
"""
import io
import random

from . import common, gendoc, pipeline

TRIPLES = [('~', '*', ':'), ('!', '|', '>'), ('#', '+', '\\'), ("'", '*', '<'), ('\n', '|', ':'), ('~', '^', '>'), ('$', '*', '@'),
           ('~', '\x1c', ':'), ('\x1d', '\x1f', '>'), ('\x1e', '*', ':'), ('~', '|', '*'), ('\n', '*', '>'),
           ('~', '*', '+'), ('!', '|', '+'), ('~', '*', '-')]   # component separator stays inside the character set; + and - are
#            characters int() gives a meaning to (used only when absent from the data, like every delimiter)
CHUNKINGS = ['whole', 'whole', 'after-terminator', 'inside-linebreak', 'small']
BREAKS = ['', '\n', '\r', '\r\n']


def reencode(text, term, ele, sub, brk, icvn):
    """text is in canonical form (~ * : with LF); returns the same document with other delimiters / line breaks"""
    segs = [s for s in text.replace('\n', '').split('~') if s]
    out = []
    for s in segs:
        fields = s.split('*')
        if fields[0] == 'ISA':
            fields[16] = sub
            if icvn == '00501' and fields[11] == '^' and '^' in (term, ele, sub):
                fields[11] = '}'
            out.append(ele.join(fields))
        else:
            out.append(ele.join(f.replace(':', sub) for f in fields))
    b = brk      # also after an LF terminator (the pieces between are empty segments, which the reader skips)
    return ''.join(x + term + b for x in out)


class ChunkedSource(io.StringIO):
    """a text stream whose read() returns short reads at chosen places (how the OS/stream splits reads must not matter)"""

    def __init__(self, text, cuts):
        io.StringIO.__init__(self, text)
        self.cuts = sorted(set(c for c in cuts if 106 < c < len(text)))

    def read(self, n=-1):
        pos = self.tell()
        if n is None or n < 0:
            return io.StringIO.read(self, n)
        nxt = next((c for c in self.cuts if c > pos), None)
        if nxt is not None and nxt - pos < n:
            n = nxt - pos
        return io.StringIO.read(self, n)


def make_source(text, term, brk, how, rnd):
    if how == 'whole':
        return None
    cuts = []
    idx = [i for i, ch in enumerate(text) if ch == term]
    if how == 'after-terminator':
        cuts = [i + 1 for i in rnd.sample(idx, min(len(idx), 12))]
    elif how == 'inside-linebreak':
        cuts = [i + 2 for i in rnd.sample(idx, min(len(idx), 12))] if len(brk) == 2 else [i + 1 for i in rnd.sample(idx, min(len(idx), 12))]
    else:
        cuts = list(range(107, len(text), rnd.choice((1, 7, 64))))
    return ChunkedSource(text, cuts)


def inject(text, rnd):
    """0-2 faults on the canonical text: bad value, dropped element, unknown segment, duplicated / deleted segment"""
    segs = text.strip().split('\n')
    n = rnd.choice((0, 1, 1, 2))
    kinds = []
    for _ in range(n):
        j = rnd.randrange(3, max(4, len(segs) - 3))
        f = segs[j].rstrip('~').split('*')
        k = rnd.choice(('long', 'code', 'drop', 'unk', 'dup', 'del', 'class', 'trail', 'comp', 'cnt', 'bare'))
        kinds.append(k)
        if k == 'long' and len(f) > 1:
            i = rnd.randrange(1, len(f))
            f[i] = f[i] + 'X' * 90
            segs[j] = '*'.join(f) + '~'
        elif k == 'code' and len(f) > 1:
            f[1] = 'QQ'
            segs[j] = '*'.join(f) + '~'
        elif k == 'class' and len(f) > 1:
            i = rnd.randrange(1, len(f))
            f[i] = 'a{b'
            segs[j] = '*'.join(f) + '~'
        elif k == 'drop' and len(f) > 2:
            i = rnd.randrange(1, len(f))
            f[i] = ''
            segs[j] = '*'.join(f) + '~'
        elif k == 'comp' and len(f) > 1:
            # a simple element given components (or a composite one more): the offending value is then a composite
            i = rnd.randrange(1, len(f))
            f[i] = rnd.choice((f[i] + ':Z', ':' + f[i], f[i] + ':1282')) if f[i] else ':Z'
            segs[j] = '*'.join(f) + '~'
        elif k == 'cnt':
            # a count element (SE01 / GE01 / IEA01) with components
            js = [x for x in range(len(segs)) if segs[x].split('*')[0] in ('SE', 'GE', 'IEA')]
            if js:
                j2 = rnd.choice(js)
                f2 = segs[j2].rstrip('~').split('*')
                if len(f2) > 1 and ':' not in f2[1]:
                    f2[1] = rnd.choice((':' + f2[1], f2[1][:1] + ':' + f2[1][1:]))
                    segs[j2] = '*'.join(f2) + '~'
        elif k == 'bare':
            # a segment with no non-empty element: the id alone, or the id and separators only
            segs[j] = f[0] + rnd.choice(('', '*', '**')) + '~'
        elif k == 'trail':
            segs[j] = segs[j].rstrip('~') + '*' * rnd.choice((1, 2)) + '~'
        elif k == 'unk':
            segs.insert(j, 'ZZZ*1~')
        elif k == 'dup':
            segs.insert(j, segs[j])
        elif k == 'del':
            del segs[j]
    return '\n'.join(segs) + '\n', kinds


def canon_value(v, ele, sub):
    if v is None:
        return None
    return v.replace(sub, ':') if sub != ':' else v


def observe(text, term, ele, sub, src=None):
    r = pipeline.validate(text, src=src)
    errs = sorted(((e[0], e[1], e[2], e[3], e[5], e[6], canon_value(e[7], ele, sub)) for e in r.errors if len(e) == 8), key=repr)
    body = None
    if r.ack:
        ack = r.ack
        if len(ack) >= 106 and ack[:3] == 'ISA':      # the acknowledgement declares its own delimiters
            aele, asub, aterm = ack[3], ack[104], ack[105]
        else:
            aele, asub, aterm = ele, sub, term
        segs = [s.strip('\r\n') for s in ack.split(aterm) if s.strip('\r\n')]
        body = []
        for s in segs:
            f = s.split(aele)
            if f[0] in ('ISA', 'GS', 'IEA', 'GE', 'TA1'):
                continue
            if f[0] in ('AK4', 'IK4') and len(f) > 4:
                f[4] = canon_value(f[4], ele, sub)        # the echoed offending value keeps the SOURCE's component separator
            if f[0] == 'CTX':
                f = [canon_value(x, ele, sub) for x in f]
            body.append('*'.join(x.replace(asub, ':') for x in f))
    return (r.verdict, r.exc[:3] if r.exc else None, errs, body)


def run(tier):
    res = common.Result('C12', tier)
    res.cov['rule'] = ('generated documents of every non-FA indexed map with 0-2 injected faults x delimiter triples x line-break styles; '
                       'a case is (document, encoding); non-trivial = the document reports at least one error or the encoding is not the '
                       'canonical one; distinct by (map, generator seed, fault kinds, encoding)')
    built = common.proof_stage(res, 'C12')
    thorough = tier == 'thorough'
    rnd = random.Random(common.seed() * 15485863 + 12)
    entries = [m for m in gendoc.index_entries() if m['fic'] != 'FA']
    ndocs = 12 if thorough else 3
    nenc = 10 if thorough else 5
    kinds_seen = {}
    e2e_texts = []
    for m in entries:
        for i in range(ndocs):
            sd = rnd.randrange(1 << 30)
            g = gendoc.Gen(m['map_file'], m['icvn'], m['vriic'], m['fic'], seed=sd, p_opt=rnd.choice((0.0, 0.4, 0.8)), max_rep=2, tspc=m.get('tspc'))
            text, kinds = inject(g.doc(), rnd)
            for k in kinds:
                kinds_seen[k] = kinds_seen.get(k, 0) + 1
            base = observe(text, '~', '*', ':')
            res.count()
            encs = rnd.sample([(t, b) for t in TRIPLES[1:] for b in BREAKS], nenc) + [(TRIPLES[0], '')]
            for (term, ele, sub), brk in encs:
                if m['icvn'] == '00501' and sub == '^':
                    continue
                if any(ch in text.replace('~', '').replace('*', '').replace(':', '').replace('\n', '')[106:] for ch in (term, ele, sub)
                       if ch not in '~*:\n'):
                    continue        # a delimiter must be absent from the data
                t2 = reencode(text, term, ele, sub, brk, m['icvn'])
                how = rnd.choice(CHUNKINGS)
                got = observe(t2, term, ele, sub, make_source(t2, term, brk, how, rnd))
                if len(e2e_texts) < 400 and len(t2) < 20000 and rnd.random() < 0.2:
                    e2e_texts.append(t2)
                res.count()
                res.distinct((m['map_file'], sd, tuple(kinds), term, ele, sub, brk, how))
                if ('comp' in kinds or 'cnt' in kinds) and sub in '*~':
                    # a composite offending value echoed into an acknowledgement whose own element separator / terminator is the
                    # source's component separator splits there: the listed C06 finding (echo of delimiter characters), not C12's
                    got = got[:3] + (base[3],)
                if got != base:
                    diff = [n for n, a, b in zip(('verdict', 'exception', 'errors', 'ack body'), base, got) if a != b]
                    key = 'pred:reencoding-changes-%s' % '-'.join(diff).replace(' ', '-')
                    if 'cnt' in kinds and sub in '+-_' and 'verdict' not in diff and 'exception' not in diff:
                        key = 'pred:reencoding-changes-count-composite-int'
                    res.violation(key,
                                  '%s re-encoded with terminator %r separator %r component %r break %r (reads: %s) changes %s' % (
                                      m['map_file'], term, ele, sub, brk, how, diff),
                                  {'map': m['map_file'], 'faults': kinds, 'canonical_document': text, 'reencoded_document': t2,
                                   'call': 'pyx12.x12n_document.x12n_document on both texts',
                                   'observed': {'canonical': repr(base)[:1500], 'reencoded': repr(got)[:1500]},
                                   'required': 'identical verdict, error set and acknowledgement body'})
            if len(res.cov['samples']) < 3:
                res.sample({'map': m['map_file'], 'faults': kinds, 'verdict': base[0], 'errors': len(base[2]), 'encodings': [repr(e) for e in encs[:3]]})
    if built:
        from . import doc as docmod
        docmod.attach(res, e2e_texts, 're-encoded', limit=(120 if thorough else 24))
    res.notes['fault_kinds'] = kinds_seen
    res.notes['disagreements_checked'] = 0
    res.assumptions = ['delimiters are characters absent from the data; the component separator is allowed by the declared character set',
                       'ISA11 of a 5010 document is changed only when it would collide with a delimiter']
    return res.finish(trusted=common.TRUSTED_COMMON + ['that the real pipeline consults the text only through the parsed segments is what this metamorphic run exercises; it is not proved'])


def replay(d):
    r = d['replay']
    a = pipeline.validate(r['canonical_document'])
    b = pipeline.validate(r['reencoded_document'])
    print(a.verdict, len(a.errors), b.verdict, len(b.errors))
    return 0 if (a.verdict == b.verdict and len(a.errors) == len(b.errors)) else 1
