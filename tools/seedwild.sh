#!/bin/bash
# tools/seedwild.sh <round> <W…> — wildcard seeds: /tmp/seed/out<round>_<W>/<n>/property.txt names the property; its check is run first,
# and every other check only when that one misses the seed.
R=$1; shift
cd "$(dirname "$0")/.."
for W in "$@"; do
  for d in /tmp/seed/out${R}_$W/*/; do
    n=$(basename $d)
    [ -f $d/patch.diff ] || continue
    P=$(tr -d ' \n\r' < $d/property.txt | cut -c1-3)
    SEED_ROUND=$R /venv/bin/python tools/seedcheck.py $W $n $P > /tmp/seed/eval_${R}_${W}_$n.json 2>&1
    if ! grep -q '"detected_by": \[$' /tmp/seed/eval_${R}_${W}_$n.json && grep -q '"detected_by": \[\]' /tmp/seed/eval_${R}_${W}_$n.json; then
      SEED_ROUND=$R /venv/bin/python tools/seedcheck.py $W $n C01 C02 C03 C04 C05 C06 C07 C08 C09 C10 C11 C12 C13 C14 C15 C16 C17 C18 C19 C20 > /tmp/seed/eval_${R}_${W}_${n}_all.json 2>&1
      echo "$W $n property=$P MISSED by own check; all checks: $(grep -A3 '"detected_by"' /tmp/seed/eval_${R}_${W}_${n}_all.json | tr -d '\n ' | cut -c1-120)"
    else
      echo "$W $n property=$P $(grep -A2 '"detected_by"' /tmp/seed/eval_${R}_${W}_$n.json | tr -d '\n ' | cut -c1-80) $(grep '"confirmed"' /tmp/seed/eval_${R}_${W}_$n.json | tr -d ' ')"
    fi
  done
done
