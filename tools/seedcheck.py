#!/usr/bin/env python3
"""
Confirm and evaluate one seeded change:  tools/seedcheck.py <Cxx> <n> [check ids …]

 1. in the scratch worktree /tmp/seed/<Cxx>: the patch applies to a clean checkout, the 454 tests pass with it, the
    demonstration exits 1 with it and 0 without it;
 2. apply the patch to /repo (git apply), run the listed checks (default: the property's own) in quick tier, record
    exit code and VIOLATION lines, and undo it straight afterwards (git checkout -- .);
 3. keep it as /verif/seeded/<Cxx>-<n>/ (patch.diff, demo.py, notes.md, meta.json).
"""
import json
import os
import shutil
import subprocess
import sys

VERIF = os.path.dirname(os.path.dirname(os.path.abspath(__file__)))


def sh(cmd, cwd=None, timeout=3600):
    p = subprocess.run(cmd, shell=True, cwd=cwd, stdout=subprocess.PIPE, stderr=subprocess.STDOUT, text=True, timeout=timeout)
    return p.returncode, p.stdout


def main():
    pid, n = sys.argv[1], sys.argv[2]
    checks = sys.argv[3:] or [pid]
    wt = '/tmp/seed/%s' % pid
    rnd = os.environ.get('SEED_ROUND', '1')
    src = '/tmp/seed/out%s_%s/%s' % ('' if rnd == '1' else rnd, pid, n)
    patch = os.path.join(src, 'patch.diff')
    demo = os.path.join(src, 'demo.py')
    meta = {'property': pid, 'seed': n, 'ran': []}
    sh('git checkout -- . && git clean -fdq', wt)
    rc, out = sh('git apply %s' % patch, wt)
    meta['patch_applies_to_worktree'] = rc == 0
    rc, out = sh('/venv/bin/python -m pytest -q -p no:cacheprovider -x 2>&1 | tail -1', wt)
    meta['tests_with_patch'] = out.strip()
    rc1, out1 = sh('/venv/bin/python %s' % demo, wt)
    meta['demo_with_patch_rc'] = rc1
    sh('git checkout -- . && git clean -fdq', wt)
    rc0, out0 = sh('/venv/bin/python %s' % demo, wt)
    meta['demo_without_patch_rc'] = rc0
    meta['confirmed'] = ('passed' in meta['tests_with_patch'] and 'failed' not in meta['tests_with_patch'] and rc1 == 1 and rc0 == 0)
    # against the current /repo tree: a scratch copy with the patch applied (VERIF_REPO), removed afterwards, so that
    # builders working against /repo at the same time are not disturbed (same effect as git apply / checkout on /repo)
    import tempfile
    tmp = tempfile.mkdtemp(prefix='seedrepo_', dir='/tmp')
    try:
        sh('cp -r /repo/. %s/' % tmp)
        rc, out = sh('git apply %s' % patch, tmp)
        meta['patch_applies_to_repo'] = rc == 0
        if rc == 0:
            for c in checks:
                rcc, outc = sh('VERIF_REPO=%s ./check %s quick' % (tmp, c), VERIF)
                vio = [l for l in outc.split('\n') if l.startswith('VIOLATION') or l.startswith('  #')]
                meta['ran'].append({'check': './check %s quick' % c, 'rc': rcc, 'violation_lines': vio[:8], 'tail': outc.strip().split('\n')[-1]})
    finally:
        sh('rm -rf %s' % tmp)
    meta['detected_by'] = [r['check'].split()[1] for r in meta['ran'] if r['rc'] == 1]
    dst = os.path.join(VERIF, 'seeded', ('%s-%s' % (pid, n)) if rnd == '1' else ('%s-r%s-%s' % (pid, rnd, n)))
    os.makedirs(dst, exist_ok=True)
    for f in ('patch.diff', 'demo.py', 'notes.md'):
        if os.path.exists(os.path.join(src, f)):
            shutil.copy(os.path.join(src, f), os.path.join(dst, f))
    with open(os.path.join(dst, 'meta.json'), 'w') as f:
        json.dump(meta, f, indent=1)
    print(json.dumps(meta, indent=1))
    return 0


if __name__ == '__main__':
    sys.exit(main())
