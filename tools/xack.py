"""
Translator add-on for C06 (re-validation of the acknowledgement): regenerates, from /repo's CURRENT map files, the Lean terms
and obligations about the 997 map that `Props/C06Reval.lean : ack997_revalidates` asks for.

Called by tools/xlate.py AFTER `xdoc.build` (it needs the final string table):

    import xack
    imports += xack.emit(GEN, maps, dataele, I, write_if_changed, modname)      # returns the import lines for Gen.lean
    side['ack_theorems'] = xack.THEOREMS                                         # names for Gen/AuditC06.lean

  -> lean/Gen/Ack/M997_4010.lean
       def X997_4010 : Doc.MapX                 skeleton `M997_4010.children` + every segment definition + string table
       def Xx12_control_00401 / _00501          the same for the two control maps (their ISA definition is what is used)
       theorem M997_4010_shape997    : shape997 ⟨ENT, HL, CTX⟩ ⟨ISA_LOOP, ISA, GS_LOOP, GS, ST_LOOP, HEADER, BHT⟩ ⟨ST, AK1, …⟩ M997_4010.children = true
       theorem M997_4010_ackDefsOk   : ackDefsOk X997_4010 = true
       theorem M997_4010_ackKeysOk   : ackKeysOkOf ⟨ENT, HL, CTX⟩ <unk> X997_4010 = true
       theorem Mx12_control_0040x_isaDefOk : isaDefOk Xx12_control_0040x [0, 0] = true
     all by `decide +kernel`
  -> lean/Gen/AuditC06.lean   `#print axioms` of the five theorems

`python tools/xack.py --example` prints a self-contained copy of the 997 map (own small string table, skeleton inline) as used
by lean/Pyx12Verif/Props/C06RevalExample.lean (Pyx12Verif must not import Gen).
"""
import os
import sys

sys.path.insert(0, os.path.dirname(os.path.abspath(__file__)))
import xdoc  # noqa: E402

ACK_IDS = ['ST', 'AK1', 'AK2', 'AK3', 'AK4', 'AK5', 'AK9', 'SE', 'GE', 'IEA']
ENV_IDS = ['ISA_LOOP', 'ISA', 'GS_LOOP', 'GS', 'ST_LOOP', 'HEADER', 'BHT']
THEOREMS = ['Gen.M997_4010_shape997', 'Gen.M997_4010_ackDefsOk', 'Gen.M997_4010_ackKeysOk',
            'Gen.Mx12_control_00401_isaDefOk', 'Gen.Mx12_control_00501_isaDefOk']


def lstr(s):
    """a Lean `List Char` literal"""
    if s is None:
        s = ''
    if s == '':
        return '[]'
    out = []
    for ch in s:
        if ch == '"':
            out.append('\\"')
        elif ch == '\\':
            out.append('\\\\')
        elif ch == '\n':
            out.append('\\n')
        elif ch == '\t':
            out.append('\\t')
        elif ch == '\r':
            out.append('\\r')
        else:
            out.append(ch)
    return '"%s".toList' % ''.join(out)


def lopt(s):
    return 'none' if s is None else '(some %s)' % (lstr(s) if s != '' else '[]')


def lusage(u):
    return {'R': '.R', 'S': '.S'}.get(u, '.N')


def lb(b):
    return 'true' if b else 'false'


def elemx(e):
    ext = e['ext'] or ''
    rx = e['regex'] or ''
    return ('{ d := { usage := %s, dataType := %s, minLen := %d, maxLen := %d, codes := [%s], extDeclared := %s, '
            'hasRegex := %s, typeList := [], seq := %d, parentComposite := %s, parentRequired := %s }, defined := %s, '
            'name := %s, refdes := %s, dataEle := %s, ext := %s, regex := %s }'
            % (lusage(e['usage']), lstr(e['dtype'] or ''), e['min'], e['max'], ', '.join(lstr(c) for c in e['codes']),
               lb(ext != ''), lb(rx != ''), e['seq'], lb(e['pc']), lb(e['pr']), lb(e['defined']),
               lstr(e['name']), lstr(e['refdes']), lopt(e['de']), lstr(ext), lstr(rx)))


def childx(c):
    if c['k'] == 'e':
        return '.elem ' + elemx(c)
    return '.comp %s %d %s %s %s [%s]' % (lusage(c['usage']), c['seq'], lstr(c['name']), lstr(c['refdes']), lopt(c['de']),
                                         ', '.join(elemx(s) for s in c['subs']))


def segdef(d):
    if d['notes']:
        raise Exception('xack: segment %s has syntax notes; emit Syn.Note terms here' % d['sid'])
    return '(%s, { sid := %s, name := %s, notes := [], children := [\n        %s] })' % (
        d['ip'], lstr(d['sid']), lstr(d['name']), ',\n        '.join(childx(c) for c in d['children']))


def mapx_term(name, fname, root_expr, root_id, segs, intern, icvn):
    return ('def %s : Pyx12Verif.Doc.MapX :=\n  { file := %s, is837 := false, v5010 := %s, rootId := %d, root := %s,\n'
            '    defs := [\n      %s],\n    intern := [%s] }'
            % (name, lstr(fname), lb(icvn == '00501'), root_id, root_expr,
               ',\n      '.join(segdef(d) for d in segs), ', '.join('(%s, %d)' % (lstr(s), n) for s, n in intern)))


def doc_map(mx, dataele, I, always):
    """what xdoc.build computes for one map: segment definitions and the strings the skeleton mentions"""
    segs = []
    xdoc.walk_segs(mx.root, [], segs, dataele)
    nums = set()
    xdoc.skel_strings(mx.children, nums)
    nums.update(I(s) for s in always)
    nums.discard(0)
    return segs, sorted([I.rev[n], n] for n in nums), xdoc.map_icvn(segs)


def emit(gen, maps, dataele, I, write_if_changed, modname):
    always = ['ENT', 'HL', 'CTX'] + ENV_IDS
    need = ['997.4010.xml', 'x12.control.00401.xml', 'x12.control.00501.xml']
    if any(f not in maps for f in need):
        return []
    for s in always + ACK_IDS:
        I(s)
    body = []
    for f in need:
        mx = maps[f]
        segs, intern, icvn = doc_map(mx, dataele, I, always + (ACK_IDS if f == need[0] else []))
        body.append(mapx_term('X' + modname(f)[1:], f, modname(f) + '.children', I(mx.xid), segs, intern, icvn))
    unk = len(I.rev) + 1
    consts = '⟨ENT, HL, CTX⟩'
    ids = '⟨%s⟩' % ', '.join(str(I(s)) for s in ENV_IDS)
    aids = '⟨%s⟩' % ', '.join(str(I(s)) for s in ACK_IDS)
    m = modname(need[0])
    text = ['/- generated by tools/xack.py from 997.4010.xml, x12.control.0040x.xml -- do not edit -/', 'import Gen.Tables']
    text += ['import Gen.Maps.' + modname(f) for f in need]
    text += ['import Pyx12Verif.Props.C06Reval', 'open Pyx12Verif Pyx12Verif.C06R', 'set_option maxRecDepth 1000000',
             'namespace Gen', ''] + body + ['',
             '/-- hypotheses of `C06R.ack997_revalidates` about the shipped 997 map and control maps -/',
             'theorem %s_shape997 : shape997 %s %s %s %s.children = true := by decide +kernel' % (m, consts, ids, aids, m),
             'theorem %s_ackDefsOk : ackDefsOk X%s = true := by decide +kernel' % (m, m[1:]),
             'theorem %s_ackKeysOk : ackKeysOkOf %s %d X%s = true := by decide +kernel' % (m, consts, unk, m[1:])]
    for f in need[1:]:
        text.append('theorem %s_isaDefOk : isaDefOk X%s [0, 0] = true := by decide +kernel' % (modname(f), modname(f)[1:]))
    text += ['', 'end Gen', '']
    write_if_changed(os.path.join(gen, 'Ack', m + '.lean'), '\n'.join(text))
    write_if_changed(os.path.join(gen, 'AuditC06.lean'),
                     'import Gen.Ack.%s\n' % m + '\n'.join('#print axioms ' + t for t in THEOREMS) + '\n')
    return ['import Gen.Ack.' + m]


# ------------------------------------------------------------------------------------------------ example copy

def example():
    """self-contained copy of the 997 map for Props/C06RevalExample.lean: the identifiers the example maps of
    Props/DocExample.lean fix (ISA_LOOP 10, ISA 11, GS_LOOP 12, GS 13, ST_LOOP 14, HEADER 16, BHT 17; ENT 1, HL 2, CTX 3), every
    other string numbered from 100"""
    import xlate
    fixed = {'': 0, 'ENT': 1, 'HL': 2, 'CTX': 3, 'ISA_LOOP': 10, 'ISA': 11, 'GS_LOOP': 12, 'GS': 13, 'ST_LOOP': 14,
             'HEADER': 16, 'BHT': 17}

    class I2:
        def __init__(self):
            self.tab = dict(fixed)
            self.rev = {v: k for k, v in fixed.items()}
            self.next = 100

        def __call__(self, s):
            if s is None:
                return 0
            if s not in self.tab:
                self.tab[s] = self.next
                self.rev[self.next] = s
                self.next += 1
            return self.tab[s]
    I = I2()
    import xml.etree.ElementTree as et
    dataele = {}
    for e in et.parse(os.path.join(xlate.MAPDIR, 'dataele.xml')).getroot().iter('data_ele'):
        dataele[e.get('ele_num')] = (e.get('data_type'), e.get('min_len'), e.get('max_len'))
    mx = xlate.MapX('997.4010.xml', I, dataele)
    for s in ACK_IDS:
        I(s)
    segs, intern, icvn = doc_map(mx, dataele, I, ['ENT', 'HL', 'CTX'] + ENV_IDS + ACK_IDS)
    root = '[\n%s]' % ',\n'.join(xlate.lean_node(c, 4) for c in mx.children)
    print('/-- skeleton of 997.4010.xml (copy; the translator regenerates `Gen.M997_4010` from the current file) -/')
    print('def root997 : List MapSkel.Node := ' + root)
    print()
    print(mapx_term('m997', '997.4010.xml', 'root997', I(mx.xid), segs, intern, icvn))
    print()
    print('def aids : AckIds := ⟨%s⟩' % ', '.join(str(I(s)) for s in ACK_IDS))


if __name__ == '__main__':
    if '--example' in sys.argv:
        example()
