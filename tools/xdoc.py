"""
Extended map serialisation for the end-to-end document model (Model/Document.lean, Drv/Doc.lean, harness/doc.py).

Called by tools/xlate.py (own XML parse, NOT through pyx12).  Adds to work/gen/tables.json the key `doc`
(small: file name of the bulk data, regexes, per-map flags) and writes the bulk to work/gen/doc.json:

  doc.json = {
    'maps':    { file: { 'xid', 'is837', 'icvn', 'intern': [[string, number], ...],
                         'segs': [ { 'ip': [..], 'sid', 'name', 'notes': [text, ...],
                                     'children': [ elem | comp ] } ] } },
    'extsets': { set id: [code, ...] },          own parse of codes.xml
    'regexes': [ pattern, ... ],                 every distinct non-empty <regex> of every map
  }
  elem = {'k': 'e', 'usage', 'dtype', 'min', 'max', 'codes', 'ext', 'regex', 'seq', 'name', 'refdes', 'de',
          'pc' (parent is a composite), 'pr' (parent usage R)}
  comp = {'k': 'c', 'usage', 'seq', 'name', 'refdes', 'de', 'subs': [elem, ...]}

Index paths (`ip`) are the ones of the skeleton (`MapX.nodes`); the order of children is the loader's: loop / segment
children by position bucket (loops first inside a bucket), element / composite children of a segment by `seq`,
sub-elements of a composite in document order.
"""
import json
import os
import xml.etree.ElementTree as et


def attr(e, name):
    v = e.get(name)
    return v if v else e.findtext(name)


def pystr(v):
    """'%s' % v"""
    return 'None' if v is None else v


def elem_def(e, dataele, parent_comp, parent_req):
    de = attr(e, 'data_ele')
    dt = dataele.get(de)
    codes = []
    ext = None
    v = e.find('valid_codes')
    if v is not None:
        ext = v.get('external')
        codes = [c.text for c in v.findall('code')]
    rx = e.findtext('regex')
    return {'k': 'e', 'usage': attr(e, 'usage'), 'dtype': dt[0] if dt else None,
            'min': int(dt[1]) if dt else 0, 'max': int(dt[2]) if dt else 0,
            'codes': [c if c is not None else '' for c in codes], 'ext': ext, 'regex': rx if rx else '',
            'seq': int(attr(e, 'seq')), 'name': pystr(attr(e, 'name')), 'refdes': pystr(e.get('xid')), 'de': de,
            'pc': parent_comp, 'pr': parent_req, 'defined': dt is not None}


def seg_def(s, dataele):
    cm = {}
    for e in s.findall('element'):
        cm[int(attr(e, 'seq'))] = e
    for e in s.findall('composite'):
        cm[int(attr(e, 'seq'))] = e
    children = []
    for seq in sorted(cm):
        e = cm[seq]
        if e.tag == 'element':
            children.append(elem_def(e, dataele, False, False))
        else:
            usage = attr(e, 'usage')
            refdes = e.findtext('refdes') if e.findtext('refdes') else e.get('xid')
            children.append({'k': 'c', 'usage': usage, 'seq': int(attr(e, 'seq')), 'name': pystr(attr(e, 'name')),
                             'refdes': pystr(refdes), 'de': attr(e, 'data_ele'),
                             'subs': [elem_def(x, dataele, True, usage == 'R') for x in e.findall('element')]})
    return {'sid': s.get('xid'), 'name': pystr(attr(s, 'name')),
            'notes': [n.text for n in s.findall('syntax') if n.text is not None], 'children': children}


def walk_segs(parent, ip, out, dataele):
    buckets = {}
    for e in parent.findall('loop'):
        buckets.setdefault(int(attr(e, 'pos')), []).append(e)
    for e in parent.findall('segment'):
        buckets.setdefault(int(attr(e, 'pos')), []).append(e)
    i = 0
    for pos in sorted(buckets):
        for e in buckets[pos]:
            if e.tag == 'loop':
                walk_segs(e, ip + [i], out, dataele)
            else:
                d = seg_def(e, dataele)
                d['ip'] = ip + [i]
                out.append(d)
            i += 1


def skel_strings(nodes, acc):
    for n in nodes:
        acc.add(n['id'])
        if n['kind'] == 'seg':
            acc.add(n['qual'])
            for kind, d in n['children']:
                if kind == 'elem':
                    acc.update(d['codes'])
                else:
                    for sub in d['subs']:
                        acc.update(sub['codes'])
        else:
            skel_strings(n['children'], acc)


def map_icvn(segs):
    """map_if._get_icvn: first valid code of the 12th child of /ISA_LOOP/ISA"""
    for d in segs:
        if d['sid'] == 'ISA' and len(d['ip']) == 2:
            try:
                return d['children'][11]['codes'][0]
            except (IndexError, KeyError):
                return None
    return None


def build(mapdir, maps, dataele, I, workgen):
    """maps: {file: xlate.MapX}; returns the small dict stored under tables.json['doc']"""
    always = ['ENT', 'HL', 'CTX', 'ISA_LOOP', 'ISA', 'GS_LOOP', 'GS', 'ST_LOOP', 'HEADER', 'BHT']
    for s in always:
        I(s)
    out = {'maps': {}, 'extsets': {}, 'regexes': []}
    regexes = set()
    for f, mx in maps.items():
        segs = []
        walk_segs(mx.root, [], segs, dataele)
        skel = [tuple(ip) for ip, sp, kind, nid in mx.nodes if kind == 'segment']
        if sorted(skel) != sorted(tuple(d['ip']) for d in segs):
            raise Exception('xdoc: segment index paths of %s differ from the skeleton' % f)
        nums = set()
        skel_strings(mx.children, nums)
        nums.update(I(s) for s in always)
        nums.discard(0)
        for d in segs:
            for c in d['children']:
                for e in ([c] if c['k'] == 'e' else c['subs']):
                    if e['regex']:
                        regexes.add(e['regex'])
        out['maps'][f] = {'xid': mx.xid, 'is837': mx.xid == '837', 'icvn': map_icvn(segs),
                          'intern': sorted([I.rev[n], n] for n in nums), 'segs': segs}
    for c in et.parse(os.path.join(mapdir, 'codes.xml')).getroot().iter('codeset'):
        out['extsets'][c.findtext('id')] = [x.text if x.text is not None else '' for x in c.iterfind('version/code')]
    out['regexes'] = sorted(regexes)
    out['ids'] = {s: I(s) for s in always}
    path = os.path.join(workgen, 'doc.json')
    tmp = path + '.tmp.%d' % os.getpid()
    with open(tmp, 'w') as fh:
        json.dump(out, fh)
    os.replace(tmp, path)
    return {'file': 'doc.json', 'regexes': out['regexes'], 'ids': out['ids'],
            'maps': {f: {'is837': m['is837'], 'icvn': m['icvn'], 'nsegs': len(m['segs'])} for f, m in out['maps'].items()}}
