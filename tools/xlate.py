#!/venv/bin/python
"""
Translator: regenerates the Lean data the per-map obligations are about, from /repo's CURRENT files.

  /repo/pyx12/map/*.xml (every map file on disk + maps.xml + dataele.xml + codes.xml)
     -> lean/Gen/Tables.lean            interned data-element ids, external code set ids, index entries
     -> lean/Gen/Maps/<Name>.lean       one `MapFile` term per map file (own XML parse, NOT through pyx12)
     -> lean/Gen/Checks/<Name>.lean     `theorem … : violations … = <known list> := by decide +kernel`
     -> lean/Gen.lean                   imports everything
     -> work/gen/tables.json            string table, per-map node lists (for the C16 correspondence)

The expected violation lists come from /verif/known_findings.txt (`finding: property=C16 key=map:<file>:<rule>:<path>`);
nothing is computed here that could make an obligation vacuously true.
Files are rewritten only when their content changes (lake rebuilds only what changed).
"""
import json
import os
import re
import sys
import xml.etree.ElementTree as et

VERIF = os.path.dirname(os.path.dirname(os.path.abspath(__file__)))
REPO = os.environ.get('VERIF_REPO', '/repo')
LEAN = os.environ.get('VERIF_LEAN', os.path.join(VERIF, 'lean'))
MAPDIR = os.path.join(REPO, 'pyx12', 'map')
GEN = os.path.join(LEAN, 'Gen')
WORKGEN = os.path.join(VERIF, 'work', 'gen')

RULES = {'usage': 1, 'repeat': 2, 'elem': 3, 'seq': 4, 'note': 5, 'sibling': 6, 'pathdup': 7, 'fetch': 8, 'pos': 9}


class Intern:
    def __init__(self):
        self.tab = {'': 0}
        self.rev = ['']

    def __call__(self, s):
        if s is None:
            return 0
        if s not in self.tab:
            self.tab[s] = len(self.rev)
            self.rev.append(s)
        return self.tab[s]


def attr(e, name):
    """the loader's `elem.get(x) if elem.get(x) else elem.findtext(x)`"""
    v = e.get(name)
    return v if v else e.findtext(name)


def usage_code(u, I):
    return {'R': 0, 'S': 1, 'N': 2}.get(u, 3 + I(u or '?'))


def rep_code(r, I, none_is_unbounded=True):
    if r is None:
        return 0 if none_is_unbounded else 1000000
    if r in ('>1', '&gt;1'):
        return 0
    if re.fullmatch(r'[0-9]+', r) and int(r) >= 1:
        return int(r)
    return 1000000 + I(r)


def note_of(text):
    """segment_if._split_syntax"""
    if text is None:
        return None
    t = text.strip()
    if len(t) < 1 or t[0] not in 'PRCLE':
        return (5, [])
    body = t[1:]
    if len(body) % 2 != 0 or not body.isdigit():
        return (5, [])
    return ('PRECL'.index(t[0]), [int(body[i:i + 2]) for i in range(0, len(body), 2)])


class MapX:
    def __init__(self, fname, I, dataele):
        self.fname = fname
        self.I = I
        self.dataele = dataele
        self.nodes = []          # (index path, string path, kind, id)
        self.seg_notes = {}      # index path (dotted) -> syntax notes as the loader keeps them: [['P', 3, 4], …] (None: some note is malformed)
        root = et.parse(os.path.join(MAPDIR, fname)).getroot()
        self.xid = root.get('xid')
        self.children = self.loop_children(root, [], '', True)
        self.root = root

    def elem(self, e, keep_codes):
        I = self.I
        de = attr(e, 'data_ele')
        dt = self.dataele.get(de, (None,))[0]
        codes = []
        ext = None
        v = e.find('valid_codes')
        if v is not None:
            ext = v.get('external')
            codes = [c.text for c in v.findall('code')]
        seq = attr(e, 'seq')
        return {'xid': I(e.get('xid')), 'seq': int(seq), 'usage': usage_code(attr(e, 'usage'), I), 'de': I(de),
                'isID': dt == 'ID', 'isAN': dt == 'AN', 'codes': [I(c) for c in codes] if keep_codes else [],
                'ncodes': len(codes), 'ext': I(ext), 'regex': bool(e.findtext('regex')), 'code_strs': codes}

    def seg_children(self, s):
        cm = {}
        for e in s.findall('element'):
            cm[int(attr(e, 'seq'))] = e
        for e in s.findall('composite'):
            cm[int(attr(e, 'seq'))] = e
        out = []
        for k, seq in enumerate(sorted(cm)):
            e = cm[seq]
            if e.tag == 'element':
                out.append(('elem', self.elem(e, keep_codes=(k <= 2))))
            else:
                subs = [self.elem(x, keep_codes=(k == 0 and j == 0)) for j, x in enumerate(e.findall('element'))]
                out.append(('comp', {'xid': self.I(e.get('xid')), 'seq': int(attr(e, 'seq')),
                                     'usage': usage_code(attr(e, 'usage'), self.I), 'de': self.I(attr(e, 'data_ele')),
                                     'subs': subs}))
        return out

    def guess_key(self, sid, ch):
        """segment_if.guess_unique_key_id_element -> first valid code or None"""
        def el(i):
            return ch[i][1] if i < len(ch) and ch[i][0] == 'elem' else None
        e0 = el(0)
        if e0 is not None and e0['isID'] and e0['ncodes'] > 0:
            return e0['code_strs'][0]
        e1 = el(1)
        if sid == 'ENT' and e1 is not None and e1['isID'] and e1['ncodes'] > 0:
            return e1['code_strs'][0]
        if ch and ch[0][0] == 'comp' and ch[0][1]['subs'] and ch[0][1]['subs'][0]['isID'] and ch[0][1]['subs'][0]['ncodes'] > 0:
            return ch[0][1]['subs'][0]['code_strs'][0]
        e2 = el(2)
        if sid == 'HL' and e2 is not None and e2['ncodes'] > 0:
            return e2['code_strs'][0]
        return None

    def loop_children(self, parent, ip, spath, is_root=False):
        """children in the loader's order: buckets by pos (sorted), loops before segments within a bucket"""
        I = self.I
        buckets = {}
        for e in parent.findall('loop'):
            buckets.setdefault(int(attr(e, 'pos')), []).append(e)
        for e in parent.findall('segment'):
            buckets.setdefault(int(attr(e, 'pos')), []).append(e)
        out = []
        for pos in sorted(buckets):
            multi = len(buckets[pos]) > 1
            for e in buckets[pos]:
                i = len(out)
                if e.tag == 'loop':
                    lid = e.get('xid')
                    p = spath + '/' + lid
                    self.nodes.append((ip + [i], p, 'loop', lid))
                    node = {'kind': 'loop', 'id': I(lid), 'pos': pos, 'usage': usage_code(attr(e, 'usage'), I),
                            'rep': rep_code(attr(e, 'repeat'), I), 'wrapper': e.get('type') == 'wrapper',
                            'children': None}
                    out.append(node)
                    node['children'] = self.loop_children(e, ip + [i], p)
                else:
                    sid = e.get('xid')
                    ch = self.seg_children(e)
                    qual = self.guess_key(sid, ch) if (multi and not is_root) else None
                    notes = [n for n in (note_of(s.text) for s in e.findall('syntax')) if n is not None]
                    p = spath + '/' + sid + ('[' + qual + ']' if qual is not None else '')
                    self.nodes.append((ip + [i], p, 'segment', sid))
                    self.seg_notes['.'.join(str(x) for x in ip + [i])] = (
                        None if any(k == 5 for k, _ in notes) else [['PRECL'[k]] + list(ps) for k, ps in notes])
                    out.append({'kind': 'seg', 'id': I(sid), 'qual': I(qual), 'pos': pos,
                                'usage': usage_code(attr(e, 'usage'), I), 'maxUse': rep_code(attr(e, 'max_use'), I),
                                'notes': notes, 'children': ch})
        return out


# ----------------------------------------------------------------------------------------- Lean printing

def lb(b):
    return 'true' if b else 'false'


def lean_elem(e):
    return ('{ xid := %d, seq := %d, usage := %d, dataEle := %d, isID := %s, isAN := %s, codes := %s, ncodes := %d, ext := %d, regex := %s }'
            % (e['xid'], e['seq'], e['usage'], e['de'], lb(e['isID']), lb(e['isAN']), e['codes'], e['ncodes'], e['ext'], lb(e['regex'])))


def lean_child(c):
    kind, d = c
    if kind == 'elem':
        return '.elem ' + lean_elem(d)
    return '.comp %d %d %d %d [%s]' % (d['xid'], d['seq'], d['usage'], d['de'], ', '.join(lean_elem(s) for s in d['subs']))


def lean_node(n, ind):
    pad = ' ' * ind
    if n['kind'] == 'seg':
        notes = '[' + ', '.join('(%d, %s)' % (t, ps) for t, ps in n['notes']) + ']'
        ch = (',\n' + pad + '   ').join(lean_child(c) for c in n['children'])
        return '%s.seg %d %d %d %d %d %s\n%s  [%s]' % (pad, n['id'], n['qual'], n['pos'], n['usage'], n['maxUse'], notes, pad, ch)
    ch = ',\n'.join(lean_node(c, ind + 2) for c in n['children'])
    return '%s.loop %d %d %d %d %s [\n%s]' % (pad, n['id'], n['pos'], n['usage'], n['rep'], lb(n['wrapper']), ch)


def skel_elem(e):
    return [e['xid'], e['seq'], e['usage'], e['de'], int(e['isID']), int(e['isAN']), len(e['codes'])] + e['codes'] + \
        [e['ncodes'], e['ext'], int(e['regex'])]


def skel_numbers(nodes):
    """flat preorder encoding of the skeleton for the model driver (parsed by Drv/Walk.lean)"""
    out = [len(nodes)]

    def node(n):
        if n['kind'] == 'seg':
            out.extend([0, n['id'], n['qual'], n['pos'], n['usage'], n['maxUse'], len(n['notes'])])
            for t, ps in n['notes']:
                out.extend([t, len(ps)] + ps)
            out.append(len(n['children']))
            for kind, d in n['children']:
                if kind == 'elem':
                    out.append(0)
                    out.extend(skel_elem(d))
                else:
                    out.extend([1, d['xid'], d['seq'], d['usage'], d['de'], len(d['subs'])])
                    for sub in d['subs']:
                        out.extend(skel_elem(sub))
        else:
            out.extend([1, n['id'], n['pos'], n['usage'], n['rep'], int(n['wrapper']), len(n['children'])])
            for c in n['children']:
                node(c)
    for n in nodes:
        node(n)
    return out


def modname(fname):
    return 'M' + re.sub(r'[^A-Za-z0-9]', '_', fname[:-4])


def write_if_changed(path, text):
    os.makedirs(os.path.dirname(path), exist_ok=True)
    if os.path.exists(path) and open(path).read() == text:
        return False
    with open(path, 'w') as f:
        f.write(text)
    return True


def known_c16():
    """known findings -> {map file: [(rule, node path)]}, and index-level findings"""
    res = {}
    path = os.path.join(VERIF, 'known_findings.txt')
    if os.path.exists(path):
        for ln in open(path):
            m = re.match(r'finding:\s+property=C16\s+key=map:([^:\s]+):(\w+):(\S*)', ln.strip())
            if m:
                res.setdefault(m.group(1), []).append((m.group(2), m.group(3)))
    return res


def main():
    I = Intern()
    # data elements
    dataele = {}
    for e in et.parse(os.path.join(MAPDIR, 'dataele.xml')).getroot().iter('data_ele'):
        dataele[e.get('ele_num')] = (e.get('data_type'), e.get('min_len'), e.get('max_len'))
    codesets = [c.findtext('id') for c in et.parse(os.path.join(MAPDIR, 'codes.xml')).getroot().iter('codeset')]
    index = []
    for v in et.parse(os.path.join(MAPDIR, 'maps.xml')).getroot().iter('version'):
        for m in v.iterfind('map'):
            index.append((v.get('icvn'), m.get('vriic'), m.get('fic'), m.get('tspc'), m.text, m.get('abbr')))
    ent, hl, ctx = I('ENT'), I('HL'), I('CTX')
    files = sorted(f for f in os.listdir(MAPDIR)
                   if f.endswith('.xml') and re.match(r'^([0-9]|x12\.control)', f))
    maps = {}
    failed = {}
    for f in files:
        try:
            maps[f] = MapX(f, I, dataele)
        except Exception as ex:  # not parseable as a map: reported by the C16 check
            failed[f] = repr(ex)
    known = known_c16()
    # Tables.lean
    t = ['/- generated by tools/xlate.py from %s -- do not edit -/' % MAPDIR, 'namespace Gen', '',
         'def dataEles : List Nat := %s' % sorted(I(k) for k in dataele),
         'def extSets : List Nat := %s' % sorted(I(k) for k in codesets),
         'def ENT : Nat := %d' % ent, 'def HL : Nat := %d' % hl, 'def CTX : Nat := %d' % ctx,
         'def index : List (Nat × Nat × Nat × Nat × Nat) := [%s]' % ', '.join(
             '(%d, %d, %d, %d, %d)' % (I(a), I(b), I(c), I(d), I(e)) for (a, b, c, d, e, _) in index),
         '', 'end Gen', '']
    changed = write_if_changed(os.path.join(GEN, 'Tables.lean'), '\n'.join(t))
    imports = ['import Gen.Tables']
    side = {'maps': {}, 'failed': failed, 'index': index, 'files': files}
    for f, mx in maps.items():
        mn = modname(f)
        body = ['/- generated by tools/xlate.py from %s -- do not edit -/' % f, 'import Pyx12Verif.Model.MapSkel',
                'open Pyx12Verif.MapSkel', 'set_option maxRecDepth 1000000', 'namespace Gen', '',
                'def %s : MapFile := { xid := %d, children := [\n%s] }' % (
                    mn, I(mx.xid), ',\n'.join(lean_node(c, 2) for c in mx.children)), '', 'end Gen', '']
        write_if_changed(os.path.join(GEN, 'Maps', mn + '.lean'), '\n'.join(body))
        # expected violations from the known-findings file
        bypath = {}
        for ip, sp, kind, nid in mx.nodes:
            bypath.setdefault(sp, []).append(ip)
        exp = []
        for rule, npath in known.get(f, []):
            if rule not in RULES:
                continue
            m = re.match(r'(.*?)(?:#(\d+))?$', npath)
            cands = bypath.get(m.group(1), [])
            k = int(m.group(2)) if m.group(2) else 0
            if k < len(cands):
                exp.append((RULES[rule], cands[k]))
        # the Lean side lists violations in document order: per-node rules first (pre-order), then fetch rules
        def order(v):
            return (1 if v[0] == RULES['fetch'] else 0, v[1], 0)
        side['maps'][f] = {'module': mn, 'nodes': mx.nodes, 'notes': mx.seg_notes, 'expected': exp, 'xid': mx.xid, 'xid_n': I(mx.xid),
                           'skel': ' '.join(str(x) for x in skel_numbers(mx.children))}
        chk = ['/- generated by tools/xlate.py -- do not edit -/', 'import Gen.Tables', 'import Gen.Maps.' + mn,
               'open Pyx12Verif.MapSkel', 'set_option maxRecDepth 1000000', 'namespace Gen', '',
               '/-- the violations of %s are exactly the known findings (as a set) -/' % f,
               'theorem %s_violations :' % mn,
               '    sameSet (violations ENT HL CTX dataEles extSets %s) [%s] = true := by' % (
                   mn, ', '.join('(%d, %s)' % (r, p) for r, p in sorted(exp))),
               '  decide +kernel', '', 'end Gen', '']
        write_if_changed(os.path.join(GEN, 'Checks', mn + '.lean'), '\n'.join(chk))
        imports.append('import Gen.Checks.' + mn)
    # C02: walker hypotheses (Spec/WalkerGen.lean) per indexed map; expected value from the known-findings file
    indexed = sorted(set(e[4] for e in index) | {'x12.control.00401.xml', 'x12.control.00501.xml'})
    c02_false = {}
    kpath = os.path.join(VERIF, 'known_findings.txt')
    if os.path.exists(kpath):
        for ln in open(kpath):
            mm = re.match(r'finding:\s+property=C02\s+key=map:([^:\s]+):(wfmap|unambiguous)\b', ln.strip())
            if mm:
                c02_false.setdefault(mm.group(1), set()).add(mm.group(2))
    walk_thms = []
    for f in indexed:
        if f not in maps:
            continue
        mn = modname(f)
        wf = 'false' if 'wfmap' in c02_false.get(f, ()) else 'true'
        un = 'false' if 'unambiguous' in c02_false.get(f, ()) else 'true'
        chk = ['/- generated by tools/xlate.py -- do not edit -/', 'import Gen.Tables', 'import Gen.Maps.' + mn,
               'import Pyx12Verif.Spec.WalkerGen', 'import Pyx12Verif.Proofs.MapRules',
               'open Pyx12Verif.MapSkel Pyx12Verif.Walker Pyx12Verif.WalkerGen', 'set_option maxRecDepth 1000000', 'namespace Gen', '',
               '/-- hypotheses of `walk_accepts_generated` for %s -/' % f,
               'theorem %s_wfmap : WFMap %s.children = %s := by decide +kernel' % (mn, mn, wf),
               'theorem %s_unambiguous : Unambiguous ⟨ENT, HL, CTX⟩ %s.children = %s := by decide +kernel' % (mn, mn, un),
               '/-- same-id siblings key on the same value position (hypothesis of sibling_sound) -/',
               'theorem %s_slots : slotsOKList ENT HL %s.children = true := by decide +kernel' % (mn, mn),
               '', 'end Gen', '']
        write_if_changed(os.path.join(GEN, 'Walk', mn + '.lean'), '\n'.join(chk))
        imports.append('import Gen.Walk.' + mn)
        walk_thms += ['Gen.%s_wfmap' % mn, 'Gen.%s_unambiguous' % mn, 'Gen.%s_slots' % mn]
    side['walk_theorems'] = walk_thms
    side['walk_expected_false'] = {k: sorted(v) for k, v in c02_false.items()}
    write_if_changed(os.path.join(GEN, 'AuditC02.lean'), 'import Gen\n' + '\n'.join('#print axioms ' + t for t in walk_thms) + '\n')
    # index obligations
    idx_known = [int(x[1]) for x in known.get('maps.xml', []) if x[0] == 'indexkey']
    chk = ['/- generated by tools/xlate.py -- do not edit -/', 'import Pyx12Verif.Model.MapSkel', 'import Gen.Tables',
           'open Pyx12Verif.MapSkel', 'namespace Gen', '',
           'theorem index_keys_unambiguous : indexViols 0 index = %s := by decide +kernel' % sorted(idx_known), '',
           'end Gen', '']
    write_if_changed(os.path.join(GEN, 'Checks', 'Index.lean'), '\n'.join(chk))
    imports.append('import Gen.Checks.Index')
    # (Gen.lean is written below, once the acknowledgement-map module is known)
    audit = ['import Gen'] + ['#print axioms Gen.%s_violations' % modname(f) for f in maps] + ['#print axioms Gen.index_keys_unambiguous']
    write_if_changed(os.path.join(GEN, 'AuditC16.lean'), '\n'.join(audit) + '\n')
    # remove stale generated modules
    keep = {modname(f) + '.lean' for f in maps}
    for sub in ('Maps', 'Checks', 'Walk'):
        d = os.path.join(GEN, sub)
        if not os.path.isdir(d):
            continue
        for fn in os.listdir(d):
            if fn.endswith('.lean') and fn not in keep and fn != 'Index.lean':
                os.remove(os.path.join(d, fn))
    side['strings'] = I.rev
    side['consts'] = {'ENT': ent, 'HL': hl, 'CTX': ctx}
    os.makedirs(WORKGEN, exist_ok=True)
    # extended serialisation for the end-to-end document model (segment / element definitions, code sets): tools/xdoc.py
    sys.path.insert(0, os.path.dirname(os.path.abspath(__file__)))
    import xdoc
    side['doc'] = xdoc.build(MAPDIR, maps, dataele, I, WORKGEN)
    # map-side hypotheses of C06R.ack997_revalidates about the shipped 997 map and control maps: tools/xack.py
    import xack
    ack_imports = xack.emit(GEN, maps, dataele, I, write_if_changed, modname)
    write_if_changed(os.path.join(LEAN, 'Gen.lean'), '\n'.join(imports + list(ack_imports)) + '\n')
    side['ack_theorems'] = xack.THEOREMS if ack_imports else []
    with open(os.path.join(WORKGEN, 'tables.json'), 'w') as f:
        json.dump(side, f)
    print('xlate: %d map files translated, %d failed, %d strings' % (len(maps), len(failed), len(I.rev)))
    return 0


if __name__ == '__main__':
    sys.exit(main())
