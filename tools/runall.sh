#!/bin/bash
# run every check's quick (or $1) tier on the current /repo; one summary line per check
cd "$(dirname "$0")/.."
tier=${1:-quick}
rc_all=0
for p in C01 C02 C03 C04 C05 C06 C07 C08 C09 C10 C11 C12 C13 C14 C15 C16 C17 C18 C19 C20; do
  out=$(./check $p $tier 2>&1); rc=$?
  echo "$out" | grep -v "^KNOWN" | tail -1 | sed "s/^/rc=$rc /"
  echo "$out" | grep "^VIOLATION" -A1 | head -6
  [ $rc -ne 0 ] && rc_all=1
done
exit $rc_all
