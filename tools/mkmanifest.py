#!/usr/bin/env python3
"""Regenerates /verif/MANIFEST.json from the table below (keeps it valid and the not_applicable list current)."""
import json
import os

VERIF = os.path.dirname(os.path.dirname(os.path.abspath(__file__)))

COMMON_NOTE = ('Trusted: Lean 4.33 kernel with the standard axioms only (audited every run); the hand-written Lean model of the '
               'anchored Python code, whose agreement with /repo is established by the correspondence run in this check on the '
               'generated inputs (not for all inputs); the Python harness and the compiled model driver.')

CHECKS = {
    'C13': dict(
        text='Lean theorems: the model of IsValidDataType accepts a string iff it belongs to the X12 language (integers, decimals, the three '
             'character sets, D8/D6/DT dates with the Gregorian calendar and century window, RD8 ranges, TM times), for all strings of any '
             'length; render forms: a string is an accepted D8/D6/TM iff it is the rendering of a calendar date / clock time (C13Render). Tied to /repo by an exhaustive/structured differential (about 0.9M cases in quick) between the real function and the '
             'compiled model, plus an independent Python oracle of the languages.',
        note=COMMON_NOTE + ' charset in {B,E}, version in {00401,00501}.',
        technique='Lean 4 proof (model accepts iff X12 language, unbounded) + exhaustive bounded differential model vs code',
        design='DESIGN.md §3 C13'),
    'C16': dict(
        text='Translator regenerates a Lean term per map file from the current XML on every run; per-map theorems (decide +kernel) state that '
             'the violations of the well-formedness / addressing rules (usages, repeats, element references, seqs, syntax notes, same-position '
             'siblings distinguishable, path components unique, every loop and segment fetched by its own path) are exactly the listed known '
             'findings; index keys unambiguous; element/composite slots obligation M_slots per map; per-rule soundness theorems (C16Rules: an empty violation list implies the quantified rule). The quantifier (every map file, node, index entry) is finite and enumerated completely. The '
             'translation is compared node by node with pyx12\'s loaded tree and the same rules are evaluated on the real tree with the real '
             'getnodebypath / getnodebypath2; both ways of locating the map directory are compared.',
        note=COMMON_NOTE + ' tools/xlate.py (own XML parse) is cross-checked against the loader on every run.',
        technique='translator (maps -> Lean terms, regenerated every run) + kernel-evaluated per-map theorems + exhaustive check on the loaded trees',
        design='DESIGN.md §3 C16'),
}

CHECKS['C14'] = dict(
    text='Lean theorems: for every syntax note with at least two positions in 01..99 and every segment (hence every length and presence '
         'pattern), the model of is_syntax_valid reports the note violated iff the X12 definition (paired / required / exclusion / '
         'conditional / list conditional, written with quantifiers over positions) says so; routing theorems (E -> code 10, others -> 2, '
         'one error per violated note at its first position, none for a satisfied note); note-text parser specification. Tied to /repo by '
         'an exhaustive differential: every note class of every shipped map x all 2^n patterns x all lengths through the real '
         'is_syntax_valid and through segment_if.is_valid with errh_list, plus a generic part over all five types and arities 2-4.',
    note=COMMON_NOTE + ' Notes under <composite> elements are never evaluated by pyx12 and are outside the property.',
    technique='Lean 4 proof (verdict iff X12 definition, all notes/lengths/patterns) + exhaustive differential over all shipped notes',
    design='DESIGN.md §3 C14')

CHECKS['C15'] = dict(
    text='Lean theorems: for every element definition, setting and value, a code is reported by the model of element_if.is_valid iff the '
         'set-valued specification (written from the property statement on top of the C13 languages) implies it (elemErrors_spec); the '
         'boolean is false iff an error was reported; admissible values yield no error and conversely; composite-level counterpart '
         '(compErrors_spec). Tied to /repo by a differential over EVERY element, sub-element and composite node of every loadable map x '
         'a per-node value catalogue x charset B/E x exclusions on/off (real is_valid with errh_list vs model vs independent Python spec).',
    note=COMMON_NOTE + ' External-set membership and regex verdicts are Boolean parameters of the model; the harness computes them '
         'with its own parse of codes.xml and with re.',
    technique='Lean 4 proof (reported codes = spec set, all definitions/values) + exhaustive-over-nodes differential with a value catalogue',
    design='DESIGN.md §3 C15')
CHECKS['C17'] = dict(
    text='Lean theorems: parse (print p) = p for every well-formed structured path with any number of loop ids (parse_print, '
         'print_parse_print); the written-out last-component matcher accepts exactly the designator language (matchLast_none_iff, fields level matchLast_fields); '
         'refusal rules (qualifier_needs_segment, index_after_loops_needs_segment); segment laws get_set, set_pads, set_frame, '
         'foreign_segment_refused for all segments, designators and values in the stated domain. Tied to /repo by grammar enumeration '
         '(real X12Path fields/format/equality/errors vs model vs the generating parts), every map node path, and random set/get '
         'histories on real Segment objects.',
    note=COMMON_NOTE + ' Values written to a whole element are free of the component separator (element separator for ISA16).',
    technique='Lean 4 proof (parse/print round trip, get/set/frame laws, unbounded) + grammar enumeration and op-history differential',
    design='DESIGN.md §3 C17')

CHECKS['C19'] = dict(
    text='Lean theorems about the model of error_html: escape output contains no markup and every & starts a produced entity '
         '(escape_no_markup), unescape(escape s) = s, stripping the markup of a segment line and decoding recovers line number, id and all '
         'element values with the source delimiters (strip_recovers_segment), the markup of segment and message lines depends on shape only '
         '(segment_line_escaped, messages_escaped), one segment line per reader segment in order (every_segment_once_in_order). Tied to '
         '/repo by generated documents with faults, markup characters in data, odd segment ids and exotic delimiters: the real HTML is '
         'tokenised, compared line by line with the model, and every error of the captured error tree must appear next to its segment. '
         'The err_iter cursor, the per-segment drain loop and the get_error_list filters are modelled too (Model/ErrIter.lean): shown_iff_reachable '
         'characterises exactly which stored errors are shown, every known-finding class has a not-reachable lemma with a kernel-checked '
         'witness, body_segment_errors_shown covers the ordinary case, and all_errors_shown_full is proved false; the model\'s report is '
         'compared token by token with the real HTML on every document.',
    note=COMMON_NOTE + ' The err_handler call history fed to the cursor model is captured from the real run.',
    technique='Lean 4 proof (escaping, strip/unescape recovery, one line per segment) + HTML tokeniser oracle and model differential',
    design='DESIGN.md §3 C19')
CHECKS['C18'] = dict(
    text='Lean model of the cross-run state reachable through mutable default arguments (8 cells) with theorems inv_preserved, '
         'run_independent_of_history, history_independent: no modelled operation writes a cell, so any run observes what a fresh process '
         'observes. The model\'s premises are checked on every run: introspection of all package functions for mutable defaults must equal '
         'the modelled cell list, an AST scan must find no in-place mutation of a default-bound name or alias, the cells and all '
         'module-level containers must be unchanged after the run. Histories of generated documents (mixed maps/versions, repeats, reused '
         'params; every third history starts with a run configured from a FILE, every third with a run on a private map directory whose maps.xml '
         'differs) are compared result by result (verdict, errors, XML, HTML, ack body, context-reader iteration) with a fresh interpreter; '
         'class-level containers are watched like module-level ones. Props/C18Doc.lean states the property for the END-TO-END model (a '
         'session is the map of validateDoc / docXmlText / ctxDoc over the requests: session_history_independent, session_repeat, '
         'session_order_independent - immediate, the model threads no state), and the documents of the histories are compared with that pure '
         'model in the very process that ran the histories.',
    note=COMMON_NOTE + ' PARTIAL: interpreter-level state outside the model (logging, sys.path, stdlib caches) cannot be exhibited by the '
         'model and is only exercised by the history runs.',
    technique='Lean 4 proof (no write to cross-run cells => history independence) + introspection/AST premises + history vs fresh-process differential',
    design='DESIGN.md §3 C18')

CHECKS['C01'] = dict(
    text='Lean theorems on the model of RawX12File / X12Reader.__iter__ / Segment: for every text and every read-size oracle (sizes >= 1) the '
         'reader yields exactly the declarative split (raw_chunk_independent, reader_chunk_independent); the split is sound and complete '
         'w.r.t. a decomposition of the text into CR/LF runs, terminator-free lines and terminators (spec_sound_complete); split/join are '
         'inverse, ISA is never sub-split, parsing is lossless, parse(format s) = normalised s, format-parse-format is idempotent, re-reading '
         'the formatted segments gives the same segments (reread_same), the reader never raises. Tied to /repo by texts over many delimiter '
         'triples, line-break styles, segments straddling/exceeding the 8 KiB buffer, read oracles down to 1 char, read through a stream '
         'AND by path, compared per segment (id, every value, format(), error codes) with the model and an independent splitter.',
    note=COMMON_NOTE + ' open(), ASCII decoding and universal-newline translation are exercised, not modelled (opening by path translates a CR terminator to LF).',
    technique='Lean 4 proof (chunk independence, split/join, parse/format laws, unbounded) + stream-oracle and by-path differential',
    design='DESIGN.md §3 C01')
CHECKS['C04'] = dict(
    text='Lean theorems on the model of X12Base/X12Reader._parse_segment + cleanup: for every structured document (interchanges > groups > '
         'sets > body, any control numbers and counts incl. non-numeric, HL/LX numbering) the reader\'s errors equal, segment by segment, a '
         'structural recount written without stack or running counters (reader_eq_recount_segs, reader_eq_recount_open for missing trailers); '
         'consistent envelopes draw no error; the HL stack is the ancestor chain; the reader never crashes (reader_total). The last clause '
         '(every improper arrangement draws an error) is FALSE of the code: kept as not_nested_reports_full with a proved counterexample and '
         'a proved _partial; the arrangement classes are known findings. Tied to /repo by 20 000 random segment sequences per run (plus 2.8 M int() texts incl. every Unicode scalar value) against '
         'the real X12Reader (pop_errors after every segment, cleanup) and an independent Python recount.',
    note=COMMON_NOTE + ' pyInt models CPython int() for every string (Unicode decimal digits and white space tables re-derived from the running Python on every run and compared exhaustively over all scalar values); with check_837_lx every LX follows a CLM of the same set.',
    technique='Lean 4 proof (reader errors = structural recount, totality; unbounded) + random segment-sequence differential',
    design='DESIGN.md §3 C04')
CHECKS['C12'] = dict(
    text='Lean theorems (on the C01 tokenizer / segment-text model): encoding one segment list with two admissible delimiter triples and any '
         'CR/LF layout parses to the same segments (reencode_invariant, read_encoded, reencode_invariant_reader), so everything downstream of '
         'the reader sees identical input. That the rest of the real pipeline consults the text only through the parsed segments is decided by '
         'the metamorphic run on the real code: generated documents with 0-2 faults x delimiter triples x line-break styles must give the same '
         'verdict, error set (level, code, segment position, element position, value) and acknowledgement body. End to end (Model/Document): '
         'doc_delimiter_independent (terminator / element separator) and doc_delimiter_independent_sub (component separator too: outcome, verdict, '
         'per-segment results, events and final error tree equal up to renaming the separator inside data strings, under SepNeutral: the separators '
         'occur in no map string and are not characters int() gives a meaning to); the earlier _sub_full statement is refuted by a kernel-evaluated '
         'witness and IntNeutral is shown necessary (the listed count-composite-int finding).',
    note=COMMON_NOTE + ' PARTIAL: the acknowledgement TEXT is proved equal only at the level of the error tree it is generated from (ack_canonical, ack_eq_of_fixed); its rendering is exercised by the metamorphic run.',
    technique='Lean 4 proof (re-encoding invariance of the reader) + metamorphic run of the real validator',
    design='DESIGN.md §3 C12')

CHECKS['C08'] = dict(
    text='Lean theorems on the models of x12xml_simple / xmlwriter / xmlx12_simple: after every segment the open-element stack spells '
         'exactly the map path of the matched node (stack_invariant, seg_nesting), a repeated loop opens a fresh element '
         '(loop_repeat_fresh, fresh_instances), the document is balanced (xml_balanced), decoding the five entities inverts text and '
         'attribute escaping (unescape_escape, escape_safe), rebuilding a segment from its XML gives the expected segment and the whole '
         'document round-trips (rebuild_identity, doc_roundtrip), under the per-map hypotheses wfIds and noSiblingLoopIdPrefix (evaluated '
         'exhaustively over all shipped maps by the compiled model and independently in Python on every run). Tied to /repo by generated '
         'documents (markup characters, blanks, non-ASCII, 70+ delimiter triples): real XML parsed with xml.etree, nesting compared with '
         'the matched nodes, converted back with the real xmlx12_simple and compared (values planted in not-used elements in front of '
         'filled ones must not cost the rest of the segment); event stream compared with the model. Text level '
         '(Model/Convert = xmlx12_simple.convert feeding X12Writer): convertText_complete, text_roundtrip_generated (segments equal, trailers '
         'included), text_roundtrip_identity (canonical layout: identical text), text_roundtrip_repairs_counts; compared byte for byte with '
         'the real x12n_document + convert on 1 800 layout / delimiter / count variants (op CVTXT).',
    note=COMMON_NOTE + ' xml.etree is trusted to parse well-formed XML; data characters exclude C0 controls and the fixed output delimiters of xmlx12_simple; X12Writer (trailers) is covered by C11.',
    technique='Lean 4 proof (stack invariant, balance, escape inverse, rebuild identity) + round-trip differential on generated documents',
    design='DESIGN.md §3 C08')

CHECKS['C02'] = dict(
    text='Lean theorem walk_accepts_generated (with walk_accepts_flat / walk_accepts_nested): for every map skeleton satisfying the decidable '
         'hypotheses WFMap and Unambiguous, and every conformant derivation (loop instance = first segment once, then each later child in '
         'order within its limits, required ones at least once, transparent wrapper loops), running the walker model from the state after GS '
         'returns for every segment exactly the intended node with no error and no pending requirement, counters within limits; '
         'walk_accepts_multi / walk_accepts_multi_sets extend it to any number of groups per interchange (each GS pinned as x12n_document does) '
         'and sets per group. The '
         'hypotheses are kernel-decided (decide +kernel) per indexed map on the regenerated map terms; maps that violate them are listed as '
         'known findings. Counter theorems (NodeCounter = count per path with subtree reset). Tied to /repo by the walker differential (real '
         'walk_tree driven as x12n_document drives it vs the model, per segment, on generated documents and structural mutants of every '
         'map) and by the property oracle: generated conformant documents through the real x12n_document must give True, an empty error '
         'tree and an accepting acknowledgement (per index entry: random documents, a two-group interchange, and interchanges holding two '
         'groups of DIFFERENT maps - every pair of entries sharing GS08, both orders, every 837 with service lines in front of every 835, plus sampled pairs). Element-level acceptance is C15 (admissible_no_error).',
    note=COMMON_NOTE + ' Random documents hold one interchange, group and set; multi-set, two-group and two-map interchanges are built beside them (more shapes under C05); conformance of element values is '
         'generated by harness/gendoc.py and checked end to end on the real code, the element-level theorem lives in C15.',
    technique='Lean 4 proof (walker accepts every conformant derivation; per-map hypotheses by kernel evaluation on translated maps) + walker differential + end-to-end oracle',
    design='DESIGN.md §3 C02')
CHECKS['C03'] = dict(
    text='Lean theorems: one detection lemma and one isolation lemma per element-level fault kind (too long 5, too short 4, outside code list 7, '
         'wrong class 6, bad date 8, bad time 9, missing required 1, not-used filled 10; composite 2/5/3), derived from C15 elemErrors_spec: '
         'the reported codes are exactly the spec set of the faulty value; syntax-note kinds from C14 (one error, code 10 for E else 2, at the '
         'note\'s first position); walker: unknown_segment_not_found / unknown_segment_isolated proved, local step lemmas for max-use, loop '
         'repeat and mandatory-missing and the run-level theorems max_use_exceeded_reported, loop_repeat_reported (needs the decidable sfList; the unrestricted form is proved false on a witness) and mandatory_missing_reported (trigger points as the model has them; the unrestricted form is proved false on the known-finding corner). Pipeline level (validateDoc, the end-to-end model): '
         'doc_rejects_element_fault, doc_rejects_syntax_fault, doc_rejects_structural_fault (max use, loop repeat, mandatory missing, unknown '
         'segment) conclude OneFaultRun - verdict false, exactly the implied events at the faulty segment, every other segment matched and '
         'quiet, the error tree holding exactly that segment node - and doc_fault_other_sets_accepted shows the other sets of the group stay '
         'accepted (AK5/IK5 A). Tied to /repo by the '
         'fault catalogue applied at sampled positions of generated (multi-set) documents: verdict False, error with the matching code at '
         'the injected segment/element position in the error tree and in AK3/AK4 (IK3/IK4), reported set == implied set when the real '
         'walker matches all other segments as before, other sets stay accepted.',
    note=COMMON_NOTE + ' PARTIAL: doc_fault_other_sets_full (faults in documents with several groups / interchanges) is proved for one group; faults on envelope segments and several simultaneous faults are decided on the real code only.',
    technique='Lean 4 proof (detection + isolation lemmas from C15/C14/walker) + fault-injection oracle on the real pipeline',
    design='DESIGN.md §3 C03')
CHECKS['C05'] = dict(
    text='Lean model of the error tree attach state machine and of the 997/999 visitors with theorems verdict_iff_no_error, ak5_accept_iff, '
         'ak9_accept_iff, ak9_totals_eq_recount, ack_addressed_to_sender, ack_names_every_group_and_set_in_order, itemisation_complete; the '
         'full-strength forms that the code violates are kept as _full defs with kernel-checked counterexamples (D22, D27, D28) beside proved '
         '_partial theorems. PIPELINE level (Props/DocC05, DocC05Ack over validateDoc, for every input text): doc_events_wellformed (the events of any run '
         'satisfy the hypotheses the tree-level theorems take: structural calls nest in reader order, the run of the error tree succeeds, the '
         'tree refines a flat recount), doc_verdict_iff_no_report (verdict true iff every report is one the handler swallows - exactly finding '
         'D27, unrestricted form refuted on a witness), doc_ack_names_groups_and_sets, doc_ack_accepts_iff, doc_ack_totals (997). '
         'Tied to /repo by capturing the err_handler call sequence of the real validator on valid, faulty, multi-set, '
         'multi-group and multi-interchange documents (4010 and 5010; set control numbers also over-long, blank-padded, one digit; a faulty set repeated behind itself so that consecutive sets carry the same fault at the same place), replaying it through the model and comparing tree summary and '
         'acknowledgement segments; the property oracle recounts verdict, AK5/AK9 codes and totals, addressing and itemisation on the real outputs.',
    note=COMMON_NOTE + ' Timestamps and generated control numbers are masked; list(set()) order is compared as a multiset.',
    technique='Lean 4 proof (error tree + acknowledgement model) + event-sequence differential + recount oracle on the real acknowledgement',
    design='DESIGN.md §3 C05')
CHECKS['C06'] = dict(
    text='Lean theorems on the acknowledgement model: a complete 997/999 passes an independent structural recount (SE/GE/IEA counts, trailer '
         'control numbers = headers\') (ack997_envelope_clean, ack999_envelope_clean), set control numbers unique, echoed values cannot add or '
         'split elements or segments under the stated safety hypothesis on the written fields (echo_cannot_split, ack997_text_roundtrip), the '
         'repaired visitors do not raise (ack_complete, ack999_complete), the ack selects the ack map; and the LAST sentence of the property for '
         'the 997: ack997_revalidates - the rendered acknowledgement, fed to the end-to-end model validateDoc, is accepted with no report when '
         'the echoed values fit their slots (EchoFits) - from ack997_is_derivation (the output is a derivation of the 997 skeleton) and '
         'ack997_values_admissible, with the map-side hypotheses (shape997, ackDefsOk, ackKeysOk, isaDefOk) regenerated from the shipped 997 '
         'and control maps and discharged by decide +kernel on every run (tools/xack.py); the 999 counterpart stays partial (both 999 maps '
         'fail WFMap: the listed CTX finding); ack997_ak402_not_echo: AK402 as written is empty or 1-4 ASCII digits (the repair this proof led to). Tied to /repo by re-reading every real '
         'acknowledgement with the real reader (no envelope error, recount) and re-validating it with the real validator, incl. inputs with '
         'other delimiters and data containing ~ * : ^.',
    note=COMMON_NOTE + ' Echo of delimiter characters is a listed finding.',
    technique='Lean 4 proof (ack envelope = structural recount, no split) + re-read / re-validate oracle on real acknowledgements',
    design='DESIGN.md §3 C06')
CHECKS['C10'] = dict(
    text='Lean model of the X12DataNode trees (rose tree, index-path addresses, map data carried on nodes) with theorems queries_agree, '
         'get_set, set_frame, delete_removes_exactly_one, deleted_invisible, insert_after_le_before_gt, insert_keeps_sorted, copy_independent, '
         'serialise_reflects_edits (per call and forest level), the bridge from the context reader (Props/C10Bridge: every tree ctxDoc yields for any text is '
         'position-sorted at every loop - requested loop other than ISA_LOOP -, so the insertion / placement / serialisation laws hold on reader '
         'trees without further hypotheses, and every operation keeps the invariant: reader_history), history_refinement (any call history refines the abstract forest), '
         'copy_preserves_format, and copy_shares_nothing on a heap-level model (Model/DataTreeH) in which sharing is expressible. Tied to /repo by random histories of all 12 API calls with valid and invalid '
         'paths on real trees from generated documents: after every call result/exception class and a checksum of every tree are compared with '
         'the model, and every law is evaluated on the real code.',
    note=COMMON_NOTE + ' The heap-level model of copy is hand-written; aliasing on the real objects is additionally decided by the identity-based oracle.',
    technique='Lean 4 proof (editing laws on the tree model) + API-history differential + law oracle on real trees',
    design='DESIGN.md §3 C10')
CHECKS['C20'] = dict(
    text='Lean model of x12norm.main over the C01 reader and C04 envelope models with theorems norm_preserves_segments, isa_line_verbatim, '
         'one_per_line, norm_idempotent (full strength except the ISA16-empty case: counterexample proved, finding listed), fix_repairs_counts, '
         'fix_leaves_no_count_error, fix_alters_nothing_else, norm_never_crashes; the -f statements hold at full strength (norm_idempotent_fix_holds, fix_reread_holds), idempotence is characterised exactly (norm_idempotent_all: iff no ISA with empty ISA16), normalisation commutes with a change of terminator (norm_reterm, norm_reterm_text), -f keeps control numbers and every non-count line (fix_keeps_control_numbers, fix_keeps_other_lines). Tied '
         'to /repo by running the real main() in-process on files (all option combinations: eol, fix, stdout / -o / in place) built from '
         'generated documents with corrupted counts and HL numbers, compared with the model and an independent required output; output is '
         're-normalised and re-read with the real reader.',
    note=COMMON_NOTE + ' Files are read by path after universal-newline translation; delimiters are not decimal digits.',
    technique='Lean 4 proof (normaliser = reader ∘ envelope ∘ format; idempotence, count repair) + in-process runs of the real script',
    design='DESIGN.md §3 C20')

CHECKS['C11'] = dict(
    text='Lean model of X12Writer (Write / _popToLoop / Close over the shared X12Base bookkeeping) with theorems writer_body_preserved (any '
         'history: non-trailer output = non-trailer input in order), writer_discards_supplied_trailers, writer_trailers_true (the output is '
         'the flattening of a structured document whose trailers carry the header\'s control number and the true counts, via C04\'s recount), '
         'reader_clean_after_close / _text / reader_end_to_end (for every well-nested history with fresh control numbers, every prefix + Close '
         'gives an interchange the C04 reader model accepts with no envelope error, also through the rendered text and the C01 tokenizer under '
         'any read sizes), isa_carries_delims, writer_total. Tied to /repo by 5 000 random histories per run on the real X12Writer (Close after '
         'every prefix, 5 delimiter families, eol settings, 4010/5010): per-Write text compared with the model, output re-read with the real '
         'X12Reader and recounted by an independent tokenizer.',
    note=COMMON_NOTE + ' Headers carry non-empty control numbers; values are free of the writer\'s delimiters; counts below the 4300-digit int() limit.',
    technique='Lean 4 proof (writer/reader lockstep simulation; trailers = structural recount) + write-history differential and re-read oracle',
    design='DESIGN.md §3 C11')

CHECKS['C09'] = dict(
    text='Lean model of X12ContextReader.iter_segments / _add_segment over abstract walker answers with theorems, for every Consistent answer '
         'list and every requested loop id or none: partition (the yielded plain segments and tree segments, concatenated in order, are '
         'exactly the source segments), tree_is_maximal_instance, plain_is_outside, tree_count, tree_shape_follows_path, positions_carried, '
         'no_crash. Consistent is an executable predicate evaluated by the driver on every real walker trace. Tied to /repo by real '
         'iter_segments for no loop id and every segment-anchored loop id of the map on generated documents of all maps (repeated '
         'interchanges/groups/sets included), compared with the model and with an independent oracle (partition, rooting, instance count, '
         'nesting = map path, seg_count and line carried).',
    note=COMMON_NOTE + ' Consistent is PROVED for the answers derived from the Walker model on EVERY segment sequence (answers_consistent_any; partition_located, tree_is_maximal_instance_located, ... need no hypothesis on the run) under the decidable map hypotheses WFMap, ShapeUnamb, CtxMapOK and LidOK, which hold for all shipped maps / loop ids except the listed ones; on real traces it is also evaluated by the driver. The composed model ctxDoc (from text) has ctxDoc_partition_generated and ctxDoc_total_full_sites.',
    technique='Lean 4 proof (yields = plain segments + maximal loop instances for all consistent answer lists) + per-(document, loop id) differential and oracle',
    design='DESIGN.md §3 C09')

CHECKS['C07'] = dict(
    text='Lean theorem pipeline_total (PARTIAL): the composed model readAndCheck (tokenise with any read-size oracle -> envelope bookkeeping -> '
         'per-segment element and syntax validation over an abstract matched-node oracle with well-formed nodes) never reaches a crash outcome, '
         'and its outcome is a verdict or one of the documented refusals (pipeline_outcomes, reader_total); doc_total / doc_total_sharp prove '
         'the same for the END-TO-END model validateDoc (real walker model, error tree, acknowledgement): the only reachable crash outcomes '
         'are the three err_handler call sites listed as findings (plus map inconsistencies the translator excludes); it assembles the theorems '
         'of C01, C04, C13, C14, C15. ctxDoc_total_sharp does the same for the composed context-reader model (only the listed _add_segment '
         'finding is reachable, plus five tree exits neither proved unreachable nor observed); the XML/HTML sinks are composed in '
         'Model/DocSinks.lean: doc_sinks_total (docXml_total_holds, docHtml_total_holds: output written iff validation returns a verdict, '
         'well-formed and escaped) under CtlIsaOK; doc_envelope_order / doc_total_sharp_holds under the decidable map hypothesis EnvNested, '
         'evaluated on the loaded maps by the compiled model on every run (op NESTOK; a failing map is a broken hypothesis); walk_nested '
         'holds without any map hypothesis. NOT modelled: logging, exceptions swallowed around the acknowledgement visitors, file opening. Tied to /repo '
         'by a structural mutation fuzz (22 maps x 50 mutation kinds + arbitrary strings x sink subsets x charsets) through x12n_document, '
         'X12Reader and X12ContextReader.iter_segments: any escaping exception other than the documented refusals is a violation keyed by '
         'exception type and innermost pyx12 call site, with a shrunk replay; the reader-level outcome class is also compared with the model.',
    note=COMMON_NOTE + ' PARTIAL: proofs are about the end-to-end model (reader, walker, validation, error tree, acknowledgement, sinks, context reader); logging and file handling are outside it. Exceptions swallowed inside the ack visitors belong to C06.',
    technique='Lean 4 proof (no crash outcome in the composed reader/validation model) + structural mutation fuzz keyed by call site',
    design='DESIGN.md §3 C07')

PENDING_REASON = 'check under construction in this session (see DESIGN.md §3); not yet claimed'


def main():
    props = [json.loads(l) for l in open(os.path.join(VERIF, 'properties.jsonl'))]
    m = {
        'version': 1,
        'setup_cmd': '/venv/bin/python tools/xlate.py && cd lean && lake build Pyx12Verif pyx12model Gen',
        'hooks': {
            'guard': 'AZONER_PYX12_VERIF',
            'enable': 'checks set AZONER_PYX12_VERIF=1 in their own process; no hook is installed in /repo (time/random are patched in-process by the harness)',
            'baseline_off_cmd': 'cd /repo && env -u AZONER_PYX12_VERIF /venv/bin/python -m pytest -ra -q -p no:cacheprovider --timeout=900 --continue-on-collection-errors',
            'source_commits': [],
            'add_only': True,
        },
        'engines': [
            {'name': 'lean4-model', 'path': 'lean/', 'serves_properties': sorted(CHECKS),
             'kind_free_text': 'Lean 4 models + theorems (lake project Pyx12Verif), generated per-map obligations (lib Gen), compiled model driver pyx12model'},
            {'name': 'harness', 'path': 'harness/', 'serves_properties': sorted(CHECKS),
             'kind_free_text': 'Python correspondence harness: real pyx12 in-process vs the Lean driver, property oracles, known-findings matching, evidence'},
            {'name': 'translator', 'path': 'tools/xlate.py', 'serves_properties': ['C16'],
             'kind_free_text': 'regenerates Lean data (maps, index, tables) from /repo on every run'},
        ],
        'checks': [],
        'notes': 'See DESIGN.md. Every check: (translator) -> lake build (no-op when unchanged) -> axiom audit -> correspondence real code vs Lean model -> property oracle on real code. Exit 0 held / known findings only; 1 with VIOLATION line; 2 infrastructure.',
        'not_applicable': [],
    }
    for p in props:
        pid = p['id']
        if pid in CHECKS:
            c = CHECKS[pid]
            m['checks'].append({
                'property_id': pid,
                'quick_cmd': './check %s quick' % pid,
                'thorough_cmd': './check %s thorough' % pid,
                'evidence_file': 'evidence/%s.json' % pid,
                'replay_cmd_template': './check %s --replay {path}' % pid,
                'engine': 'lean4-model',
                'level_claimed': {'category': c.get('category', 'proof'), 'text': c['text'], 'design_ref': c['design']},
                'level_note': c['note'],
                'technique': c['technique'],
            })
        else:
            m['not_applicable'].append({'property_id': pid, 'reason': PENDING_REASON})
    with open(os.path.join(VERIF, 'MANIFEST.json'), 'w') as f:
        json.dump(m, f, indent=1)
        f.write('\n')
    print('MANIFEST.json: %d checks, %d not claimed' % (len(m['checks']), len(m['not_applicable'])))


if __name__ == '__main__':
    main()
