#!/bin/bash
# tools/seedround.sh <round> <P>…  — evaluates every seed /tmp/seed/out<round>_<P>/<n> with tools/seedcheck.py (own check only)
R=$1; shift
cd "$(dirname "$0")/.."
for P in "$@"; do
  for d in /tmp/seed/out${R}_$P/*/; do
    n=$(basename $d)
    [ -f $d/patch.diff ] || continue
    SEED_ROUND=$R /venv/bin/python tools/seedcheck.py $P $n > /tmp/seed/eval_${R}_${P}_$n.json 2>&1
    /venv/bin/python - "$P" "$n" /tmp/seed/eval_${R}_${P}_$n.json <<'PY'
import sys,json,re
P,n,f=sys.argv[1:4]
t=open(f).read()
try:
    m=json.loads(t[t.index('{'):])
    print(P,n,'confirmed' if m['confirmed'] else 'NOT-CONFIRMED','detected_by',m['detected_by'],[r['rc'] for r in m['ran']])
except Exception as e:
    print(P,n,'ERR',t[-300:])
PY
  done
done
