#!/bin/bash
# tools/harmless.sh <patch.diff> [checks…] : apply a (supposedly behaviour-preserving) change to a scratch copy of /repo and
# run the checks against it; prints the summary lines; exit 1 if any check alarms.
cd "$(dirname "$0")/.."
patch=$1; shift
tmp=$(mktemp -d /tmp/harmless_XXXX)
cp -r /repo/. $tmp/ && git -C $tmp apply "$patch" || { echo "patch does not apply"; rm -rf $tmp; exit 2; }
(cd $tmp && timeout 900 /venv/bin/python -m pytest -q -p no:cacheprovider -x 2>&1 | tail -1)
rc_all=0
for p in ${@:-C01 C02 C03 C04 C05 C06 C07 C08 C09 C10 C11 C12 C13 C14 C15 C16 C17 C18 C19 C20}; do
  out=$(VERIF_REPO=$tmp ./check $p quick 2>&1); rc=$?
  if [ $rc -ne 0 ]; then rc_all=1; echo "ALARM rc=$rc $p"; echo "$out" | grep "^VIOLATION" -A1 | head -6 | cut -c1-260; fi
done
rm -rf $tmp
/venv/bin/python tools/xlate.py >/dev/null
exit $rc_all
