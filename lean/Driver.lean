/- Model driver: one operation per input line, one result per output line. -/
import Pyx12Verif.Drv.C13
import Pyx12Verif.Drv.Walk
import Pyx12Verif.Drv.C14
import Pyx12Verif.Drv.C15
import Pyx12Verif.Drv.C17
import Pyx12Verif.Drv.C19
import Pyx12Verif.Drv.C04
import Pyx12Verif.Drv.C01
import Pyx12Verif.Drv.C08
import Pyx12Verif.Drv.C05
import Pyx12Verif.Drv.C20
import Pyx12Verif.Drv.C10
import Pyx12Verif.Drv.C11
import Pyx12Verif.Drv.C09
import Pyx12Verif.Drv.C07
import Pyx12Verif.Drv.Doc
import Pyx12Verif.Drv.C19Iter
import Pyx12Verif.Drv.DocSinks
import Pyx12Verif.Drv.CtxDoc
import Pyx12Verif.Drv.C08Text
import Pyx12Verif.Drv.DocNest

open Pyx12Verif

def handlers : List (List (List Char) → Option String) :=
  [Drv.C13.handle, Drv.C14.handle, Drv.C15.handle, Drv.C17.handle, Drv.C19.handle, Drv.C04.handle, Drv.C01.handle, Drv.C08.handle, Drv.C05.handle, Drv.C20.handle, Drv.C10.handle, Drv.C11.handle, Drv.C09.handle, Drv.C07.handle, Drv.C19Iter.handle]

structure St where
  walk : Drv.Walk.DState := {}
  doc : Drv.Doc.DState := {}
  sinks : Drv.DocSinks.DState := {}

partial def loop (hin hout : IO.FS.Stream) (st : St) : IO Unit := do
  let line ← hin.getLine
  if line.isEmpty then return ()
  let fs := Proto.fields line
  match handlers.findSome? (fun h => h fs) with
  | some r => hout.putStrLn r; loop hin hout st
  | none =>
    match Drv.Walk.handle st.walk fs with
    | some (w, r) => hout.putStrLn r; loop hin hout { st with walk := w }
    | none =>
      match Drv.Doc.handle st.doc fs with
      | some (d, r) => hout.putStrLn r; loop hin hout { st with doc := d }
      | none =>
        match Drv.DocSinks.handle st.doc st.sinks fs with
        | some (k, r) => hout.putStrLn r; loop hin hout { st with sinks := k }
        | none =>
          match Drv.CtxDoc.handle st.doc fs with
          | some r => hout.putStrLn r; loop hin hout st
          | none =>
            match Drv.C08Text.handle st.doc fs with
            | some r => hout.putStrLn r; loop hin hout st
            | none =>
              match Drv.DocNest.handle st.doc fs with
              | some r => hout.putStrLn r; loop hin hout st
              | none => hout.putStrLn "bad-op"; loop hin hout st

def main : IO Unit := do
  let hin ← IO.getStdin
  let hout ← IO.getStdout
  loop hin hout {}
  hout.flush
