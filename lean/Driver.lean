/- Model driver: one operation per input line, one result per output line. -/
import Pyx12Verif.Drv.C13

open Pyx12Verif

def handlers : List (List (List Char) → Option String) :=
  [Drv.C13.handle]

def dispatch (fs : List (List Char)) : String :=
  match handlers.findSome? (fun h => h fs) with
  | some r => r
  | none => "bad-op"

partial def loop (hin hout : IO.FS.Stream) : IO Unit := do
  let line ← hin.getLine
  if line.isEmpty then return ()
  hout.putStrLn (dispatch (Proto.fields line))
  loop hin hout

def main : IO Unit := do
  let hin ← IO.getStdin
  let hout ← IO.getStdout
  loop hin hout
  hout.flush
