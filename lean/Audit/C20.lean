import Pyx12Verif.Props.C20
#print axioms Pyx12Verif.Norm.norm_preserves_segments
#print axioms Pyx12Verif.Norm.isa_line_verbatim
#print axioms Pyx12Verif.Norm.written
#print axioms Pyx12Verif.Norm.one_per_line
#print axioms Pyx12Verif.Norm.norm_idempotent
#print axioms Pyx12Verif.Norm.norm_idempotent_counterexample
#print axioms Pyx12Verif.Norm.norm_idempotent_fix_partial
#print axioms Pyx12Verif.Norm.fix_runs
#print axioms Pyx12Verif.Norm.fix_leaves_no_count_error
#print axioms Pyx12Verif.Norm.fix_repairs_counts
#print axioms Pyx12Verif.Norm.consistent_onlyCountDefects
#print axioms Pyx12Verif.Norm.fix_alters_nothing_else
#print axioms Pyx12Verif.Norm.fix_written_reread
#print axioms Pyx12Verif.Norm.fix_reread_partial
#print axioms Pyx12Verif.Norm.loop_never_crashes
#print axioms Pyx12Verif.Norm.norm_never_crashes
