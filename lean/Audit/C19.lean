import Pyx12Verif.Props.C19
open Pyx12Verif.Html
#print axioms escape_no_markup
#print axioms escape_per_char
#print axioms unescape_escape
#print axioms escape_injective
#print axioms strip_recovers_segment
#print axioms segment_line_escaped
#print axioms segment_line_markup_shape_only
#print axioms segment_line_markup_fixed
#print axioms messages_escaped
#print axioms every_segment_once_in_order
