import Pyx12Verif.Props.C01
open Pyx12Verif.C01
#print axioms raw_chunk_independent
#print axioms reader_chunk_independent
#print axioms spec_sound_complete
#print axioms spec_lines
#print axioms split_join
#print axioms split_only_at_separator
#print axioms join_split
#print axioms isa_not_subsplit
#print axioms parse_lossless
#print axioms parse_format
#print axioms format_parse_idem
#print axioms reader_never_crashes
#print axioms segments_clean
#print axioms segments_encode
#print axioms reread_same
#print axioms reread_text_fixpoint
