import Pyx12Verif.Props.C09
open Pyx12Verif.Ctx
#print axioms run_parts
#print axioms no_crash
#print axioms instances
#print axioms partition_leaves
#print axioms partition
#print axioms positions_carried
#print axioms tree_is_maximal_instance
#print axioms plain_is_outside
#print axioms tree_count
#print axioms tree_shape_follows_path
