import Pyx12Verif.Props.C09
import Pyx12Verif.Props.C09Walk
import Pyx12Verif.Props.C09Found
open Pyx12Verif.Ctx
#print axioms run_parts
#print axioms no_crash
#print axioms instances
#print axioms partition_leaves
#print axioms partition
#print axioms positions_carried
#print axioms tree_is_maximal_instance
#print axioms plain_is_outside
#print axioms tree_count
#print axioms tree_shape_follows_path

#print axioms Pyx12Verif.CtxWalk.walk_facts
#print axioms Pyx12Verif.CtxWalk.step_consistent
#print axioms Pyx12Verif.CtxWalk.run_consistent
#print axioms Pyx12Verif.CtxWalk.lidOK_of_bool
#print axioms Pyx12Verif.CtxWalk.answers_consistent_of_run
#print axioms Pyx12Verif.CtxWalk.answers_consistent
#print axioms Pyx12Verif.CtxWalk.answersOf_segs
#print axioms Pyx12Verif.CtxWalk.partition_generated
#print axioms Pyx12Verif.CtxWalk.instances_generated
#print axioms Pyx12Verif.CtxWalk.no_crash_generated
#print axioms Pyx12Verif.CtxWalk.answers_consistent_multi
#print axioms Pyx12Verif.CtxWalk.partition_generated_multi

#print axioms Pyx12Verif.CtxWalk.walk_facts2
#print axioms Pyx12Verif.CtxWalk.shapeUnamb_of_unambiguous
#print axioms Pyx12Verif.CtxWalk.walk_none_lists
#print axioms Pyx12Verif.CtxWalk.notfound_step
#print axioms Pyx12Verif.CtxWalk.run_consistent_any
#print axioms Pyx12Verif.CtxWalk.answers_consistent_of_found
#print axioms Pyx12Verif.CtxWalk.answers_consistent_any
#print axioms Pyx12Verif.CtxWalk.partition_located
#print axioms Pyx12Verif.CtxWalk.instances_located
#print axioms Pyx12Verif.CtxWalk.no_crash_located
#print axioms Pyx12Verif.CtxWalk.tree_is_maximal_instance_located
#print axioms Pyx12Verif.CtxWalk.plain_is_outside_located
#print axioms Pyx12Verif.CtxWalk.tree_count_located
#print axioms Pyx12Verif.CtxWalk.tree_shape_located
#print axioms Pyx12Verif.CtxWalk.positions_carried_located
