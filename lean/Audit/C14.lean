import Pyx12Verif.Props.C14
open Pyx12Verif.Syn
#print axioms syntaxViolated_iff
#print axioms syntaxValid_iff
#print axioms no_crash
#print axioms violated_iff_not_satisfied
#print axioms exclusion_nodup
#print axioms exclusion_count
#print axioms unknown_type
#print axioms too_few
#print axioms realise
#print axioms route_E_is_10
#print axioms route_other_is_2
#print axioms satisfied_no_error
#print axioms error_only_if_violated
#print axioms syntaxErrors_spec
#print axioms splitSyntax_spec
#print axioms split_known
#print axioms split_unknown
#print axioms loadNotes_render
#print axioms wfB_sound
