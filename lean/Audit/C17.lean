import Pyx12Verif.Props.C17
import Pyx12Verif.Props.C17Fields
open Pyx12Verif.Path Pyx12Verif.Segment
#print axioms parse_print
#print axioms print_parse_print
#print axioms qualifier_needs_segment
#print axioms index_after_loops_needs_segment
#print axioms matchLast_none_iff
#print axioms loop_id_AK2_reads_as_segment
#print axioms get_set
#print axioms get_missing
#print axioms set_pads
#print axioms set_pads_sub
#print axioms set_frame
#print axioms set_frame_observed
#print axioms foreign_segment_refused
#print axioms isa16_component_ignored
#print axioms matchLast_decomp
#print axioms decomp_unique
#print axioms matchLast_fields
#print axioms matchLast_fields_iff
#print axioms fields_explicit
#print axioms parse_fields
#print axioms parse_fields_designator
#print axioms parse_fields_loops_only
