import Pyx12Verif.Props.C11
open Pyx12Verif.Writer
#print axioms writer_body_preserved
#print axioms writer_discards_supplied_trailers
#print axioms reader_clean_after_close
#print axioms reader_clean_after_close_text
#print axioms writer_trailers_true
#print axioms writer_trailers_true_text
#print axioms trailers_of_accepted
#print axioms session_accepted
#print axioms isa_carries_delims
#print axioms write_isa_output
#print axioms writer_total
#print axioms orphan_trailer_dropped
#print axioms short_stack_closes_interchange
#print axioms isa_refused
#print axioms freshCtl_iff_freshFrom
#print axioms grammar_wellNested

#print axioms reader_end_to_end
#print axioms session_starts_with_isa
