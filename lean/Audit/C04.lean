import Pyx12Verif.Props.C04
open Pyx12Verif.Envelope
#print axioms reader_eq_recount_segs
#print axioms reader_eq_recount
#print axioms reader_eq_recount_open
#print axioms consistent_no_error_segs
#print axioms consistent_no_error
#print axioms hl_stack_is_ancestor_chain
#print axioms chain_suffix_is_chain
#print axioms hl_blank_parent_keeps_closed_tree
#print axioms reader_total
#print axioms reader_total_unfixed_counterexample
#print axioms d5_witness
#print axioms d6_witness
#print axioms d34_witness
#print axioms not_nested_reports_counterexample
#print axioms not_nested_reports_partial
#print axioms flattenDoc_properlyNested
#print axioms properlyNested_iff
#print axioms pyInt_ascii
#print axioms pyInt_ascii_digits
#print axioms pyInt_unicode_digits
#print axioms pyInt_skips
#print axioms pyInt_rejects
#print axioms pyInt_unicode_example
#print axioms isPySpace_iff
#print axioms pyDigitVal_eq_some
