import Pyx12Verif.Props.C16
open Pyx12Verif.MapSkel
#print axioms fetch_sound
#print axioms paths_unique
#print axioms obligation_gives_fetch
