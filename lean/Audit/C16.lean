import Pyx12Verif.Props.C16
import Pyx12Verif.Props.C16Rules
open Pyx12Verif.MapSkel
#print axioms fetch_sound
#print axioms paths_unique
#print axioms obligation_gives_fetch
#print axioms obligation_excludes
#print axioms usage_sound
#print axioms repeat_sound
#print axioms elem_sound
#print axioms seq_sound
#print axioms note_sound
#print axioms noteOK_gives_syn
#print axioms note_sound_syn
#print axioms pos_sound
#print axioms sibling_keys_disjoint
#print axioms isMatch_key
#print axioms sibling_sound
#print axioms sibling_sound_checked
#print axioms slots_sound
#print axioms pathdup_sound
#print axioms sibling_slot_needed
#print axioms sibling_full_fails
#print axioms obligation_gives_usage
#print axioms obligation_gives_repeat
#print axioms obligation_gives_elem
#print axioms obligation_gives_seq
#print axioms obligation_gives_note
#print axioms obligation_gives_pos
#print axioms obligation_gives_sibling
#print axioms obligation_gives_pathdup
#print axioms index_sound
#print axioms index_lookup_unique
#print axioms getFilename_first
#print axioms nodeAt_snoc
#print axioms sibsAt_iff
#print axioms local_in_violations
