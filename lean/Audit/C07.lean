import Pyx12Verif.Props.C07
open Pyx12Verif.Pipeline
#print axioms pipeline_total
#print axioms pipeline_outcomes
#print axioms reader_total
#print axioms segValid_noCrash
#print axioms checkSegs_noCrash
#print axioms viewOf_isSome
#print axioms compValid_patched_ok
#print axioms reader_segments_nonEmpty
#print axioms exOracle_wf
