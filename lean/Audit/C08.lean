import Pyx12Verif.Props.C08
open Pyx12Verif.Xml
#print axioms unescape_escapeText
#print axioms unescape_escapeAttr
#print axioms unescape_escape
#print axioms escape_safe
#print axioms stack_invariant
#print axioms seg_nesting
#print axioms xml_balanced
#print axioms loop_repeat_fresh
#print axioms fresh_instances
#print axioms agree_of_sibOK
#print axioms good_of_map
#print axioms good_of_goodFromB
#print axioms rebuild_identity
#print axioms misfire_reopens_parent
#print axioms misfire_closes_root
#print axioms exSteps_good
#print axioms exSteps_runs
#print axioms doc_roundtrip
#print axioms stepsFit_of_stepsFitB
