import Pyx12Verif.Props.C08
import Pyx12Verif.Props.C08TextExample2
open Pyx12Verif.Xml
#print axioms unescape_escapeText
#print axioms unescape_escapeAttr
#print axioms unescape_escape
#print axioms escape_safe
#print axioms stack_invariant
#print axioms seg_nesting
#print axioms xml_balanced
#print axioms loop_repeat_fresh
#print axioms fresh_instances
#print axioms agree_of_sibOK
#print axioms good_of_map
#print axioms good_of_goodFromB
#print axioms rebuild_identity
#print axioms misfire_reopens_parent
#print axioms misfire_closes_root
#print axioms exSteps_good
#print axioms exSteps_runs
#print axioms doc_roundtrip
#print axioms stepsFit_of_stepsFitB
#print axioms Pyx12Verif.Convert.session_complete
#print axioms Pyx12Verif.Convert.convertText_complete
#print axioms Pyx12Verif.Convert.read_printed
#print axioms Pyx12Verif.Convert.canonical_printed
#print axioms Pyx12Verif.Convert.normal_of_canonical
#print axioms Pyx12Verif.Convert.written_trailers
#print axioms Pyx12Verif.Convert.written_keeps
#print axioms Pyx12Verif.Convert.convert_of_rounds
#print axioms Pyx12Verif.Convert.text_roundtrip_repairs_counts
#print axioms Pyx12Verif.Convert.written_same
#print axioms Pyx12Verif.Convert.text_roundtrip_generated
#print axioms Pyx12Verif.Convert.text_roundtrip_identity
#print axioms Pyx12Verif.Doc.ExS.good_domain
#print axioms Pyx12Verif.Doc.ExS.goodNl_identity
