import Pyx12Verif.Props.C09Walk
open Pyx12Verif.CtxWalk
#print axioms isLoopMatch_fst
#print axioms gotoSegMatch_fst
#print axioms goto_transparent
#print axioms scan_found
#print axioms scan_notHere
#print axioms walk_facts
#print axioms step_consistent
#print axioms run_consistent
#print axioms lidOK_of_bool
#print axioms answers_consistent_of_run
#print axioms answers_consistent
#print axioms answersOf_segs
#print axioms partition_generated
#print axioms instances_generated
#print axioms no_crash_generated
#print axioms run_where
#print axioms gs_step
#print axioms groups_consistent
#print axioms answers_consistent_multi
#print axioms groupAnswers_segs
#print axioms partition_generated_multi
