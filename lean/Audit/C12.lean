import Pyx12Verif.Props.C12
open Pyx12Verif.C12
#print axioms reencode_invariant
#print axioms read_encoded
#print axioms reencode_invariant_reader
