import Pyx12Verif.Props.C12
import Pyx12Verif.Props.DocDelimSubExample3
open Pyx12Verif.C12
#print axioms reencode_invariant
#print axioms read_encoded
#print axioms reencode_invariant_reader
#print axioms Pyx12Verif.Doc.stepSeg_rename
#print axioms Pyx12Verif.Doc.runSegs_rename
#print axioms Pyx12Verif.Doc.validateRead_rename
#print axioms Pyx12Verif.Doc.validateDoc_rename
#print axioms Pyx12Verif.Doc.doc_delimiter_independent_sub
#print axioms Pyx12Verif.Doc.doc_delimiter_independent_sub_views
#print axioms Pyx12Verif.Doc.ack_eq_of_fixed
#print axioms Pyx12Verif.Doc.errorEvents_mapComp
#print axioms Pyx12Verif.Doc.sepNeutral_of_prime
#print axioms Pyx12Verif.Envelope.pyInt_neutral_char
#print axioms Pyx12Verif.ErrTree.run_ren
#print axioms Pyx12Verif.Envelope.step_ren
#print axioms Pyx12Verif.Doc.Ex.doc_delimiter_independent_sub_full_counterexample
#print axioms Pyx12Verif.Doc.Ex.witness_sub
#print axioms Pyx12Verif.Doc.Ex.doc_delimiter_independent_sub_noint_counterexample
