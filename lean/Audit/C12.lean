import Pyx12Verif.Model.Validation
