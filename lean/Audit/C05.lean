import Pyx12Verif.Props.C05
open Pyx12Verif.C05
#print axioms verdict_iff_no_error
#print axioms errorCount_iff_noError_partial
#print axioms errorCount_iff_noError_counterexample
#print axioms reported_iff_counted_partial
#print axioms reported_iff_counted_counterexample
#print axioms close_accept_iff
#print axioms closeSt_at
#print axioms ak5_accept_iff
#print axioms ak5_accept_iff_counterexample_envelope_element
#print axioms ak5_accept_iff_counterexample_after_close
#print axioms ak9_accept_iff
#print axioms ak901_eq
#print axioms ak9_totals_eq_recount
#print axioms closeGs_at
#print axioms ack_addressed_to_sender
#print axioms ack_names_every_group_and_set_in_order
#print axioms itemisation_complete
#print axioms ak3Line_decode
#print axioms ak4Line_decode
