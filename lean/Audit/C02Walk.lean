import Pyx12Verif.Props.C02Walk
open Pyx12Verif.WalkerGen
-- reusable facts
#print axioms flush_nil
#print axioms isMatch_hits
#print axioms hits_overlap
#print axioms isLoopMatch_false
#print axioms gotoSegMatch_none
#print axioms gotoSegMatch_first
#print axioms scan_skips_nonmatching
#print axioms chain_match
#print axioms chain_goto
-- one step of the walker
#print axioms step_seg
#print axioms step_loop
#print axioms step_enter
-- the property
#print axioms walk_accepts_flat
#print axioms walk_accepts_nested
#print axioms walk_accepts_generated
#print axioms exDeriv1
