import Pyx12Verif.Props.C18
import Pyx12Verif.Props.C18Doc
open Pyx12Verif.Globals
#print axioms inv_preserved
#print axioms run_state
#print axioms run_independent_of_history
#print axioms history_independent
#print axioms Pyx12Verif.Doc.session_nth
#print axioms Pyx12Verif.Doc.session_history_independent
#print axioms Pyx12Verif.Doc.session_repeat
#print axioms Pyx12Verif.Doc.session_order_independent
#print axioms Pyx12Verif.Doc.ctxSession_history_independent
