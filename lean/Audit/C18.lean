import Pyx12Verif.Props.C18
open Pyx12Verif.Globals
#print axioms inv_preserved
#print axioms run_state
#print axioms run_independent_of_history
#print axioms history_independent
