import Pyx12Verif.Props.C02
open Pyx12Verif.Walker
#print axioms get_incr_same
#print axioms get_incr_other
#print axioms get_resetTo_below
#print axioms get_resetTo_other
#print axioms forceLoopStart_seg
