import Pyx12Verif.Props.C02
import Pyx12Verif.Props.C02Walk
import Pyx12Verif.Props.C02Multi
open Pyx12Verif.Walker
#print axioms get_incr_same
#print axioms get_incr_other
#print axioms get_resetTo_below
#print axioms get_resetTo_other
#print axioms forceLoopStart_seg

open Pyx12Verif.WalkerGen
#print axioms flush_nil
#print axioms isMatch_hits
#print axioms hits_overlap
#print axioms isLoopMatch_false
#print axioms gotoSegMatch_none
#print axioms gotoSegMatch_first
#print axioms scan_skips_nonmatching
#print axioms chain_match
#print axioms chain_goto
#print axioms step_seg
#print axioms step_loop
#print axioms step_enter
#print axioms walk_accepts_flat
#print axioms walk_accepts_nested
#print axioms walk_accepts_generated
#print axioms exDeriv1
#print axioms Pyx12Verif.WalkerGen.group_after
#print axioms Pyx12Verif.WalkerGen.tail_after
#print axioms Pyx12Verif.WalkerGen.groups_run
#print axioms Pyx12Verif.WalkerGen.walk_accepts_multi
#print axioms Pyx12Verif.WalkerGen.genReps_many
#print axioms Pyx12Verif.WalkerGen.genChild_many
#print axioms Pyx12Verif.WalkerGen.walk_accepts_multi_sets
