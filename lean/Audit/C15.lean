import Pyx12Verif.Props.C15
open Pyx12Verif.ElemValid
#print axioms isValidDataType_iff
#print axioms needless_iff
#print axioms checkValue_spec
#print axioms elemErrors_spec
#print axioms elemErrors_spec_opt
#print axioms result_false_iff_error
#print axioms error_imp_false
#print axioms admissible_no_error
#print axioms no_error_admissible
#print axioms mem_kidsValid
#print axioms compErrors_spec
#print axioms comp_result_false_iff_error
#print axioms compValid_unpatched
#print axioms compErrors_spec_shipped
#print axioms compErrors_spec_shipped_counterexample
