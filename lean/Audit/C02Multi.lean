import Pyx12Verif.Props.C02Multi
open Pyx12Verif.WalkerGen
#print axioms group_after
#print axioms tail_after
#print axioms groups_run
#print axioms walk_accepts_multi
#print axioms genReps_many
#print axioms genChild_many
#print axioms walk_accepts_multi_sets
#print axioms exSetA_deriv
