import Pyx12Verif.Props.C06
open Pyx12Verif.C06 Pyx12Verif.Ack
#print axioms ack997_envelope_clean
#print axioms ack999_envelope_clean
#print axioms ack_st_control_unique
#print axioms ack999_st_control_unique
#print axioms echo_cannot_split
#print axioms render997_eq
#print axioms ack997_text_roundtrip
#print axioms ack_complete
#print axioms ack999_complete
#print axioms ack_selects_ack_map
#print axioms legacy_keyerror_truncates
#print axioms legacy_999_truncates
#print axioms legacy_gs08_is_isa_version
#print axioms ack999_envelope_example
