import Pyx12Verif.Props.C13
open Pyx12Verif.Validation
#print axioms matchN_iff
#print axioms matchR_iff
#print axioms inClass_iff
#print axioms idOk_iff
#print axioms time_iff
#print axioms date8_iff
#print axioms date6_iff
#print axioms dateDT_iff
#print axioms rd8_iff
#print axioms dispatch_N
#print axioms dispatch_R
#print axioms dispatch_ID
#print axioms dispatch_AN
#print axioms dispatch_RD8
#print axioms dispatch_DT
#print axioms dispatch_D8
#print axioms dispatch_D6
#print axioms dispatch_TM
