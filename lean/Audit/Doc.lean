import Pyx12Verif.Props.Doc
import Pyx12Verif.Props.DocAccept
import Pyx12Verif.Props.DocDelim
import Pyx12Verif.Props.DocExample3
#print axioms Pyx12Verif.Doc.doc_total
#print axioms Pyx12Verif.Doc.doc_outcomes
#print axioms Pyx12Verif.Doc.elemReports_codes
#print axioms Pyx12Verif.Doc.segEvents_clean
#print axioms Pyx12Verif.Doc.doc_accepts_of_runOK
#print axioms Pyx12Verif.Doc.doc_accepts_generated
#print axioms Pyx12Verif.Doc.doc_accepts_generated_text
#print axioms Pyx12Verif.Doc.validateRead_congr
#print axioms Pyx12Verif.Doc.doc_delimiter_independent_partial
#print axioms Pyx12Verif.Doc.Ex.good_accepted
