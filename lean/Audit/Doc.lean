import Pyx12Verif.Props.Doc
import Pyx12Verif.Props.DocAccept
import Pyx12Verif.Props.DocDelim
import Pyx12Verif.Props.DocExample3
import Pyx12Verif.Props.DocEnv
import Pyx12Verif.Props.DocEnvExample
import Pyx12Verif.Props.DocDelim2
import Pyx12Verif.Props.DocTotal2
import Pyx12Verif.Props.DocDelim3
import Pyx12Verif.Props.DocDelimExample
import Pyx12Verif.Props.DocDelimCounter
#print axioms Pyx12Verif.Doc.doc_total
#print axioms Pyx12Verif.Doc.doc_outcomes
#print axioms Pyx12Verif.Doc.elemReports_codes
#print axioms Pyx12Verif.Doc.segEvents_clean
#print axioms Pyx12Verif.Doc.doc_accepts_of_runOK
#print axioms Pyx12Verif.Doc.doc_accepts_generated
#print axioms Pyx12Verif.Doc.doc_accepts_generated_text
#print axioms Pyx12Verif.Doc.validateRead_congr
#print axioms Pyx12Verif.Doc.doc_delimiter_independent_partial
#print axioms Pyx12Verif.Doc.Ex.good_accepted
#print axioms Pyx12Verif.Doc.envQuiet_of_consistent
#print axioms Pyx12Verif.Doc.doc_accepts_generated_consistent
#print axioms Pyx12Verif.Doc.Ex.good_accepted_consistent
#print axioms Pyx12Verif.C12.read_encoded_reports
#print axioms Pyx12Verif.C12.reencode_reports_invariant
#print axioms Pyx12Verif.Doc.doc_delimiter_independent
#print axioms Pyx12Verif.Doc.doc_delimiter_independent_views
#print axioms Pyx12Verif.Doc.first_segment_isa
#print axioms Pyx12Verif.Doc.doc_total_sharp
#print axioms Pyx12Verif.Doc.doc_total_three
#print axioms Pyx12Verif.Doc.doc_crash_sites
#print axioms Pyx12Verif.Doc.stepSeg_isa16
#print axioms Pyx12Verif.Doc.isa16_admits_of_charset
#print axioms Pyx12Verif.Doc.doc_delimiter_independent_sub_partial
#print axioms Pyx12Verif.Doc.Ex.good_same_sub
#print axioms Pyx12Verif.Doc.Ex.good_other_sub
#print axioms Pyx12Verif.Doc.Ex.doc_delimiter_independent_full_counterexample
