import Pyx12Verif.Props.CtxDoc
import Pyx12Verif.Props.CtxDocPartition
import Pyx12Verif.Props.CtxDocDelim
import Pyx12Verif.Props.CtxDocExample2
import Pyx12Verif.Props.CtxDocFull
#print axioms Pyx12Verif.Doc.ctxDoc_total
#print axioms Pyx12Verif.Doc.ctxDoc_total_none
#print axioms Pyx12Verif.Doc.ctxDoc_total_sharp
#print axioms Pyx12Verif.Doc.ctxDoc_total_none_sharp
#print axioms Pyx12Verif.Doc.ctxDoc_outcomes
#print axioms Pyx12Verif.Doc.cRunSegs_of_glue
#print axioms Pyx12Verif.Doc.ctxRead_partition
#print axioms Pyx12Verif.Doc.ctxDoc_partition_generated
#print axioms Pyx12Verif.Doc.ctxRead_congr
#print axioms Pyx12Verif.Doc.ctxDoc_delimiter_independent_partial
#print axioms Pyx12Verif.Doc.ctxDoc_delimiter_independent
#print axioms Pyx12Verif.Doc.ctxDoc_delimiter_independent_views
#print axioms Pyx12Verif.Doc.Ex.good_partition
#print axioms Pyx12Verif.Doc.Ex.good_ctx_same_sub
#print axioms Pyx12Verif.Ctx.treeStep_modeA
#print axioms Pyx12Verif.Ctx.treeStep_modeB
#print axioms Pyx12Verif.CtxWalk.regular_of_facts
#print axioms Pyx12Verif.CtxWalk.walk_found_matches
#print axioms Pyx12Verif.Doc.cStepSeg_post
#print axioms Pyx12Verif.Doc.cRunSegs_safe
#print axioms Pyx12Verif.Doc.lid_of_bool
#print axioms Pyx12Verif.Doc.ctxDoc_tree_exits_unreachable
#print axioms Pyx12Verif.Doc.ctxDoc_total_full_lid
#print axioms Pyx12Verif.Doc.ctxDoc_total_full_sites
#print axioms Pyx12Verif.Doc.ctxDoc_total_full_bool
#print axioms Pyx12Verif.Doc.ctxDoc_total_full_goodPart
#print axioms Pyx12Verif.Doc.ctxDoc_total_full_false
