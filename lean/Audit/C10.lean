import Pyx12Verif.Props.C10
open Pyx12Verif.DataTree
#print axioms get_set
#print axioms get_set_plain
#print axioms keepsQualifier_unkeyed
#print axioms keepsQualifier_other_element
#print axioms get_set_other_element
#print axioms set_frame
#print axioms queries_agree
#print axioms queries_agree_assert
#print axioms queries_agree_seg
#print axioms delete_removes_exactly_one
#print axioms delete_node_false
#print axioms delete_segment_serialisation
#print axioms deleted_invisible
#print axioms insert_keeps_sorted
#print axioms insert_after_le_before_gt
#print axioms add_segment_places
#print axioms add_segment_serialisation
#print axioms add_loop_serialisation
#print axioms add_node_serialisation
#print axioms set_value_serialisation
#print axioms copy_independent
#print axioms serialise_reflects_edits
#print axioms serialise_reflects_edits_forest
