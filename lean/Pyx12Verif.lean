import Pyx12Verif.Model.Proto
import Pyx12Verif.Model.Validation
import Pyx12Verif.Spec.Validation
import Pyx12Verif.Proofs.ValidationChars
import Pyx12Verif.Props.C13
