/-
Set-valued specification of element / composite validation (C15), transcribed from DESIGN.md §3 C15:
which error codes the *definition* of a node implies for a value.  A set of codes is a predicate
`Code → Prop`.  Written with the value languages of C13 (`IsInt`, `IsDate8`, …), `∃`-witnesses and
`List.count`, not with the scans the code performs.
-/
import Pyx12Verif.Model.ElemValid
import Pyx12Verif.Spec.Validation

namespace Pyx12Verif.ElemValid
open Pyx12Verif.Validation

/-- `Lang(type, charset)`: the X12 value language of a declared data type (C13) -/
def InLang (ty : List Char) (cs : Charset) (v : List Char) : Prop :=
  ((∃ sfx, ty = 'N' :: sfx) ∧ IsInt v) ∨ (ty = tyR ∧ IsDecimal v) ∨
  ((ty = tyID ∨ ty = tyAN) ∧ InCharset cs v) ∨ (ty = tyRD8 ∧ IsRange v) ∨
  (ty = tyDT ∧ (IsDate6 v ∨ IsDate8 v ∨ IsDate12 v)) ∨ (ty = tyD8 ∧ IsDate8 v) ∨
  (ty = tyD6 ∧ IsDate6 v) ∨ (ty = tyTM ∧ IsTime v) ∨ ty = ['B'] ∨ ty = []

/-- numbers: `R` and `N0 … N9` -/
def NumericType (ty : List Char) : Prop := ty = tyR ∨ ∃ sfx, ty = 'N' :: sfx

def DateType (ty : List Char) : Prop := ty = tyRD8 ∨ ty = tyDT ∨ ty = tyD8 ∨ ty = tyD6

def TextType (ty : List Char) : Prop := ty = tyAN ∨ ty = tyID

/-- the length that counts: sign and decimal point are not counted for numbers -/
def EffLen (v : List Char) : Nat := v.length - (v.count '-' + v.count '.')

/-- length against which min/max are compared -/
def LenOf (ty v : List Char) (n : Nat) : Prop :=
  (NumericType ty ∧ n = EffLen v) ∨ (¬ NumericType ty ∧ n = v.length)

def HasControl (v : List Char) : Prop := ∃ c ∈ v, c.toNat ∈ controlCodes

/-- `v` is `body` followed by one or more blanks, `body` itself not ending in a blank, and the
    body alone already has the minimum length: the blanks are not needed -/
def NeedlessBlanks (minLen : Nat) (v : List Char) : Prop :=
  ∃ body k, 0 < k ∧ v = body ++ List.replicate k ' ' ∧ body.getLast? ≠ some ' ' ∧ minLen ≤ body.length

def DeclaresCodes (d : ElemDef) : Prop := d.codes ≠ [] ∨ d.extDeclared = true

def InCodes (d : ElemDef) (ctx : Ctx) (v : List Char) : Prop :=
  v ∈ d.codes ∨ (d.extDeclared = true ∧ ctx.extMember = true)

/-- code for "not of the declared type": 8 for dates, 9 for time, 6 otherwise -/
def WrongTypeCode (ty : List Char) (c : Code) : Prop :=
  (c = 8 ∧ DateType ty) ∨ (c = 9 ∧ ty = tyTM) ∨ (c = 6 ∧ ¬ DateType ty ∧ ty ≠ tyTM)

/-- the value is in the language of one of the qualifier-selected formats -/
def InSomeLang (tl : List (List Char)) (extended : Bool) (v : List Char) : Prop :=
  ∃ t ∈ tl, InLang t (pickCharset extended false) v

def FirstOfOptionalComposite (d : ElemDef) : Prop :=
  d.seq = 1 ∧ d.parentComposite = true ∧ d.parentRequired = false

/-- nothing (or an empty value) was sent -/
def EmptySpec (d : ElemDef) (c : Code) : Prop :=
  c = 1 ∧ d.usage = .R ∧ ¬ FirstOfOptionalComposite d

/-- a non-empty value for an element that may be used -/
def ValueSpec (d : ElemDef) (ctx : Ctx) (v : List Char) (c : Code) : Prop :=
  (c = 4 ∧ ∃ n, LenOf d.dataType v n ∧ n < d.minLen) ∨
  (c = 5 ∧ ∃ n, LenOf d.dataType v n ∧ d.maxLen < n) ∨
  (HasControl v ∧ c = 6) ∨
  (¬ HasControl v ∧
    ((c = 6 ∧ TextType d.dataType ∧ NeedlessBlanks d.minLen v) ∨
     (c = 7 ∧ DeclaresCodes d ∧ ¬ InCodes d ctx v) ∨
     (¬ InLang d.dataType (pickCharset ctx.extended ctx.v5010) v ∧ WrongTypeCode d.dataType c) ∨
     (d.typeList ≠ [] ∧ ¬ InSomeLang d.typeList ctx.extended v ∧
        ((c = 9 ∧ tyTM ∈ d.typeList) ∨ (c = 8 ∧ tyTM ∉ d.typeList ∧ ∃ t ∈ d.typeList, DateType t))) ∨
     (c = 7 ∧ d.hasRegex = true ∧ ctx.regexFound = false)))

/-- `Spec(def, v)` -/
def Spec (d : ElemDef) (ctx : Ctx) : Input → Code → Prop
  | .composite, c => c = 6
  | .absent, c => EmptySpec d c
  | .simple v, c =>
    if v = [] then EmptySpec d c else if d.usage = .N then c = 10 else ValueSpec d ctx v c

/-- the qualifier-selected list, when given, names at least one supported date/time format -/
def TypeListWF (d : ElemDef) : Prop :=
  d.typeList = [] ∨ tyTM ∈ d.typeList ∨ ∃ t ∈ d.typeList, DateType t

/-- the value meets the definition -/
def Admissible (d : ElemDef) (ctx : Ctx) : Input → Prop
  | .composite => False
  | .absent => d.usage ≠ .R ∨ FirstOfOptionalComposite d
  | .simple v =>
    if v = [] then d.usage ≠ .R ∨ FirstOfOptionalComposite d
    else
      d.usage ≠ .N ∧ (∃ n, LenOf d.dataType v n ∧ d.minLen ≤ n ∧ n ≤ d.maxLen) ∧ ¬ HasControl v ∧
      ¬ (TextType d.dataType ∧ NeedlessBlanks d.minLen v) ∧
      (DeclaresCodes d → InCodes d ctx v) ∧
      InLang d.dataType (pickCharset ctx.extended ctx.v5010) v ∧
      (d.typeList ≠ [] → InSomeLang d.typeList ctx.extended v) ∧
      (d.hasRegex = true → ctx.regexFound = true)

/-! ### composites -/

/-- what child `i` is given: the `i`-th component while there is one, nothing afterwards -/
def inputAt (vs : List (List Char)) (i : Nat) : Input :=
  match vs[i]? with
  | some v => .simple v
  | none => .absent

/-- `CompSpec`: 2 when a required composite has no non-empty component (or is absent), 5 when a
    not-used composite has one, otherwise 3 for surplus components plus what each declared
    sub-element's definition implies for its component -/
def CompSpec (usage : Usage) (kids : List (ElemDef × Ctx)) : Option (List (List Char)) → Code → Prop
  | none, c => c = 2 ∧ usage = .R
  | some vs, c =>
    if ∀ v ∈ vs, v = [] then c = 2 ∧ usage = .R
    else if usage = .N then c = 5
    else (c = 3 ∧ kids.length < vs.length) ∨
         ∃ i k, kids[i]? = some k ∧ Spec k.1 k.2 (inputAt vs i) c

def codesOf : CompOutcome → List Code
  | .ok _ cs => cs
  | .crashIterNone => []

def validOf : CompOutcome → Bool
  | .ok b _ => b
  | .crashIterNone => false

end Pyx12Verif.ElemValid
