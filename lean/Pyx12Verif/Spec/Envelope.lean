/-
Declarative side of C04: structured documents, their flattening, and the structural recount.

A properly nested input is, by definition, `flatten d` (or `flattenDoc` when trailers are missing at the end
of the input) of a structured document: Interchange ⊃ Group ⊃ Set ⊃ body, each level a record carrying the
header and trailer fields the reader consults.  `recountSegs` says, for every segment of the flattening, which
errors a recount blames on it.  It is written by structural recursion over the document with `length`,
membership in the control numbers of the *earlier siblings*, and — for HL/LX — functions of the *body
segments before* the one judged.  No stack, no running counters.
-/
import Pyx12Verif.Model.Envelope

namespace Pyx12Verif.Envelope

/-! ### structured documents -/

structure TSet where
  stCtl : Option Str          -- ST02
  body : List SegView
  seCnt : Option Str          -- SE01
  seCtl : Option Str          -- SE02
  deriving DecidableEq, Repr

structure Group where
  gsCtl : Option Str          -- GS06
  sets : List TSet
  geCnt : Option Str          -- GE01
  geCtl : Option Str          -- GE02
  deriving DecidableEq, Repr

structure Interchange where
  isaCtl : Option Str         -- ISA13
  groups : List Group
  ieaCnt : Option Str         -- IEA01
  ieaCtl : Option Str         -- IEA02
  deriving DecidableEq, Repr

/-- an input that ends inside a set / group / interchange: the open envelopes have no trailer -/
structure OpenSet where
  stCtl : Option Str
  body : List SegView
  deriving DecidableEq, Repr

structure OpenGroup where
  gsCtl : Option Str
  sets : List TSet
  last : Option OpenSet
  deriving DecidableEq, Repr

structure OpenInterchange where
  isaCtl : Option Str
  groups : List Group
  last : Option OpenGroup
  deriving DecidableEq, Repr

structure Doc where
  complete : List Interchange
  tail : Option OpenInterchange
  deriving DecidableEq, Repr

def mkISA (c : Option Str) : SegView := ⟨idISA, none, c, true⟩
def mkGS (c : Option Str) : SegView := ⟨idGS, none, c, false⟩
def mkST (c : Option Str) : SegView := ⟨idST, none, c, false⟩
def mkSE (n c : Option Str) : SegView := ⟨idSE, n, c, false⟩
def mkGE (n c : Option Str) : SegView := ⟨idGE, n, c, false⟩
def mkIEA (n c : Option Str) : SegView := ⟨idIEA, n, c, false⟩

def flattenSet (t : TSet) : List SegView := mkST t.stCtl :: (t.body ++ [mkSE t.seCnt t.seCtl])

def flattenSets : List TSet → List SegView
  | [] => []
  | t :: r => flattenSet t ++ flattenSets r

def flattenGroup (g : Group) : List SegView := mkGS g.gsCtl :: (flattenSets g.sets ++ [mkGE g.geCnt g.geCtl])

def flattenGroups : List Group → List SegView
  | [] => []
  | g :: r => flattenGroup g ++ flattenGroups r

def flattenInterchange (i : Interchange) : List SegView :=
  mkISA i.isaCtl :: (flattenGroups i.groups ++ [mkIEA i.ieaCnt i.ieaCtl])

def flatten : List Interchange → List SegView
  | [] => []
  | i :: r => flattenInterchange i ++ flatten r

def flattenOpenSet : Option OpenSet → List SegView
  | none => []
  | some o => mkST o.stCtl :: o.body

def flattenOpenGroup : Option OpenGroup → List SegView
  | none => []
  | some o => mkGS o.gsCtl :: (flattenSets o.sets ++ flattenOpenSet o.last)

def flattenTail : Option OpenInterchange → List SegView
  | none => []
  | some o => mkISA o.isaCtl :: (flattenGroups o.groups ++ flattenOpenGroup o.last)

def flattenDoc (d : Doc) : List SegView := flatten d.complete ++ flattenTail d.tail

/-! ### the recount -/

/-- a count / number element read as a number: absent or not a number = `none` -/
def fieldInt : Option Str → Option Int
  | none => none
  | some t => pyInt t

def isHL (v : SegView) : Bool := v.id == idHL
def isLX (v : SegView) : Bool := v.id == idLX
def isCLM (v : SegView) : Bool := v.id == idCLM

/-- the HL02 fields of the HL segments among `pre`, in order -/
def hlParents (pre : List SegView) : List (Option Str) := (pre.filter isHL).map (·.ctl)

/-- `f` names a member of `chain` -/
def ValidParent (chain : List Nat) (f : Option Str) : Prop :=
  ∃ k ∈ chain, fieldInt f = some (natInt k)

instance (chain : List Nat) (f : Option Str) : Decidable (ValidParent chain f) := by
  unfold ValidParent; infer_instance

/-- chain (self first, then parent, grandparent, …) of the last HL of a table of chains -/
def prevChain (tbl : List (List Nat)) : List Nat := tbl.getLast?.getD []

/-- chain of the parent that the reader attributes to the next HL, whose HL02 is `f`:
 * blank HL02: the reader leaves the open hierarchy in place, i.e. treats the HL as a child of the previous HL (D37);
 * HL02 names an ancestor-or-self `p` of the previous HL: the chain of HL `p`, looked up in the table;
 * anything else: no parent. -/
def parentChain (tbl : List (List Nat)) (f : Option Str) : List Nat :=
  if f = some [] then prevChain tbl
  else match fieldInt f with
    | none => []
    | some p => if p ∈ (prevChain tbl).map natInt then (tbl[p.toNat - 1]?).getD [] else []

def nextChain (tbl : List (List Nat)) (f : Option Str) : List Nat := (tbl.length + 1) :: parentChain tbl f

def chainsAux (tbl : List (List Nat)) : List (Option Str) → List (List Nat)
  | [] => tbl
  | f :: r => chainsAux (tbl ++ [nextChain tbl f]) r

/-- entry `k-1` = ancestor chain of the `k`-th HL of a set, computed from the HL02 fields by following parents -/
def chainTable (ps : List (Option Str)) : List (List Nat) := chainsAux [] ps

/-- ancestors-or-self of the last HL among `pre` -/
def lastChain (pre : List SegView) : List Nat := prevChain (chainTable (hlParents pre))

/-- HL judged against the body segments before it: sequence number = its position among the HLs; a non-blank
parent must be an ancestor-or-self of the previous HL -/
def hlErrs (pre : List SegView) (v : SegView) : List Err :=
  (if fieldInt v.cnt = some (natInt ((pre.filter isHL).length + 1)) then [] else [Err.hl1]) ++
  (if v.ctl = some [] then [] else if ValidParent (lastChain pre) v.ctl then [] else [Err.hl2])

/-- the body segments after the last CLM -/
def sinceLastCLM (pre : List SegView) : List SegView := (pre.reverse.takeWhile (fun v => !(isCLM v))).reverse

/-- LX judged against the body segments before it: LX01 is the decimal text of its position among the LXs since
the last CLM -/
def lxErrs (pre : List SegView) (v : SegView) : List Err :=
  if v.cnt = some (decimal (((sinceLastCLM pre).filter isLX).length + 1)) then [] else [Err.lx]

def bodyErrs (chk : Bool) (pre : List SegView) (v : SegView) : List Err :=
  if v.id = idHL then hlErrs pre v
  else if chk = true ∧ v.id = idLX then lxErrs pre v
  else []

/-- `pre` = the body segments already passed, `rest` = those still to judge -/
def recountBody (chk : Bool) : List SegView → List SegView → List (List Err)
  | _, [] => []
  | pre, v :: r => bodyErrs chk pre v :: recountBody chk (pre ++ [v]) r

/-- a header whose control number was already used by an earlier sibling -/
def dupErr (e : Err) (c : Option Str) (earlier : List (Option Str)) : List Err :=
  if c ∈ earlier then [e] else []

/-- trailer against its own header and the number of members actually present -/
def trailerErrs (eId eCnt : Err) (hdrCtl trlCtl trlCnt : Option Str) (members : Nat) : List Err :=
  (if trlCtl = hdrCtl then [] else [eId]) ++
  (if fieldInt trlCnt = some (natInt members) then [] else [eCnt])

def recountSet (chk : Bool) (earlier : List TSet) (t : TSet) : List (List Err) :=
  dupErr Err.st23 t.stCtl (earlier.map (·.stCtl)) ::
    (recountBody chk [] t.body ++ [trailerErrs Err.st3 Err.st4 t.stCtl t.seCtl t.seCnt (t.body.length + 2)])

def recountSets (chk : Bool) : List TSet → List TSet → List (List Err)
  | _, [] => []
  | earlier, t :: r => recountSet chk earlier t ++ recountSets chk (earlier ++ [t]) r

def recountGroup (chk : Bool) (earlier : List Group) (g : Group) : List (List Err) :=
  dupErr Err.gs6 g.gsCtl (earlier.map (·.gsCtl)) ::
    (recountSets chk [] g.sets ++ [trailerErrs Err.gs4 Err.gs5 g.gsCtl g.geCtl g.geCnt g.sets.length])

def recountGroups (chk : Bool) : List Group → List Group → List (List Err)
  | _, [] => []
  | earlier, g :: r => recountGroup chk earlier g ++ recountGroups chk (earlier ++ [g]) r

def recountInterchange (chk : Bool) (earlier : List Interchange) (i : Interchange) : List (List Err) :=
  dupErr Err.isa025 i.isaCtl (earlier.map (·.isaCtl)) ::
    (recountGroups chk [] i.groups ++ [trailerErrs Err.isa001 Err.isa021 i.isaCtl i.ieaCtl i.ieaCnt i.groups.length])

def recountFile (chk : Bool) : List Interchange → List Interchange → List (List Err)
  | _, [] => []
  | earlier, i :: r => recountInterchange chk earlier i ++ recountFile chk (earlier ++ [i]) r

/-- one error list per segment of `flatten d`, and a last (empty) one for the end of input -/
def recountSegs (chk : Bool) (d : List Interchange) : List (List Err) := recountFile chk [] d ++ [[]]

def recount (chk : Bool) (d : List Interchange) : List Err := (recountSegs chk d).flatten

/-! input that stops inside open envelopes: the end of input is blamed for every missing trailer, outermost first -/

def recountOpenSet (chk : Bool) (earlier : List TSet) : Option OpenSet → List (List Err)
  | none => [[Err.isa023, Err.gs3]]
  | some o => dupErr Err.st23 o.stCtl (earlier.map (·.stCtl)) ::
      (recountBody chk [] o.body ++ [[Err.isa023, Err.gs3, Err.st2]])

def recountOpenGroup (chk : Bool) (earlier : List Group) : Option OpenGroup → List (List Err)
  | none => [[Err.isa023]]
  | some o => dupErr Err.gs6 o.gsCtl (earlier.map (·.gsCtl)) ::
      (recountSets chk [] o.sets ++ recountOpenSet chk o.sets o.last)

def recountTail (chk : Bool) (earlier : List Interchange) : Option OpenInterchange → List (List Err)
  | none => [[]]
  | some o => dupErr Err.isa025 o.isaCtl (earlier.map (·.isaCtl)) ::
      (recountGroups chk [] o.groups ++ recountOpenGroup chk o.groups o.last)

def recountDoc (chk : Bool) (d : Doc) : List (List Err) :=
  recountFile chk [] d.complete ++ recountTail chk d.complete d.tail

/-! ### domain -/

/-- body segments are not envelope segments -/
def BodyOk (body : List SegView) : Prop := ∀ v ∈ body, isEnvId v.id = false

/-- every LX follows a CLM of the same set (true of every 837; the reader resets its service-line counter only at CLM) -/
def LxAfterClm (body : List SegView) : Prop :=
  ∀ a v b, body = a ++ v :: b → v.id = idLX → ∃ c ∈ a, c.id = idCLM

def BodyDom (chk : Bool) (body : List SegView) : Prop := BodyOk body ∧ (chk = true → LxAfterClm body)

def SetsDom (chk : Bool) (ts : List TSet) : Prop := ∀ t ∈ ts, BodyDom chk t.body
def GroupsDom (chk : Bool) (gs : List Group) : Prop := ∀ g ∈ gs, SetsDom chk g.sets
def InDomain (chk : Bool) (d : List Interchange) : Prop := ∀ i ∈ d, GroupsDom chk i.groups

def OpenGroupDom (chk : Bool) : Option OpenGroup → Prop
  | none => True
  | some o => SetsDom chk o.sets ∧ (match o.last with | none => True | some os => BodyDom chk os.body)

def DocDomain (chk : Bool) (d : Doc) : Prop :=
  InDomain chk d.complete ∧
  (match d.tail with
   | none => True
   | some o => GroupsDom chk o.groups ∧ OpenGroupDom chk o.last)

/-! ### consistency (nothing for a recount to blame) -/

def BodyConsistent (chk : Bool) (body : List SegView) : Prop :=
  ∀ pre v post, body = pre ++ v :: post →
    (v.id = idHL → fieldInt v.cnt = some (natInt ((pre.filter isHL).length + 1)) ∧
                   (v.ctl = some [] ∨ ValidParent (lastChain pre) v.ctl)) ∧
    (chk = true → v.id = idLX → v.cnt = some (decimal (((sinceLastCLM pre).filter isLX).length + 1)))

def SetConsistent (chk : Bool) (t : TSet) : Prop :=
  t.seCtl = t.stCtl ∧ fieldInt t.seCnt = some (natInt (t.body.length + 2)) ∧ BodyConsistent chk t.body

def GroupConsistent (chk : Bool) (g : Group) : Prop :=
  g.geCtl = g.gsCtl ∧ fieldInt g.geCnt = some (natInt g.sets.length) ∧
  (g.sets.map (·.stCtl)).Nodup ∧ ∀ t ∈ g.sets, SetConsistent chk t

def InterchangeConsistent (chk : Bool) (i : Interchange) : Prop :=
  i.ieaCtl = i.isaCtl ∧ fieldInt i.ieaCnt = some (natInt i.groups.length) ∧
  (i.groups.map (·.gsCtl)).Nodup ∧ ∀ g ∈ i.groups, GroupConsistent chk g

def Consistent (chk : Bool) (d : List Interchange) : Prop :=
  (d.map (·.isaCtl)).Nodup ∧ ∀ i ∈ d, InterchangeConsistent chk i

/-! ### proper nesting as a recogniser (needed only for the clause about other arrangements) -/

inductive Level | top | inIsa | inGs | inSt
  deriving DecidableEq, Repr

def nestStep (l : Level) (v : SegView) : Option Level :=
  match l with
  | .top => if v.id = idISA then some .inIsa else none
  | .inIsa => if v.id = idGS then some .inGs else if v.id = idIEA then some .top else none
  | .inGs => if v.id = idST then some .inSt else if v.id = idGE then some .inIsa else none
  | .inSt => if v.id = idSE then some .inGs else if isEnvId v.id = true then none else some .inSt

def nestedFrom : Level → List SegView → Bool
  | _, [] => true
  | l, v :: r =>
    match nestStep l v with
    | none => false
    | some l' => nestedFrom l' r

/-- the sequence is the flattening of a structured document whose trailers may be missing at the end -/
def properlyNested (s : List SegView) : Bool := nestedFrom .top s

end Pyx12Verif.Envelope
