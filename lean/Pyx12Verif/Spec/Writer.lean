/-
Declarative side of C11: the grammar of write histories, the domain of the statements, the reader's view of a
written segment, freshness of control numbers, envelope errors.
-/
import Pyx12Verif.Model.Writer
import Pyx12Verif.Spec.Envelope
import Pyx12Verif.Proofs.SegText

namespace Pyx12Verif.Writer
open Pyx12Verif.Envelope (RState SegView Kind Fixes Str Level Err idISA idIEA idGS idGE idST idSE idHL idLX decimal
  isEnvId mkISA mkGS mkST mkSE mkGE mkIEA)
open Pyx12Verif.SegText (Seg Delims joinWith normComp)

/-! ### well-nested write histories

`Interchange* ; Interchange = ISA Group* [IEA] ; Group = GS Set* [GE] ; Set = ST body* [SE]` where a trailer may be
omitted only if the next envelope event is an enclosing trailer or the end of the history (`Close`).  As an automaton
over the four nesting levels; every state is final, so every prefix of a well-nested history is well nested. -/

def histStep (l : Level) (id : Str) : Option Level :=
  match l with
  | .top => if id = idISA then some .inIsa else none
  | .inIsa => if id = idGS then some .inGs else if id = idIEA then some .top else none
  | .inGs =>
    if id = idST then some .inSt else if id = idGE then some .inIsa else if id = idIEA then some .top else none
  | .inSt =>
    if id = idSE then some .inGs else if id = idGE then some .inIsa else if id = idIEA then some .top
    else if isEnvId id = true then none else some .inSt

def wellNestedFrom : Level → List Seg → Bool
  | _, [] => true
  | l, s :: r =>
    match histStep l s.id with
    | none => false
    | some l' => wellNestedFrom l' r

def wellNested (h : List Seg) : Bool := wellNestedFrom .top h

/-! ### the same grammar as a datatype (used to show that the automaton is the grammar) -/

structure HSet where
  st : Seg
  body : List Seg
  se : Option Seg          -- the supplied trailer, `none` = omitted
structure HGroup where
  gs : Seg
  sets : List HSet
  ge : Option Seg
structure HInter where
  isa : Seg
  groups : List HGroup
  iea : Option Seg

def optSeg : Option Seg → List Seg
  | none => []
  | some s => [s]

def flatAll {α : Type} (f : α → List Seg) : List α → List Seg
  | [] => []
  | x :: r => f x ++ flatAll f r

def HSet.flat (t : HSet) : List Seg := t.st :: (t.body ++ optSeg t.se)
def flatSets (ts : List HSet) : List Seg := flatAll HSet.flat ts
def HGroup.flat (g : HGroup) : List Seg := g.gs :: (flatSets g.sets ++ optSeg g.ge)
def flatGroups (gs : List HGroup) : List Seg := flatAll HGroup.flat gs
def HInter.flat (i : HInter) : List Seg := i.isa :: (flatGroups i.groups ++ optSeg i.iea)
def flatInters (h : List HInter) : List Seg := flatAll HInter.flat h

/-- a trailer is omitted only in the last member of a list of siblings … -/
def LastOnly {α : Type} (closed : α → Bool) : List α → Prop
  | [] => True
  | [_] => True
  | x :: y :: r => closed x = true ∧ LastOnly closed (y :: r)

def HSet.Ok (t : HSet) : Prop :=
  t.st.id = idST ∧ (∀ b ∈ t.body, isEnvId b.id = false) ∧ ∀ s, t.se = some s → s.id = idSE
/-- … and then the enclosing envelope ends right there: its own trailer follows, or it is itself the last one open -/
def HGroup.Ok (g : HGroup) : Prop :=
  g.gs.id = idGS ∧ (∀ t ∈ g.sets, t.Ok) ∧ LastOnly (fun t : HSet => t.se.isSome) g.sets ∧ ∀ s, g.ge = some s → s.id = idGE
def HInter.Ok (i : HInter) : Prop :=
  i.isa.id = idISA ∧ (∀ g ∈ i.groups, g.Ok) ∧ LastOnly (fun g : HGroup => g.ge.isSome) i.groups ∧
  ∀ s, i.iea = some s → s.id = idIEA
def HistOk (h : List HInter) : Prop := (∀ i ∈ h, i.Ok) ∧ LastOnly (fun i : HInter => i.iea.isSome) h

/-! ### domain -/

/-- the delimiters are no letters or digits (they would break `SE`, the printed count, …) and pairwise distinct -/
structure DelimsOk (d : Delims) : Prop where
  distinct : d.Distinct
  term : d.term.isAlphanum = false
  ele : d.ele.isAlphanum = false
  sub : d.sub.isAlphanum = false

/-- a control number that survives printing and re-reading: not empty, free of the delimiters -/
def CtlOk (d : Delims) (c : Str) : Prop := c ≠ [] ∧ d.term ∉ c ∧ d.ele ∉ c ∧ d.sub ∉ c

/-- every composite has at least one component (true of everything `Segment(...)` builds) -/
def WfSeg (s : Seg) : Prop := ∀ c ∈ s.elems, c ≠ []

/-- `get_value` of element `i`, declaratively -/
def valueAt (term : Char) (s : Seg) (i : Nat) : Option Str :=
  (s.elems[i]?).map fun c => joinWith term (normComp c)

/-- the control-number element of a header -/
def ctlOf (d : Delims) (s : Seg) : Option Str :=
  if s.id = idISA then valueAt d.ele s 12
  else if s.id = idGS then valueAt d.sub s 5
  else if s.id = idST then valueAt d.sub s 1
  else none

/-- a segment the statements speak about: well formed; an ISA has its 16 elements; a header carries a good control
number -/
def SegDom (d : Delims) (s : Seg) : Prop :=
  WfSeg s ∧ (s.id = idISA → s.elems.length = 16) ∧
  ((s.id = idISA ∨ s.id = idGS ∨ s.id = idST) → ∃ c, ctlOf d s = some c ∧ CtlOk d c)

/-- counts stay below the limit of Python's int/str conversion -/
def countLimit : Nat := 10 ^ Envelope.maxStrDigits

/-! ### what `X12Reader` (check_837_lx off, its default) consults of a segment it has read -/

def isTrailerId (i : Str) : Bool := i == idIEA || i == idGE || i == idSE

def rview (d : Delims) (s : Seg) : SegView :=
  if s.id = idISA then
    (if s.elems.length = 16 then ⟨s.id, none, valueAt d.ele s 12, true⟩ else ⟨s.id, none, none, false⟩)
  else if s.id = idGS then ⟨s.id, none, valueAt d.sub s 5, false⟩
  else if s.id = idST then ⟨s.id, none, valueAt d.sub s 1, false⟩
  else if s.id = idHL ∨ isTrailerId s.id = true then ⟨s.id, valueAt d.sub s 0, valueAt d.sub s 1, false⟩
  else ⟨s.id, none, none, false⟩

/-! ### what has to appear on the stream for a non-trailer segment -/

def notTrailer (s : Seg) : Bool := !isTrailerId s.id

/-- the ISA as it must appear: ISA11 (for 00501) and ISA16 carry the writer's separators -/
def fixISA (c : Cfg) (s : Seg) : Seg := if s.id = idISA then isaOut c s (valueAt c.d.ele s 11) else s

/-! ### control numbers unique within their scope -/

def idIs (k : Str) (s : Seg) : Bool := s.id == k

/-- control numbers of the `k` headers among `l` -/
def ctlsOf (d : Delims) (k : Str) (l : List Seg) : List (Option Str) := (l.filter (idIs k)).map (ctlOf d)

/-- the segments after the last `k` header -/
def sinceLast (k : Str) (pre : List Seg) : List Seg := (pre.reverse.takeWhile (fun s => !(idIs k s))).reverse

/-- ISA13 distinct within the file, GS06 within the interchange (since the last ISA), ST02 within the group (since the
last GS) -/
def FreshCtl (d : Delims) (h : List Seg) : Prop :=
  ∀ pre s post, h = pre ++ s :: post →
    (s.id = idISA → ctlOf d s ∉ ctlsOf d idISA pre) ∧
    (s.id = idGS → ctlOf d s ∉ ctlsOf d idGS (sinceLast idISA pre)) ∧
    (s.id = idST → ctlOf d s ∉ ctlsOf d idST (sinceLast idGS pre))

/-! ### envelope errors -/

def isEnvErr : Err → Bool
  | .hl1 | .hl2 | .lx => false
  | _ => true

def envelopeErrs (es : List Err) : List Err := es.filter isEnvErr

def isDupErr : Err → Bool
  | .isa025 | .gs6 | .st23 => true
  | _ => false

/-! ### structural statement about trailers (against `Spec/Envelope`) -/

/-- every trailer of the structured document carries its header's control number and the number of members
actually present -/
def TrailersTrue (doc : List Envelope.Interchange) : Prop :=
  ∀ i ∈ doc, i.ieaCtl = i.isaCtl ∧ Envelope.fieldInt i.ieaCnt = some (Envelope.natInt i.groups.length) ∧
    ∀ g ∈ i.groups, g.geCtl = g.gsCtl ∧ Envelope.fieldInt g.geCnt = some (Envelope.natInt g.sets.length) ∧
      ∀ t ∈ g.sets, t.seCtl = t.stCtl ∧ Envelope.fieldInt t.seCnt = some (Envelope.natInt (t.body.length + 2))

end Pyx12Verif.Writer
