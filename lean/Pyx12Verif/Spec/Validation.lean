/-
Specifications of the X12 value languages used by C13 (and by C15's `Spec`): written with
quantifiers over digit lists, explicit code-point tables and calendar arithmetic.
-/
import Pyx12Verif.Model.Validation

namespace Pyx12Verif.Validation

/-! ### specifications -/

def AllDigits (s : List Char) : Prop := ∀ c ∈ s, isDigit c = true

/-- optional minus followed by one or more digits -/
def IsInt (s : List Char) : Prop :=
  ∃ d, d ≠ [] ∧ AllDigits d ∧ (s = d ∨ s = '-' :: d)

/-- optional minus, digits, optionally one point followed by digits; at least one digit overall -/
def IsDecimal (s : List Char) : Prop :=
  ∃ i f, AllDigits i ∧ AllDigits f ∧ (i ≠ [] ∨ f ≠ []) ∧
    ((f = [] ∧ (s = i ∨ s = '-' :: i)) ∨ (f ≠ [] ∧ (s = i ++ '.' :: f ∨ s = '-' :: (i ++ '.' :: f))))

/-- X12 basic character set, by code point -/
def basicCodes : List Nat :=
  [65,66,67,68,69,70,71,72,73,74,75,76,77,78,79,80,81,82,83,84,85,86,87,88,89,90,
   48,49,50,51,52,53,54,55,56,57,
   33,34,38,39,40,41,42,43,44,45,46,47,58,59,63,61,32]
/-- additions of the X12 extended character set -/
def extCodes : List Nat :=
  [97,98,99,100,101,102,103,104,105,106,107,108,109,110,111,112,113,114,115,116,117,118,119,120,121,122,
   37,126,64,91,93,95,123,125,92,124,60,62,35,36]
/-- further additions of the 5010 extended set: `^` and backtick -/
def ext5Codes : List Nat := [94, 96]

def specCodes : Charset → List Nat
  | .B => basicCodes
  | .E => basicCodes ++ extCodes
  | .E5 => basicCodes ++ extCodes ++ ext5Codes

def InCharset (cs : Charset) (s : List Char) : Prop := ∀ c ∈ s, c.toNat ∈ specCodes cs

def leap (y : Nat) : Prop := y % 4 = 0 ∧ (y % 100 ≠ 0 ∨ y % 400 = 0)
instance (y : Nat) : Decidable (leap y) := by unfold leap; infer_instance

/-- Gregorian month lengths -/
def daysIn (y m : Nat) : Nat :=
  if m = 2 then (if leap y then 29 else 28)
  else if m = 4 ∨ m = 6 ∨ m = 9 ∨ m = 11 then 30 else 31

/-- a real calendar day not before 1800 -/
def IsYMD (y m d : Nat) : Prop := 1800 ≤ y ∧ 1 ≤ m ∧ m ≤ 12 ∧ 1 ≤ d ∧ d ≤ daysIn y m

def century (yy : Nat) : Nat := if yy < 50 then 2000 + yy else 1900 + yy

def IsDate8 (s : List Char) : Prop :=
  s.length = 8 ∧ AllDigits s ∧ IsYMD (num (s.take 4)) (num ((s.drop 4).take 2)) (num ((s.drop 6).take 2))

def IsDate6 (s : List Char) : Prop :=
  s.length = 6 ∧ AllDigits s ∧
    IsYMD (century (num (s.take 2))) (num ((s.drop 2).take 2)) (num ((s.drop 4).take 2))

def IsDate12 (s : List Char) : Prop :=
  s.length = 12 ∧ AllDigits s ∧
    IsYMD (num (s.take 4)) (num ((s.drop 4).take 2)) (num ((s.drop 6).take 2)) ∧
    num ((s.drop 8).take 2) ≤ 23 ∧ num ((s.drop 10).take 2) ≤ 59

/-- two 8-digit dates joined by exactly one hyphen -/
def IsRange (s : List Char) : Prop := ∃ a b, s = a ++ '-' :: b ∧ IsDate8 a ∧ IsDate8 b

/-- HHMM, HHMMSS, HHMMSSd, HHMMSSdd with every field in range -/
def IsTime (s : List Char) : Prop :=
  AllDigits s ∧ (s.length = 4 ∨ s.length = 6 ∨ s.length = 7 ∨ s.length = 8) ∧
    num (s.take 2) ≤ 23 ∧ num ((s.drop 2).take 2) ≤ 59 ∧
    (6 ≤ s.length → num ((s.drop 4).take 2) ≤ 59)

end Pyx12Verif.Validation
