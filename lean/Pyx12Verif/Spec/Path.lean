/-
Declarative side of C17 (paths): the shape of a segment id and the *language* of the regular
expression that X12Path applies to the last path component, written as a decomposition of the text
(no matcher, no backtracking).
-/
import Pyx12Verif.Model.Path

namespace Pyx12Verif.Path

/-- a segment id as the grammar has it: 2 or 3 characters of `[A-Z0-9]`, the first a letter -/
def SegIdOK (s : List Char) : Prop :=
  (s.length = 2 ∨ s.length = 3) ∧ (∀ x ∈ s, isIdChar x = true) ∧ ∃ a r, s = a :: r ∧ isUpper a = true

/-- `l` is a text of the form  `[SEG] [ '[' QUAL ']' ] [ dd ] [ '-' d+ ] [ '\n' ]`
    — every part optional, so the empty text and a lone newline are included -/
def IsDesignator (l : List Char) : Prop :=
  ∃ seg q ee cc nl : List Char,
    l = seg ++ (q ++ (ee ++ (cc ++ nl))) ∧
    (seg = [] ∨ SegIdOK seg) ∧
    (q = [] ∨ ∃ t, q = '[' :: (t ++ [']']) ∧ t ≠ [] ∧ ∀ x ∈ t, isIdChar x = true) ∧
    (ee = [] ∨ ∃ d1 d2, ee = [d1, d2] ∧ isDigit d1 = true ∧ isDigit d2 = true) ∧
    (cc = [] ∨ ∃ ds, cc = '-' :: ds ∧ ds ≠ [] ∧ ∀ x ∈ ds, isDigit x = true) ∧
    (nl = [] ∨ nl = ['\n'])

end Pyx12Verif.Path
