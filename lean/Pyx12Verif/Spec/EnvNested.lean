/-
Static "envelope nesting" conditions on a map skeleton, and the path invariant of the walker they go with
(used by Props/DocTotalFull.lean to exclude the two walker witnesses of `doc_total_sharp`).

How the walker (`Model/Walker.lean`) can make a node current:
  * a segment child of a loop that encloses the current node (or of the root) — `scanChildren` on the way up;
  * the FIRST segment of a loop `D` it enters: `D` is a child `c` of such an enclosing loop (or that loop itself, on
    repetition) when the data segment matches `D`'s first segment, or `D` lies (at any depth: `_goto_seg_match` searches
    in depth) below a child `c` whose first child is a loop ("wrapper"), and its first segment matches.
Hence for a number `h` (the id of a "guard" segment, e.g. ST):

  `okPath h root p`   every loop on the way to `p` contains a loop that starts with a segment (`liveCh`: otherwise no node
                      below it is ever current), and as long as all loops passed start with a segment none of them starts
                      with `h`; after the first wrapper loop anything goes.
  `walk_nested` (Proofs/DocNestWalk.lean): a walker step with a data segment whose id is not `h` keeps `okPath h`.
  `guardList h bad root`   the static condition: every segment node at an `okPath h` position has an id outside `bad`
                      (`guard_sound`).  Evaluated by the kernel on a skeleton.

`SetNested` / `CtlNested` bundle this for the end-to-end model (`Model/Document.lean`): the ids are the numbers the
strings intern to in the map (`internV`), `tightB` says that only the guard string interns to `h`, `pinAt` that the
nodes `x12n_document` fetches by path are themselves at `okPath` positions.
-/
import Pyx12Verif.Model.Document
import Pyx12Verif.Spec.WalkerGen

namespace Pyx12Verif.EnvNest
open Pyx12Verif Pyx12Verif.MapSkel Pyx12Verif.Walker Pyx12Verif.WalkerGen

/-- the children list starts with a segment whose id is `h` -/
def headIs (h : Nat) : List Node → Bool
  | [] => false
  | c :: _ => c.isSeg && c.ident == h

mutual
/-- the node is a loop that starts with a segment, or contains one -/
def liveNode : Node → Bool
  | .seg .. => false
  | .loop _ _ _ _ _ ch => firstIsSeg ch || liveList ch
def liveList : List Node → Bool
  | [] => false
  | c :: r => liveNode c || liveList r
end

/-- `liveNode` of the loop with these children -/
def liveCh (ch : List Node) : Bool := firstIsSeg ch || liveList ch

mutual
/-- below a wrapper loop: no live position carries a `bad` id -/
def freeNode (bad : List Nat) : Node → Bool
  | .seg sid _ _ _ _ _ _ => !bad.contains sid
  | .loop _ _ _ _ _ ch => !liveCh ch || freeList bad ch
def freeList (bad : List Nat) : List Node → Bool
  | [] => true
  | c :: r => freeNode bad c && freeList bad r
end

mutual
/-- no position the walker can reach without matching a segment with id `h` carries a `bad` id -/
def guardNode (h : Nat) (bad : List Nat) : Node → Bool
  | .seg sid _ _ _ _ _ _ => !bad.contains sid
  | .loop _ _ _ _ _ ch =>
    !liveCh ch || (if firstIsSeg ch then headIs h ch || guardList h bad ch else freeList bad ch)
def guardList (h : Nat) (bad : List Nat) : List Node → Bool
  | [] => true
  | c :: r => guardNode h bad c && guardList h bad r
end

/-- the condition on the children lists of the loops passed, outermost first; `f` = a wrapper loop was passed -/
def okL (h : Nat) : Bool → List (List Node) → Bool
  | _, [] => true
  | f, sub :: r => liveCh sub && (f || !headIs h sub) && okL h (f || !firstIsSeg sub) r

/-- children lists of the nodes along an index path (a segment or a missing node counts as `[]`, which is not live) -/
def loopsAlong : List Node → List Nat → List (List Node)
  | _, [] => []
  | ch, i :: r =>
    match ch[i]? with
    | some n => n.children :: loopsAlong n.children r
    | none => [[]]

/-- the invariant of a current node (index path of a segment node) -/
def okPath (h : Nat) (root : List Node) (p : List Nat) : Bool := okL h false (loopsAlong root p.dropLast)

end Pyx12Verif.EnvNest

namespace Pyx12Verif.Doc
open Pyx12Verif Pyx12Verif.EnvNest

/-- only the string `x` interns to `h` in map `m` (`h` is neither the number of the empty value nor that of unknown
    strings, and every table entry with number `h` is `x`) -/
def tightB (m : MapX) (unk : Nat) (x : Str) (h : Nat) : Bool :=
  h != 0 && h != unk && m.intern.all (fun p => p.2 != h || p.1 == x)

/-- the node fetched by `path` (if any) is at an `okPath h` position -/
def pinAt (h : Nat) (ms : Maps) (m : MapX) (path : List (Nat × Nat)) : Bool :=
  match MapSkel.fetch ms.consts.ent ms.consts.hl m.root path with
  | none => true
  | some ip => okPath h m.root ip

/-- the number a segment id interns to in a map -/
def idNum (ms : Maps) (m : MapX) (x : Str) : Nat := internV m ms.unk (some x)

/-- **set nesting** of map `m` with guard number `h`: only "ST" interns to `h`; no SE or BHT node can become current
    before a segment with id `h` was matched; the ISA and GS nodes fetched by path lie outside every loop headed by `h`. -/
def setNestedB (ms : Maps) (m : MapX) (h : Nat) : Bool :=
  tightB m ms.unk Envelope.idST h &&
  guardList h [idNum ms m Envelope.idSE, idNum ms m sBHT] m.root &&
  pinAt h ms m (isaPath ms) && pinAt h ms m (gsPath ms)

/-- **group nesting** of a control map with guard number `g`: only "GS" interns to `g`; no ST or BHT node can become
    current before a segment with id `g` was matched; the ISA node fetched by path lies outside every loop headed by `g`. -/
def ctlNestedB (ms : Maps) (m : MapX) (g : Nat) : Bool :=
  tightB m ms.unk Envelope.idGS g &&
  guardList g [idNum ms m Envelope.idST, idNum ms m sBHT] m.root &&
  pinAt g ms m (isaPath ms)

/-- the envelope nesting of the shipped maps, as far as the glue depends on it -/
structure EnvNested (ms : Maps) : Prop where
  sets : ∀ m ∈ ms.maps, ∃ h, setNestedB ms m h = true
  ctl : ∀ f control, (f = ctl401 ∨ f = ctl501) → findMap ms f = some control → ∃ g, ctlNestedB ms control g = true

/-! ### decidable form, with canonical guard candidates (evaluated by the driver on the loaded maps, op NESTOK) -/

/-- a number no string of the map interns to -/
def freshNum (ms : Maps) (m : MapX) : Nat := 1 + m.intern.foldl (fun a p => max a p.2) ms.unk

def setGuardOK (ms : Maps) (m : MapX) : Bool :=
  setNestedB ms m (idNum ms m Envelope.idST) || setNestedB ms m (freshNum ms m)

def ctlGuardOK (ms : Maps) (m : MapX) : Bool :=
  ctlNestedB ms m (idNum ms m Envelope.idGS) || ctlNestedB ms m (freshNum ms m)

def isCtlFile (m : MapX) : Bool := m.file == ctl401 || m.file == ctl501

/-- decidable form of `EnvNested` (with the canonical guard candidates) -/
def envNestedB (ms : Maps) : Bool :=
  ms.maps.all (fun m => setGuardOK ms m && (!isCtlFile m || ctlGuardOK ms m))


end Pyx12Verif.Doc
