/-
Declarative side of C08: what a *reader* of the XML sees.

* `unescape`: entity decoding of the five predefined XML entities (what any XML parser does to character data and
  attribute values).
* `ctxAfter`, `wellFormed`: the open-element chain a reader maintains over start/end tags; a document is well formed
  when every end tag names the innermost open element, exactly one root element exists and nothing follows it.
* `segCtxs`: for every `seg` element, in document order, its chain of ancestors and its `id`.
* `spell`: the chain of ancestors that spells a loop path: the root element, then one `loop` element per loop id.
* `expectedSeg`: the segment a faithful round trip must give back: not-used elements blanked, trailing empty
  sub-elements and trailing empty elements dropped.
-/
import Pyx12Verif.Model.XmlOut

namespace Pyx12Verif.Xml
open Pyx12Verif.Path Pyx12Verif.Segment

/-! ### entity decoding -/

/-- the entity that starts right after an `&`: its character and the number of characters to skip -/
def entityAt (r : Str) : Option (Char × Nat) :=
  if isCharPrefix ['a', 'm', 'p', ';'] r then some ('&', 4)
  else if isCharPrefix ['l', 't', ';'] r then some ('<', 3)
  else if isCharPrefix ['g', 't', ';'] r then some ('>', 3)
  else if isCharPrefix ['a', 'p', 'o', 's', ';'] r then some ('\'', 5)
  else if isCharPrefix ['q', 'u', 'o', 't', ';'] r then some ('"', 5)
  else none

/-- `skip` characters of an entity name still to be dropped -/
def unescapeFrom : Nat → Str → Str
  | _, [] => []
  | k + 1, _ :: r => unescapeFrom k r
  | 0, c :: r =>
    if c = '&' then
      (match entityAt r with
       | some (ch, n) => ch :: unescapeFrom n r
       | none => c :: unescapeFrom 0 r)
    else c :: unescapeFrom 0 r

def unescape (s : Str) : Str := unescapeFrom 0 s

/-! ### the reader's open-element chain -/

/-- open elements, outermost first: (name, id attribute) -/
abbrev Ctx := List (Str × Option Str)

def ctxStep (c : Ctx) : Ev → Option Ctx
  | .start t i => some (c ++ [(t, i)])
  | .leaf _ _ _ => if c.isEmpty then none else some c
  | .stop t =>
    match c.getLast? with
    | none => none
    | some (t', _) => if t = t' then some c.dropLast else none

/-- `none`: an end tag that does not close the innermost open element, or text outside any element -/
def ctxAfter : Ctx → List Ev → Option Ctx
  | c, [] => some c
  | c, e :: r =>
    match ctxStep c e with
    | none => none
    | some c' => ctxAfter c' r

/-- inside the root element: properly nested, and the root closes exactly at the end -/
def wfInside : Ctx → List Ev → Bool
  | _, [] => false
  | c, e :: r =>
    match ctxStep c e with
    | none => false
    | some c' => if c'.isEmpty then r.isEmpty else wfInside c' r

/-- one root element, properly nested content, nothing after the root's end tag -/
def wellFormed : List Ev → Bool
  | .start t i :: r => wfInside [(t, i)] r
  | _ => false

/-- the ancestors and the id of every `seg` element, in document order -/
def segCtxs : Ctx → List Ev → List (Ctx × Option Str)
  | _, [] => []
  | c, .start t i :: r => (if t = tagSeg then [(c, i)] else []) ++ segCtxs (c ++ [(t, i)]) r
  | c, .leaf _ _ _ :: r => segCtxs c r
  | c, .stop _ :: r => segCtxs c.dropLast r

/-- the chain of open elements that spells a loop path -/
def spell (path : List Str) : Ctx := (tagRoot, none) :: path.map (fun l => (tagLoop, some l))

/-! ### the segment a round trip has to return -/

def allEmpty (subs : List Str) : Bool := subs.all (fun v => v.isEmpty)

/-- sub-elements up to the last non-empty one; an empty element is one empty string -/
def trimSubs : List Str → List Str
  | [] => []
  | v :: r => if allEmpty r then [v] else v :: trimSubs r

/-- element `i` as it has to come back: blank when the map marks it not used or it is empty -/
def expectedElem : Option ChildDef → List Str → List Str
  | none, _ => [[]]
  | some c, subs => if c.notUsed || allEmpty subs then [[]] else trimSubs subs

def expectedElems : List ChildDef → List (List Str) → List (List Str)
  | _, [] => []
  | [], _ :: r => [[]] :: expectedElems [] r
  | c :: cs, e :: r => expectedElem (some c) e :: expectedElems cs r

/-- trailing blank elements dropped -/
def trimElems : List (List Str) → List (List Str)
  | [] => []
  | e :: r => if (trimElems r).isEmpty && allEmpty e then [] else e :: trimElems r

def expectedSeg (node : SegDef) (s : Seg) : Seg := ⟨node.sid, trimElems (expectedElems node.children s.elems)⟩

/-! ### data that fits its node (domain of the round-trip theorem) -/

/-- a simple value does not contain the separator `Segment.set` will split it on (`*` for ISA16, else `:`) -/
def valueOK (isa : Bool) (i : Nat) (v : Str) : Bool :=
  if isa && i == 15 then !v.contains '*' else !v.contains ':'

/-- one value in a simple element; no more sub-elements than the composite defines -/
def childFits (isa : Bool) (i : Nat) : ChildDef → Comp → Bool
  | .elem _ _ nu, e =>
    nu ||
    (match e.subs with
     | [v] => valueOK isa i v
     | _ => false)
  | .comp _ nu subs, e => nu || (!(isa && i == 15) && !e.subs.isEmpty && decide (e.subs.length ≤ subs.length))

/-- no more elements than the node defines, each fitting its definition -/
def fitsFrom (isa : Bool) : Nat → List ChildDef → List Comp → Bool
  | _, _, [] => true
  | _, [], _ :: _ => false
  | i, c :: cs, e :: es => childFits isa i c e && fitsFrom isa (i + 1) cs es

def fits (node : SegDef) (seg : SegObj) : Bool :=
  seg.id == node.sid && fitsFrom (isISA node.sid) 0 node.children seg.elements

/-! ### the run hypotheses as a decidable check (evaluated by the driver on every tested document) -/

/-- the code's character-wise prefix test gives the component-wise answer for this pair of paths -/
def agreeB (cur last : List Str) : Bool := (rootPath cur last == cur) == cur.isPrefixOf last

def goodFromB : List Str → List Step → Bool
  | _, [] => true
  | last, x :: r => (!x.first || !x.path.isEmpty) && agreeB x.path last && goodFromB x.path r

def stepsFitB : List Step → Bool
  | [] => true
  | x :: r => wfIds x.node && fits x.node x.seg && stepsFitB r

end Pyx12Verif.Xml
