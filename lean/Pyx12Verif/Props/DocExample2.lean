/-
Non-vacuity for `doc_total` (Props/Doc.lean): the outcome classes other than a verdict, on the maps of Props/DocExample.lean.
-/
import Pyx12Verif.Props.DocExample

namespace Pyx12Verif.Doc.Ex
open Pyx12Verif Pyx12Verif.Doc

/-- the other outcome classes of `doc_total` -/
example : (validateDoc ms ctx noMap).outcome = .mapNotFound := by decide +kernel
example : (validateDoc ms ctx badIsa).outcome = .notX12 := by decide +kernel
example : (validateDoc ms ctx "GS*1~".toList).outcome = .refused .notISA := by decide +kernel
example : (validateDoc ms ctx orphanSe).outcome = .crash (.errTree .stErrorNoSt) := by decide +kernel
example : (validateDoc ms ctx ghost).outcome = .crash .dataEle := by decide +kernel
example : (validateDoc { ms with maps := [] } ctx good).outcome = .mapLoadFailed := by decide +kernel

end Pyx12Verif.Doc.Ex
