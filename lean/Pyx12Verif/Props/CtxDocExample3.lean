/-
Reachability witness for the recorded finding (see Props/CtxDocExample.lean): `crash (reader plainNodeAsLoop)` =
`crash:AttributeError:x12context.py:_add_segment`, on a map with a wrapper loop; and what "no node found" does to a tree.
-/
import Pyx12Verif.Props.CtxDocExample

namespace Pyx12Verif.Doc.Ex
open Pyx12Verif Pyx12Verif.Doc MapSkel WalkerGen

/-! ### the recorded finding: a requested loop that does not begin with a segment -/

/-- ISA_LOOP [ISA, GS_LOOP [GS, ST_LOOP [ST, DETAIL (wrapper) [L2000 [REF …]], SE], GE], IEA] -/
def rootW : List Node :=
  [.loop 10 1 0 1 false
    [.seg 11 0 10 0 1 [] [el 1],
     .loop 12 20 0 0 false
       [.seg 13 0 10 0 1 [] [el 1],
        .loop 14 20 0 0 false
          [.seg 15 0 10 0 1 [] [el 1],
           .loop 19 20 0 1 true [.loop 20 10 1 0 false [.seg 18 0 10 0 1 [] [el 1]]],
           .seg 24 0 30 0 1 [] [el 1]],
        .seg 25 0 30 0 1 [] [el 1]],
     .seg 26 0 30 0 1 [] [el 1]]]

def msW : Maps :=
  { ms with maps := [mapX "x12.control.00401.xml", { (mapX "m.xml") with root := rootW, defs := [] }] }

/-- DETAIL (19) requested: REF sits in DETAIL/L2000, `DETAIL in loop_list` but no tree was ever started —
    `_add_segment` is entered with the plain ST node, whose `parent` is the (empty) push list:
    `AttributeError: 'list' object has no attribute 'x12_map_node'`, after ISA, GS, ST were yielded -/
example : (ctxDoc msW (some 19) good).stop = .crash (.reader Ctx.Crash.plainNodeAsLoop) ∧
    leafIdx (ctxDoc msW (some 19) good) = [[0], [1], [2]] := by decide +kernel
/-- the anchored loop inside it works -/
example : (ctxDoc msW (some 20) good).stop = .done ∧
    leafIdx (ctxDoc msW (some 20) good) = [[0], [1], [2], [3], [4], [5], [6]] ∧
    (ctxDoc msW (some 20) good).yields.map isTreeY = [false, false, false, true, false, false, false] := by decide +kernel

/-! ### a segment the walker does not find -/

/-- "no node found" falls back to the previous node and goes on: the unknown segment ZZZ is treated as another occurrence
    of the ST node — the FIRST segment of ST_LOOP, so a second tree is started at ZZZ (the set is split into the trees
    `ST` and `ZZZ SE`); its `seg_error '1'` is dropped with the per-segment `errh_list` -/
example : (ctxDoc ms (some 14) unknownSeg).stop = .done ∧
    leafIdx (ctxDoc ms (some 14) unknownSeg) = [[0], [1], [2], [3, 4], [5], [6]] ∧
    (ctxDoc ms (some 14) unknownSeg).errs.map (fun e => (e.seg, e.werrs)) = [(0, []), (1, []), (5, []), (6, [])] := by
  decide +kernel

end Pyx12Verif.Doc.Ex
